#!/usr/bin/env python3
# Runs every quick check against every seeded change (applied in ONE scratch
# worktree outside /repo, selected with SEED_REPO so that /repo itself stays
# untouched) and records which checks detect which change.
import json, os, subprocess, sys, time

WT = "/tmp/seed-mut"
PROPS = [f"C{i:02d}" for i in range(1, 21)]

def prop_of(mid):
    # r2-C05-a -> C05
    return [x for x in mid.split('-') if x.startswith('C')][0]
ENV = dict(os.environ, SEED_REPO=WT, CARGO_NET_OFFLINE="true", RUST_BACKTRACE="0", VERIF_SEED=os.environ.get("VERIF_SEED", "20260930"))

def sh(cmd, **kw):
    return subprocess.run(cmd, capture_output=True, text=True, **kw)

def main():
    only = sys.argv[1:]
    if not os.path.isdir(WT):
        r = sh(["git", "-C", "/repo", "worktree", "add", "--detach", WT, "HEAD"])
        assert r.returncode == 0, r.stderr
    out_path = "/verif/seeded/matrix.json"
    matrix = {}
    if os.path.exists(out_path):
        matrix = json.load(open(out_path))
    muts = sorted(d for d in os.listdir("/verif/seeded") if os.path.isdir(f"/verif/seeded/{d}"))
    for m in muts:
        if only and m not in only:
            continue
        sh(["git", "checkout", "--", "."], cwd=WT)
        sh(["git", "clean", "-fdq", "--", "src", "tests"], cwd=WT)
        r = sh(["git", "apply", f"/verif/seeded/{m}/patch.diff"], cwd=WT)
        if r.returncode != 0:
            matrix[m] = {"error": "patch does not apply"}
            continue
        row = matrix.get(m, {}) if isinstance(matrix.get(m), dict) else {}
        # The full cross product costs ~4 minutes per change on an idle
        # machine; by default only the change's own property and the general
        # differential / crash / diagnostic / determinism checks are run
        # (MATRIX_FULL=1 runs all twenty).
        cols = PROPS if os.environ.get("MATRIX_FULL") else sorted(set([prop_of(m), "C01", "C02", "C17", "C19"]))
        for p in cols:
            if p in row and row[p].get("exit") in (0, 1):
                continue
            t0 = time.time()
            try:
                r = sh(["./check", p, "quick"], cwd="/verif", env=ENV, timeout=900)
                code = r.returncode
                nviol = sum(1 for l in r.stdout.splitlines() if l.startswith("VIOLATION"))
            except subprocess.TimeoutExpired:
                code, nviol = -9, 0
            row[p] = {"exit": code, "violations": nviol, "wall_s": round(time.time() - t0, 1)}
            print(m, p, code, nviol, flush=True)
        matrix[m] = row
        json.dump(matrix, open(out_path, "w"), indent=1)
    sh(["git", "checkout", "--", "."], cwd=WT)

if __name__ == "__main__":
    main()
