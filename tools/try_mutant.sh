#!/bin/sh
# tools/try_mutant.sh <patch.diff> <property> [<property> ...]
# Applies a seeded change to /repo, runs the named quick checks, and undoes it.
patch="$1"; shift
git -C /repo diff --quiet || { echo "/repo is dirty"; exit 2; }
git -C /repo apply "$patch" || { echo "patch does not apply"; exit 2; }
for p in "$@"; do
    out=$(cd /verif && VERIF_SCALE=${VERIF_SCALE:-1} ./check "$p" quick 2>/dev/null | grep -E "VIOLATION|quick:|KNOWN" | head -5)
    echo "[$p] $(echo "$out" | tr '\n' ' ')"
done
git -C /repo checkout -- .
# rebuild caches for the clean tree lazily on next run
