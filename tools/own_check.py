#!/usr/bin/env python3
# Runs, for every seeded change given (default: all), only the check of the
# property the change was written against. Same mechanics as mutant_matrix.py.
import json, os, subprocess, sys
WT = "/tmp/seed-mut"
ENV = dict(os.environ, SEED_REPO=WT, CARGO_NET_OFFLINE="true", RUST_BACKTRACE="0")
def sh(cmd, **kw): return subprocess.run(cmd, capture_output=True, text=True, **kw)
if not os.path.isdir(WT):
    assert sh(["git", "-C", "/repo", "worktree", "add", "--detach", WT, "HEAD"]).returncode == 0
muts = sorted(d for d in os.listdir("/verif/seeded") if os.path.isdir(f"/verif/seeded/{d}"))
sel = sys.argv[1:]
for m in muts:
    if sel and not any(m.startswith(s) for s in sel):
        continue
    prop = [x for x in m.split("-") if x.startswith("C")][0]
    sh(["git", "checkout", "--", "."], cwd=WT)
    sh(["git", "clean", "-fdq", "--", "src", "tests"], cwd=WT)
    if sh(["git", "apply", f"/verif/seeded/{m}/patch.diff"], cwd=WT).returncode != 0:
        print(m, "patch does not apply", flush=True); continue
    r = sh(["./check", prop, "quick"], cwd="/verif", env=ENV, timeout=1200)
    nviol = sum(1 for l in r.stdout.splitlines() if l.startswith("VIOLATION"))
    print(m, prop, "exit", r.returncode, "violations", nviol, flush=True)
    # Recorded in the matrix that SENSITIVITY.md is generated from.
    mp = "/verif/seeded/matrix.json"
    mx = json.load(open(mp)) if os.path.exists(mp) else {}
    row = mx.get(m) if isinstance(mx.get(m), dict) and "error" not in mx.get(m) else {}
    row[prop] = {"exit": r.returncode, "violations": nviol}
    mx[m] = row
    json.dump(mx, open(mp, "w"), indent=1)
sh(["git", "checkout", "--", "."], cwd=WT)
