#!/usr/bin/env python3
# Regenerates MANIFEST.json from the table below (kept in one place so that
# the claimed checks, techniques and level notes stay consistent).
import json

CHECKS = {
 "C01": ("differential vs. reference interpreter over tape-decoded random programs (proptest), shrunk on the tape",
         "Random programs over the whole documented feature set (closures in loops, aliasing, shadowing, methods, destructuring, interpolation ...), stdout and success/failure class compared with an independent reference interpreter; 60k programs per quick run through the real binary, millions in-process in the thorough tier. Exploration: finds feature-interaction defects, cannot prove absence.", "4/C01"),
 "C02": ("generated no-crash search: exhaustive alias-shape x operation matrix, callable x route matrix, boundary-integer grid, multi-byte literals, hostile random programs (proptest)",
         "Exit status must be 0 or 103 and stderr free of panic text for every generated program inside the documented resource bounds; the matrix part is exhaustive over its pool.", "4/C02"),
 "C03": ("fuzzing of the front end: exhaustive short strings over a 50-symbol alphabet, random text, token-level mutation and truncation of valid programs, invalid UTF-8; totality/format oracle; metamorphic pairs for slot text parsed after similar slots",
         "Every input is accepted or rejected cleanly (one located diagnostic, empty stdout, exit 103, line within bounds); in-process classification by the repository's own lexer/parser, confirmed through the binary.", "4/C03"),
 "C04": ("exhaustive small-scope enumeration of scope-operation programs + rename metamorphic relation + differential vs. reference interpreter",
         "All programs over a small alphabet of scope operations to a bound, random larger ones, and consistent renamings; reports how many cases distinguish dynamic scoping / by-value capture / shared frames from the truth.", "4/C04"),
 "C05": ("model-based history generation (alias / copy / mutate / observe) against a reference heap model; building expressions evaluated repeatedly",
         "Exhaustive short histories over a few variables and containers plus random longer ones; every observation (print, ===, ==) must match the heap model; reports per wrong-semantics variant how many cases would expose it.", "4/C05"),
 "C06": ("exhaustive boundary grid + sweep of all small multipliers against partners at the limit + random pairs (64-bit, 32-bit magnitudes, random widths) against exact i128 arithmetic",
         "Every operator x boundary pair x plain/op-assign form, literals, ranges; the exact result or a diagnostic naming operands and operator. The grid is exhaustive over its values.", "4/C06"),
 "C07": ("exhaustive enumeration of control-flow nestings with jumps at every position + differential vs. reference interpreter",
         "All nestings of block / if / while / for / call to a depth bound with break / continue / return placed everywhere and traced; loop bodies that mutate the iterated container.", "4/C07"),
 "C08": ("round-trip print -> real parser -> compare trees; exhaustive operator sequences vs. tier table; evaluated flat chains of 3..64 operands against the left fold; exhaustive operator x left-operand kind x spacing product",
         "All operator sequences up to length 3 (4 thorough) over the 16 binary operators, random deep trees with minimal / full / redundant parentheses; the parsed tree must equal the written tree.", "4/C08"),
 "C09": ("metamorphic: one program under random layouts must behave identically; directional newline-vs-; matrix",
         "Five layouts per program (terminators, continuation breaks, comments, odd whitespace, CR LF, digit separators, \\xHH) must give the same stdout, status, message and mapped position; a line break after each token kind continues iff documented.", "4/C09"),
 "C10": ("exhaustive pairs/triples over a pool of nested values built along different histories, structural oracle in the harness; chains 100..400 deep and self-containing operands with computed answers",
         "All ordered pairs of the pool x {== != === !==}, transitivity triples, random deep pairs; values dumped before/after to show nothing mutated.", "4/C10"),
 "C11": ("exhaustive small sequences x all indices / bounds against the sequence laws + random read/write histories on lists of 0..300 followed on a Vec model (proptest)",
         "Every list/string up to the bound x every index and bound pair incl. omitted, reads and assignments, byte-wise strings; random histories of reads, element and range writes (from literals, range expressions, strings, own slices; ranges wider than 64) and appends on lists of up to 300 elements; the laws are written out in the harness.", "4/C11"),
 "C12": ("model-based histories over object keys against a map model + .k/[\"k\"] metamorphic rewriting",
         "Exhaustive short histories of insert / overwrite / op-assign / read / spread / iterate over a key alphabet, all insertion orders.", "4/C12"),
 "C13": ("exhaustive patterns x sources against binding semantics + round-trip laws evaluated in Seed + random pattern trees (proptest) + spread-beside-side-effect metamorphic pairs",
         "Patterns of depth <= 2 and width <= 4 against sources of size 0..5 in declaration / assignment / for / parameter position; random pattern trees up to 40 wide with repeated keys against fitting and one-off sources; spread/collect inverse laws; f(xs.., g()) against its written-out form when g mutates xs.", "4/C13"),
 "C14": ("model-based call/this histories against a provenance model",
         "Short histories of defining, attaching, reading, moving and calling functions; arities x rest x spread; argument evaluation traces.", "4/C14"),
 "C15": ("generated string literals: decode oracle + interpolation == concatenation metamorphic relation, also after similar literals were evaluated",
         "Literal text over ASCII / escapes / multi-byte characters, 0..3 slots at every position, slot expressions with braces and nested literals; lexical errors at the offending character.", "4/C15"),
 "C16": ("exhaustive finite matrix: operator x kind x kind and context x kind against the table in the property, out-of-domain cells again over look-alike values",
         "Complete: every cell of the matrix is executed; in-domain cells check the value, others the diagnostic naming operator and both types.", "4/C16"),
 "C17": ("failing programs by construction (fault x slot x call wrapper) + random failing programs; shape predicates on stderr; metamorphic pairs: the diagnostic does not depend on which literals were evaluated before",
         "Every error class raised at every syntactic slot and at call depth 0..5 through named / anonymous / method / callback / builtin calls and direct recursion; stdout up to the failure, exit 103, one located line, innermost function, one trace line per active call.", "4/C17"),
 "C18": ("failing programs with known offending token under random layouts (also inside interpolation slots, composed from the reported chain); in-process comparison of every token / tree position with the printer's record",
         "Exact line:col for the documented error kinds and trace lines under tabs, CR, comments, multi-byte and multi-line text; every lexer token start and every syntax-tree position of random programs.", "4/C18"),
 "C19": ("repeated runs under varied environment must be byte-identical and equal to the reference run's stdout; print vs. independent renderer over construction histories",
         "Programs with many-key objects and multi-error situations run several times under different cwd / env / locale / path spelling / stdin / stdout; nested values built along different histories print canonically.", "4/C19"),
 "C20": ("exhaustive event sequences over names and scopes + every non-bindable expression in every binding position, vs. reference",
         "All short sequences of declare / redeclare / assign / read / destructure / fn / block events over a few names; `_` in every target position; redeclaration must cite the earlier position.", "4/C20"),
}

DONE = ["C01","C02","C03","C04","C05","C06","C07","C08","C09","C10","C11","C12","C13","C14","C15","C16","C17","C18","C19","C20"]

checks = []
na = []
for pid, (tech, text, ref) in CHECKS.items():
    if pid in DONE:
        checks.append({
            "property_id": pid,
            "quick_cmd": f"./check {pid} quick",
            "thorough_cmd": f"./check {pid} thorough",
            "evidence_file": f"/verif/evidence/{pid}.json",
            "replay_cmd_template": f"./check {pid} --replay {{path}}",
            "engine": "vcheck",
            "level_claimed": {"category": "exploration", "text": text, "design_ref": f"DESIGN.md §{ref}"},
            "level_note": "Trusted: the harness's own oracle for this property (see DESIGN.md §2.4), the printer's position record, and that the dev-profile binary built from /repo's working tree is what users run. Generated search never establishes absence; parts marked exhaustive are exhaustive to the stated bound.",
            "technique": tech,
        })
    else:
        na.append({"property_id": pid, "reason": "check under construction in this session (generator and oracle designed in DESIGN.md, not yet registered)"})

m = {
    "version": 1,
    "setup_cmd": "sh /verif/setup.sh",
    "hooks": {
        "guard": "none",
        "enable": "n/a - no source hooks: the harness compiles /repo/src into its in-process worker via include! (harness/seedlink) and otherwise observes the real binary",
        "baseline_off_cmd": "cd /repo && cargo test --workspace --no-fail-fast --offline",
        "source_commits": [],
        "add_only": True,
    },
    "engines": [
        {"name": "vcheck", "path": "/verif/harness/vcheck", "serves_properties": sorted(DONE), "kind_free_text": "property-based testing / fuzzing harness: proptest-driven tape decoders, exhaustive small-scope enumerators, reference interpreter (harness/sdmodel), CLI and in-process back-ends"},
    ],
    "checks": checks,
    "notes": "All checks: exit 0 = held on everything explored, 1 = VIOLATION line(s), 2 = harness could not run. VERIF_SEED selects the PRNG seed, VERIF_SCALE scales the work. Known findings: /verif/known_findings.jsonl (all ten genuine defects found were repaired by fix: commits in /repo).",
    "not_applicable": na,
}
json.dump(m, open("/verif/MANIFEST.json", "w"), indent=1)
print(len(checks), "checks,", len(na), "not applicable")
