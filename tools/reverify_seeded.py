#!/usr/bin/env python3
# Re-confirms stored seeded changes against the current HEAD of /repo in a
# scratch worktree (never in /repo): patch applies, whole test suite passes,
# demo.sd behaves differently with the change than without it.
# usage: reverify_seeded.py <id> [<id> ...]   (ids are directory names under /verif/seeded)
import json, os, subprocess, sys
WT = "/tmp/seed-mut"
ENV = dict(os.environ, CARGO_NET_OFFLINE="true", RUST_BACKTRACE="0")
def sh(cmd, **kw): return subprocess.run(cmd, capture_output=True, text=True, env=ENV, **kw)
if not os.path.isdir(WT):
    assert sh(["git", "-C", "/repo", "worktree", "add", "--detach", WT, "HEAD"]).returncode == 0
head = sh(["git", "-C", "/repo", "rev-parse", "--short", "HEAD"]).stdout.strip()
sh(["git", "checkout", "-q", "--detach", head], cwd=WT)
clean_bin = "/repo/target/debug/seed"
assert sh(["cargo", "build", "--offline"], cwd="/repo").returncode == 0
def demo(binary, d):
    r = subprocess.run([binary, "demo.sd"], cwd=d, capture_output=True, env={"RUST_BACKTRACE": "0"}, timeout=60)
    return (r.returncode, r.stdout, r.stderr)
ok = True
for m in sys.argv[1:]:
    d = f"/verif/seeded/{m}"
    sh(["git", "reset", "-q", "--hard"], cwd=WT)
    if sh(["git", "apply", f"{d}/patch.diff"], cwd=WT).returncode != 0:
        print(m, "patch does not apply"); ok = False; continue
    r = subprocess.run("cargo test --workspace --no-fail-fast --offline 2>&1 | grep -E '^test result'", shell=True, cwd=WT, capture_output=True, text=True, env=ENV)
    lines = r.stdout.strip().splitlines()
    passed = sum(int(l.split(" passed")[0].split()[-1]) for l in lines)
    failed = sum(int(l.split(" failed")[0].split()[-1]) for l in lines)
    if passed != 339 or failed != 0:
        print(m, f"tests: {passed} passed {failed} failed"); ok = False; continue
    c, mu = demo(clean_bin, d), demo(f"{WT}/target/debug/seed", d)
    if c == mu:
        print(m, "demo does not distinguish"); ok = False; continue
    open(f"{d}/demo.clean_stdout", "wb").write(c[1]); open(f"{d}/demo.mutant_stdout", "wb").write(mu[1]); open(f"{d}/demo.mutant_stderr", "wb").write(mu[2])
    meta = json.load(open(f"{d}/meta.json"))
    meta["rebased"] = f"patch re-based onto {head} (after fix ecf1395 changed the code around it) and re-confirmed by tools/reverify_seeded.py: " + "; ".join(lines) + f"; demo exits {c[0]} clean / {mu[0]} changed, outputs differ"
    meta["clean_exit"], meta["mutant_exit"] = c[0], mu[0]
    json.dump(meta, open(f"{d}/meta.json", "w"), indent=1, ensure_ascii=False)
    print(m, "confirmed")
sh(["git", "reset", "-q", "--hard"], cwd=WT)
sys.exit(0 if ok else 1)
