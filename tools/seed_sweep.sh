#!/bin/sh
# tools/seed_sweep.sh <seed> [<seed> ...]: runs every quick check on /repo under
# each seed and prints only what is not a clean pass. Evidence files are saved
# and restored so that the committed evidence stays the one of the default run.
mkdir -p /tmp/ev-keep && cp /verif/evidence/*.json /tmp/ev-keep/
for seed in "$@"; do
    bad=""
    for i in 01 02 03 04 05 06 07 08 09 10 11 12 13 14 15 16 17 18 19 20; do
        out=$(cd /verif && VERIF_SEED=$seed ./check C$i quick 2>&1)
        code=$?
        if [ $code -ne 0 ]; then
            bad="$bad C$i(exit $code)"
            echo "$out" | grep -E "VIOLATION|harness fault|^--- violation" | head -5
        fi
    done
    echo "seed $seed:${bad:- all 20 silent}"
done
cp /tmp/ev-keep/*.json /verif/evidence/
