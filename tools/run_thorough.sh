#!/bin/sh
# Runs every thorough tier once on /repo, one after the other, and prints one
# summary line per check (evidence files are left as written by these runs).
for i in 01 02 03 04 05 06 07 08 09 10 11 12 13 14 15 16 17 18 19 20; do
    start=$(date +%s)
    out=$(cd /verif && ./check C$i thorough 2>&1)
    code=$?
    end=$(date +%s)
    echo "C$i exit=$code wall=$((end-start))s $(echo "$out" | grep -E 'thorough:|VIOLATION|harness fault' | tr '\n' ' ')"
done
