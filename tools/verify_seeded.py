#!/usr/bin/env python3
# Confirms every seeded change delivered by a sub-agent in a scratch worktree
# (never in /repo): the patch applies to a clean tree, builds, passes the whole
# existing test suite, and its demonstration behaves differently with the
# change than without it. Confirmed ones are copied to /verif/seeded/<id>/.
import json, os, shutil, subprocess, sys
from concurrent.futures import ThreadPoolExecutor

SRC = os.environ.get("SEEDED_SRC", "/tmp/seedwt/out")
PREFIX = os.environ.get("SEEDED_PREFIX", "")
DST = "/verif/seeded"
CLEAN_BIN = "/verif/.cache/cli-target/debug/seed"
ENV = dict(os.environ, CARGO_NET_OFFLINE="true", RUST_BACKTRACE="0")

def sh(cmd, cwd=None, timeout=1800):
    return subprocess.run(cmd, cwd=cwd, env=ENV, capture_output=True, text=True, timeout=timeout, shell=isinstance(cmd, str))

def run_demo(binary, demo_dir):
    r = subprocess.run([binary, "demo.sd"], cwd=demo_dir, capture_output=True, env={"RUST_BACKTRACE": "0"}, timeout=60)
    return r.returncode, r.stdout, r.stderr

def work(job):
    slot, items = job
    wt = f"/tmp/seed-mc{slot}"
    if not os.path.isdir(wt):
        r = sh(["git", "-C", "/repo", "worktree", "add", "--detach", wt, "HEAD"])
        assert r.returncode == 0, r.stderr
    results = []
    for pid, mut in items:
        d = f"{SRC}/{pid}/{mut}"
        res = {"id": f"{PREFIX}{pid}-{mut}", "property": pid}
        try:
            sh(["git", "checkout", "--", "."], cwd=wt)
            sh(["git", "clean", "-fdq", "--", "src", "tests"], cwd=wt)
            r = sh(["git", "apply", f"{d}/patch.diff"], cwd=wt)
            if r.returncode != 0:
                res["status"] = "patch does not apply: " + r.stderr[-300:]
                results.append(res); continue
            r = sh("cargo test --workspace --no-fail-fast --offline 2>&1 | grep -E '^test result|error(\\[|:)' ", cwd=wt)
            lines = [l for l in r.stdout.splitlines() if l.startswith("test result")]
            res["tests"] = lines
            passed = sum(int(l.split(" passed")[0].split()[-1]) for l in lines) if lines else 0
            failed = sum(int(l.split(" failed")[0].split()[-1]) for l in lines) if lines else -1
            if passed != 339 or failed != 0:
                res["status"] = f"test suite: {passed} passed, {failed} failed: {r.stdout[-400:]}"
                results.append(res); continue
            mutbin = f"{wt}/target/debug/seed"
            c = run_demo(CLEAN_BIN, d)
            m = run_demo(mutbin, d)
            m2 = run_demo(mutbin, d)
            res["clean"] = {"exit": c[0], "stdout": c[1].decode("utf8", "replace")[:2000], "stderr": c[2].decode("utf8", "replace")[:600]}
            res["mutant"] = {"exit": m[0], "stdout": m[1].decode("utf8", "replace")[:2000], "stderr": m[2].decode("utf8", "replace")[:600]}
            differs = (c[0], c[1], c[2]) != (m[0], m[1], m[2]) or (m != m2)
            exp = None
            for name in ("demo.expected_stdout",):
                p = f"{d}/{name}"
                if os.path.exists(p):
                    exp = open(p, "rb").read()
            res["clean_matches_recorded"] = (exp is None) or (exp == c[1])
            if not differs:
                res["status"] = "demo does not distinguish the change"
                results.append(res); continue
            res["status"] = "confirmed"
            out = f"{DST}/{PREFIX}{pid}-{mut}"
            os.makedirs(out, exist_ok=True)
            shutil.copy(f"{d}/patch.diff", f"{out}/patch.diff")
            shutil.copy(f"{d}/demo.sd", f"{out}/demo.sd")
            open(f"{out}/demo.clean_stdout", "wb").write(c[1])
            open(f"{out}/demo.mutant_stdout", "wb").write(m[1])
            open(f"{out}/demo.mutant_stderr", "wb").write(m[2])
            meta = {}
            try:
                meta = json.load(open(f"{d}/meta.json"))
            except Exception:
                pass
            meta_out = {
                "property": pid,
                "mutant": mut,
                "round": PREFIX.rstrip("-") or "r1",
                "summary": meta.get("summary", ""),
                "needs": meta.get("needs", ""),
                "files_changed": meta.get("files_changed", []),
                "confirmed_by": "tools/verify_seeded.py in a scratch worktree outside /repo: git apply on a clean tree; cargo test --workspace --no-fail-fast --offline -> " + "; ".join(lines) + f"; demo.sd under the clean binary exits {c[0]}, under the changed binary exits {m[0]}; stdout/stderr/exit differ" + ("" if m == m2 else " (and the changed binary is non-deterministic between runs)"),
                "clean_exit": c[0], "mutant_exit": m[0],
            }
            json.dump(meta_out, open(f"{out}/meta.json", "w"), indent=1, ensure_ascii=False)
        except Exception as e:
            res["status"] = f"exception: {e}"
        results.append(res)
    sh(["git", "checkout", "--", "."], cwd=wt)
    return results

def main():
    items = []
    for pid in sorted(os.listdir(SRC)):
        for mut in ("a", "b"):
            if os.path.exists(f"{SRC}/{pid}/{mut}/patch.diff"):
                items.append((pid, mut))
    nslots = 4
    jobs = [(s, items[s::nslots]) for s in range(nslots)]
    allres = []
    with ThreadPoolExecutor(nslots) as ex:
        for rs in ex.map(work, jobs):
            allres.extend(rs)
    allres.sort(key=lambda r: r["id"])
    json.dump(allres, open(f"/verif/seeded/verification{PREFIX.rstrip('-')}.json", "w"), indent=1, ensure_ascii=False)
    for r in allres:
        print(r["id"], r["status"])
    for s in range(nslots):
        wt = f"/tmp/seed-mc{s}"
        subprocess.run(["git", "-C", "/repo", "worktree", "remove", "--force", wt])

if __name__ == "__main__":
    os.makedirs(DST, exist_ok=True)
    main()
