// A reader of Rust `Debug` output into a generic tree, and the image of the
// model AST in the same generic form (using the node and field names the
// repository's syntax tree prints). Trees from the real parser are compared
// with this image structurally; nothing here depends on the repository's
// types at compile time.

use crate::ast::*;
use crate::print::print_expr_canonical;
use crate::print::Printed;

#[derive(Clone, Debug, PartialEq, Eq)]
pub enum D {
    // `Name`, `Name(..)` or `Name { f: v, .. }`; tuple fields have no name.
    Node(String, Vec<(Option<String>, D)>),
    Tuple(Vec<D>),
    List(Vec<D>),
    Str(String),
    Int(i128),
    Any,
}

pub fn parse_debug(s: &str) -> Result<D, String> {
    let chars: Vec<char> = s.chars().collect();
    let mut p = P{c: &chars, i: 0};
    let d = p.value()?;
    p.ws();
    if p.i != chars.len() {
        return Err(format!("trailing input at {}", p.i));
    }
    Ok(d)
}

struct P<'a> {
    c: &'a [char],
    i: usize,
}

impl P<'_> {
    fn ws(&mut self) {
        while self.i < self.c.len() && self.c[self.i].is_whitespace() {
            self.i += 1;
        }
    }

    fn peek(&self) -> Option<char> { self.c.get(self.i).copied() }

    fn eat(&mut self, ch: char) -> Result<(), String> {
        self.ws();
        if self.peek() == Some(ch) {
            self.i += 1;
            Ok(())
        } else {
            Err(format!("expected '{ch}' at {}, got {:?}", self.i, self.peek()))
        }
    }

    fn value(&mut self) -> Result<D, String> {
        self.ws();
        match self.peek() {
            None => Err("unexpected end".to_string()),
            Some('"') => Ok(D::Str(self.string()?)),
            Some('\'') => {
                // char literal
                self.i += 1;
                let mut s = String::new();
                while let Some(c) = self.peek() {
                    if c == '\\' {
                        s.push(self.escape()?);
                        continue;
                    }
                    self.i += 1;
                    if c == '\'' {
                        break;
                    }
                    s.push(c);
                }
                Ok(D::Str(s))
            },
            Some('(') => {
                self.i += 1;
                let items = self.seq(')')?;
                Ok(D::Tuple(items))
            },
            Some('[') => {
                self.i += 1;
                let items = self.seq(']')?;
                Ok(D::List(items))
            },
            Some(c) if c == '-' || c.is_ascii_digit() => {
                let start = self.i;
                self.i += 1;
                while let Some(c) = self.peek() {
                    if c.is_ascii_digit() { self.i += 1; } else { break; }
                }
                let t: String = self.c[start..self.i].iter().collect();
                t.parse::<i128>().map(D::Int).map_err(|e| format!("bad int {t}: {e}"))
            },
            Some(c) if c.is_alphabetic() || c == '_' => {
                let start = self.i;
                while let Some(c) = self.peek() {
                    if c.is_alphanumeric() || c == '_' { self.i += 1; } else { break; }
                }
                let name: String = self.c[start..self.i].iter().collect();
                self.ws();
                match self.peek() {
                    Some('(') => {
                        self.i += 1;
                        let items = self.seq(')')?;
                        Ok(D::Node(name, items.into_iter().map(|d| (None, d)).collect()))
                    },
                    Some('{') => {
                        self.i += 1;
                        let mut fields = vec![];
                        loop {
                            self.ws();
                            if self.peek() == Some('}') {
                                self.i += 1;
                                break;
                            }
                            let fs = self.i;
                            while let Some(c) = self.peek() {
                                if c.is_alphanumeric() || c == '_' { self.i += 1; } else { break; }
                            }
                            let f: String = self.c[fs..self.i].iter().collect();
                            if f.is_empty() {
                                return Err(format!("expected field name at {}", self.i));
                            }
                            self.eat(':')?;
                            let v = self.value()?;
                            fields.push((Some(f), v));
                            self.ws();
                            if self.peek() == Some(',') {
                                self.i += 1;
                            }
                        }
                        Ok(D::Node(name, fields))
                    },
                    _ => Ok(D::Node(name, vec![])),
                }
            },
            Some(c) => Err(format!("unexpected '{c}' at {}", self.i)),
        }
    }

    fn seq(&mut self, close: char) -> Result<Vec<D>, String> {
        let mut items = vec![];
        loop {
            self.ws();
            if self.peek() == Some(close) {
                self.i += 1;
                return Ok(items);
            }
            items.push(self.value()?);
            self.ws();
            if self.peek() == Some(',') {
                self.i += 1;
            }
        }
    }

    fn escape(&mut self) -> Result<char, String> {
        // at a backslash
        self.i += 1;
        let c = self.peek().ok_or("bad escape")?;
        self.i += 1;
        Ok(match c {
            'n' => '\n', 'r' => '\r', 't' => '\t', '0' => '\0',
            '\\' => '\\', '"' => '"', '\'' => '\'',
            'u' => {
                self.eat('{')?;
                let start = self.i;
                while self.peek().map(|c| c != '}').unwrap_or(false) {
                    self.i += 1;
                }
                let h: String = self.c[start..self.i].iter().collect();
                self.eat('}')?;
                let n = u32::from_str_radix(&h, 16).map_err(|e| e.to_string())?;
                char::from_u32(n).ok_or("bad scalar")?
            },
            'x' => {
                let h: String = self.c[self.i..self.i + 2].iter().collect();
                self.i += 2;
                u8::from_str_radix(&h, 16).map_err(|e| e.to_string())? as char
            },
            other => return Err(format!("unknown escape \\{other}")),
        })
    }

    fn string(&mut self) -> Result<String, String> {
        self.i += 1;
        let mut s = String::new();
        loop {
            match self.peek() {
                None => return Err("unterminated string".to_string()),
                Some('"') => {
                    self.i += 1;
                    return Ok(s);
                },
                Some('\\') => s.push(self.escape()?),
                Some(c) => {
                    self.i += 1;
                    s.push(c);
                },
            }
        }
    }
}

// Replaces every `(int, int)` pair by `Any` so that trees can be compared up
// to positions.
pub fn strip_locs(d: &D) -> D {
    match d {
        D::Tuple(v) if v.len() == 2 && matches!((&v[0], &v[1]), (D::Int(_), D::Int(_))) => D::Any,
        D::Tuple(v) => D::Tuple(v.iter().map(strip_locs).collect()),
        D::List(v) => D::List(v.iter().map(strip_locs).collect()),
        D::Node(n, f) => D::Node(n.clone(), f.iter().map(|(k, v)| (k.clone(), strip_locs(v))).collect()),
        other => other.clone(),
    }
}

// First difference between two trees as a path, for reports.
pub fn first_diff(a: &D, b: &D, path: &str) -> Option<String> {
    match (a, b) {
        (D::Any, _) | (_, D::Any) => None,
        (D::Node(n1, f1), D::Node(n2, f2)) => {
            if n1 != n2 {
                return Some(format!("{path}: node {n1} vs {n2}"));
            }
            if f1.len() != f2.len() {
                return Some(format!("{path}/{n1}: {} vs {} fields", f1.len(), f2.len()));
            }
            for ((k1, v1), (k2, v2)) in f1.iter().zip(f2.iter()) {
                if k1 != k2 {
                    return Some(format!("{path}/{n1}: field {k1:?} vs {k2:?}"));
                }
                let seg = k1.clone().unwrap_or_else(|| "_".to_string());
                if let Some(d) = first_diff(v1, v2, &format!("{path}/{n1}.{seg}")) {
                    return Some(d);
                }
            }
            None
        },
        // An interpolation slot written with its location against one parsed
        // by a tree that does not record it yet.
        (D::Tuple(v1), D::Tuple(v2)) if v1.len() == 3 && v2.len() == 2 && matches!((&v1[0], &v1[1], &v2[0], &v2[1]), (D::Int(_), D::Int(_), D::Int(_), D::Int(_))) => {
            if v1[0] == v2[0] && v1[1] == v2[1] { None } else { Some(format!("{path}: {v1:?} vs {v2:?}")) }
        },
        (D::Tuple(v1), D::Tuple(v2)) | (D::List(v1), D::List(v2)) => {
            if v1.len() != v2.len() {
                return Some(format!("{path}: length {} vs {}", v1.len(), v2.len()));
            }
            for (i, (x, y)) in v1.iter().zip(v2.iter()).enumerate() {
                if let Some(d) = first_diff(x, y, &format!("{path}[{i}]")) {
                    return Some(d);
                }
            }
            None
        },
        (x, y) => if x == y { None } else { Some(format!("{path}: {x:?} vs {y:?}")) },
    }
}

// ------------------------------------------------- image of the model AST

fn node(name: &str, fields: Vec<(&str, D)>) -> D {
    D::Node(name.to_string(), fields.into_iter().map(|(k, v)| (Some(k.to_string()), v)).collect())
}
fn unit(name: &str) -> D { D::Node(name.to_string(), vec![]) }
fn boolean(b: bool) -> D { unit(if b { "true" } else { "false" }) }
fn some(d: D) -> D { D::Node("Some".to_string(), vec![(None, d)]) }
fn none() -> D { unit("None") }

pub struct Image<'a> {
    pub printed: Option<&'a Printed>,
    pub n_ids: usize,
}

impl Image<'_> {
    fn first(&self, id: Id) -> D {
        match self.printed {
            Some(p) => match p.first[id as usize] {
                Some(pos) => D::Tuple(vec![D::Int(pos.line as i128), D::Int(pos.col as i128)]),
                None => D::Any,
            },
            None => D::Any,
        }
    }
    fn op(&self, id: Id) -> D {
        match self.printed {
            Some(p) => match p.op[id as usize] {
                Some(pos) => D::Tuple(vec![D::Int(pos.line as i128), D::Int(pos.col as i128)]),
                None => D::Any,
            },
            None => D::Any,
        }
    }

    pub fn prog(&self, p: &Prog) -> D {
        node("Body", vec![("stmts", self.block(&p.stmts))])
    }

    fn block(&self, b: &[Stmt]) -> D { D::List(b.iter().map(|s| self.stmt(s)).collect()) }

    pub fn stmt(&self, s: &Stmt) -> D {
        match &s.k {
            SK::Block(b) => node("Block", vec![("block", self.block(b))]),
            SK::Expr(e) => node("Expr", vec![("expr", self.expr(e))]),
            SK::Declare(l, r) => node("Declare", vec![("lhs", self.expr(l)), ("rhs", self.expr(r))]),
            SK::Assign(l, r) => node("Assign", vec![("lhs", self.expr(l)), ("rhs", self.expr(r))]),
            SK::OpAssign(l, op, r) => node("OpAssign", vec![
                ("lhs", self.expr(l)), ("op", unit(op.dbg_name())), ("op_loc", self.op(s.id)), ("rhs", self.expr(r)),
            ]),
            SK::If(branches, els) => node("If", vec![
                ("branches", D::List(branches.iter().map(|(c, b)| node("Branch", vec![("cond", self.expr(c)), ("stmts", self.block(b))])).collect())),
                ("else_stmts", match els { Some(b) => some(self.block(b)), None => none() }),
            ]),
            SK::While(c, b) => node("While", vec![("cond", self.expr(c)), ("stmts", self.block(b))]),
            SK::For(t, it, b) => node("For", vec![("lhs", self.expr(t)), ("iter", self.expr(it)), ("stmts", self.block(b))]),
            SK::Break => node("Break", vec![("loc", self.op(s.id))]),
            SK::Continue => node("Continue", vec![("loc", self.op(s.id))]),
            SK::FuncDecl(name, params, collect, body) => node("Func", vec![
                ("name", D::Tuple(vec![D::Str(name.clone()), self.op(s.id)])),
                ("args", D::List(params.iter().map(|p| self.expr(p)).collect())),
                ("collect_args", boolean(*collect)),
                ("stmts", self.block(body)),
            ]),
            SK::Return(e) => node("Return", vec![("loc", self.op(s.id)), ("expr", self.expr(e))]),
        }
    }

    pub fn expr(&self, e: &Expr) -> D {
        D::Tuple(vec![self.raw(e), self.first(e.id)])
    }

    fn bexpr(&self, e: &Expr) -> D { self.expr(e) }

    fn items(&self, items: &[Item]) -> D {
        D::List(items.iter().map(|it| node("ListItem", vec![("expr", self.expr(&it.e)), ("is_spread", boolean(it.spread))])).collect())
    }

    fn raw(&self, e: &Expr) -> D {
        match &e.k {
            EK::Null => unit("Null"),
            EK::Bool(b) => node("Bool", vec![("b", boolean(*b))]),
            EK::Int{v, ..} => node("Int", vec![("n", D::Int(*v as i128))]),
            EK::Str(t) => node("Str", vec![
                ("s", D::Str(t.iter().map(|(c, _)| *c).collect())),
                ("interpolation_slots", none()),
            ]),
            EK::Interp(parts) => {
                // Slot boundaries are byte offsets into the decoded text.
                let mut s = String::new();
                let mut slots = vec![];
                for p in parts {
                    match p {
                        StrPart::Text(t) => {
                            for (c, _) in t {
                                s.push(*c);
                            }
                        },
                        StrPart::Slot(se) => {
                            let sub = print_expr_canonical(se, self.n_ids);
                            let text = format!("${{{}}}", sub.src);
                            let start = s.len();
                            s.push_str(&text);
                            // (start, end, source location of the slot's expression)
                            slots.push(D::Tuple(vec![D::Int(start as i128), D::Int(s.len() as i128), self.first(se.id)]));
                        },
                    }
                }
                node("Str", vec![("s", D::Str(s)), ("interpolation_slots", some(D::List(slots)))])
            },
            EK::Var(n) => node("Var", vec![("name", D::Str(n.clone()))]),
            EK::Bin(op, l, r) => node("BinaryOp", vec![
                ("op", unit(op.dbg_name())), ("op_loc", self.op(e.id)),
                ("lhs", self.bexpr(l)), ("rhs", self.bexpr(r)),
            ]),
            EK::Range(a, b) => node("Range", vec![("start", self.bexpr(a)), ("end", self.bexpr(b))]),
            EK::List(items, collect) => node("List", vec![("items", self.items(items)), ("collect", boolean(*collect))]),
            EK::Obj(props) => node("Object", vec![("props", D::List(props.iter().map(|p| match p {
                Prop::Pair(k, v) => node("Pair", vec![("name", self.expr(k)), ("value", self.expr(v))]),
                Prop::Single{e, spread, collect} => node("Single", vec![
                    ("expr", self.expr(e)), ("is_spread", boolean(*spread)), ("collect", boolean(*collect)),
                ]),
            }).collect()))]),
            EK::Index(s, i) => node("Index", vec![("expr", self.bexpr(s)), ("location", self.bexpr(i))]),
            EK::RangeIndex(s, a, b) => node("RangeIndex", vec![
                ("expr", self.bexpr(s)),
                ("start", match a { Some(a) => some(self.bexpr(a)), None => none() }),
                ("end", match b { Some(b) => some(self.bexpr(b)), None => none() }),
            ]),
            EK::Prop(s, name, tp) => node("Prop", vec![
                ("expr", self.bexpr(s)), ("name", D::Str(name.clone())), ("type_prop", boolean(*tp)),
            ]),
            EK::Func(params, collect, body) => node("Func", vec![
                ("args", D::List(params.iter().map(|p| self.expr(p)).collect())),
                ("collect_args", boolean(*collect)),
                ("stmts", self.block(body)),
            ]),
            EK::Call(f, args) => node("Call", vec![("func", self.bexpr(f)), ("args", self.items(args))]),
        }
    }
}

// --------------------------------------- real tree -> model AST (by names)

pub type SlotParser<'a> = &'a mut dyn FnMut(&str) -> Option<D>;

fn field<'d>(f: &'d [(Option<String>, D)], name: &str) -> Result<&'d D, String> {
    f.iter().find(|(k, _)| k.as_deref() == Some(name)).map(|(_, v)| v).ok_or_else(|| format!("missing field {name}"))
}

fn as_bool(d: &D) -> Result<bool, String> {
    match d {
        D::Node(n, f) if f.is_empty() && n == "true" => Ok(true),
        D::Node(n, f) if f.is_empty() && n == "false" => Ok(false),
        other => Err(format!("expected bool, got {other:?}")),
    }
}

fn as_str(d: &D) -> Result<String, String> {
    match d { D::Str(s) => Ok(s.clone()), other => Err(format!("expected string, got {other:?}")) }
}

fn as_list(d: &D) -> Result<&Vec<D>, String> {
    match d { D::List(v) => Ok(v), other => Err(format!("expected list, got {other:?}")) }
}

fn as_opt(d: &D) -> Result<Option<&D>, String> {
    match d {
        D::Node(n, f) if n == "None" && f.is_empty() => Ok(None),
        D::Node(n, f) if n == "Some" && f.len() == 1 => Ok(Some(&f[0].1)),
        other => Err(format!("expected Option, got {other:?}")),
    }
}

fn op_from(d: &D) -> Result<Op, String> {
    match d {
        D::Node(n, _) => ALL_OPS.iter().copied().find(|o| o.dbg_name() == n).ok_or_else(|| format!("unknown op {n}")),
        other => Err(format!("expected op, got {other:?}")),
    }
}

pub fn prog_from_debug(d: &D, sp: SlotParser) -> Result<Prog, String> {
    match d {
        D::Node(n, f) if n == "Body" => {
            let stmts = block_from(field(f, "stmts")?, sp)?;
            Ok(Prog::new(stmts))
        },
        other => Err(format!("expected Body, got {other:?}")),
    }
}

fn block_from(d: &D, sp: SlotParser) -> Result<Vec<Stmt>, String> {
    as_list(d)?.iter().map(|s| stmt_from(s, sp)).collect()
}

fn stmt_from(d: &D, sp: SlotParser) -> Result<Stmt, String> {
    let (n, f) = match d { D::Node(n, f) => (n.as_str(), f), other => return Err(format!("expected stmt, got {other:?}")) };
    let k = match n {
        "Block" => SK::Block(block_from(field(f, "block")?, sp)?),
        "Expr" => SK::Expr(expr_from(field(f, "expr")?, sp)?),
        "Declare" => SK::Declare(expr_from(field(f, "lhs")?, sp)?, expr_from(field(f, "rhs")?, sp)?),
        "Assign" => SK::Assign(expr_from(field(f, "lhs")?, sp)?, expr_from(field(f, "rhs")?, sp)?),
        "OpAssign" => SK::OpAssign(expr_from(field(f, "lhs")?, sp)?, op_from(field(f, "op")?)?, expr_from(field(f, "rhs")?, sp)?),
        "If" => {
            let mut branches = vec![];
            for b in as_list(field(f, "branches")?)? {
                match b {
                    D::Node(_, bf) => branches.push((expr_from(field(bf, "cond")?, sp)?, block_from(field(bf, "stmts")?, sp)?)),
                    other => return Err(format!("expected Branch, got {other:?}")),
                }
            }
            let els = match as_opt(field(f, "else_stmts")?)? { Some(b) => Some(block_from(b, sp)?), None => None };
            SK::If(branches, els)
        },
        "While" => SK::While(expr_from(field(f, "cond")?, sp)?, block_from(field(f, "stmts")?, sp)?),
        "For" => SK::For(expr_from(field(f, "lhs")?, sp)?, expr_from(field(f, "iter")?, sp)?, block_from(field(f, "stmts")?, sp)?),
        "Break" => SK::Break,
        "Continue" => SK::Continue,
        "Func" => {
            let name = match field(f, "name")? { D::Tuple(v) if !v.is_empty() => as_str(&v[0])?, other => return Err(format!("bad fn name {other:?}")) };
            let params = as_list(field(f, "args")?)?.iter().map(|p| expr_from(p, sp)).collect::<Result<Vec<_>, _>>()?;
            SK::FuncDecl(name, params, as_bool(field(f, "collect_args")?)?, block_from(field(f, "stmts")?, sp)?)
        },
        "Return" => SK::Return(expr_from(field(f, "expr")?, sp)?),
        other => return Err(format!("unknown stmt {other}")),
    };
    Ok(st(k))
}

fn items_from(d: &D, sp: SlotParser) -> Result<Vec<Item>, String> {
    let mut out = vec![];
    for it in as_list(d)? {
        match it {
            D::Node(_, f) => out.push(Item{e: expr_from(field(f, "expr")?, sp)?, spread: as_bool(field(f, "is_spread")?)?}),
            other => return Err(format!("expected ListItem, got {other:?}")),
        }
    }
    Ok(out)
}

pub fn expr_from(d: &D, sp: SlotParser) -> Result<Expr, String> {
    let raw = match d {
        D::Tuple(v) if v.len() == 2 => &v[0],
        // The expression parser returns a bare (RawExpr, loc) tuple too.
        other => return Err(format!("expected (RawExpr, loc), got {other:?}")),
    };
    let (n, f) = match raw { D::Node(n, f) => (n.as_str(), f), other => return Err(format!("expected RawExpr, got {other:?}")) };
    let bx = |d: &D, sp: SlotParser| -> Result<Box<Expr>, String> { Ok(Box::new(expr_from(d, sp)?)) };
    let k = match n {
        "Null" => EK::Null,
        "Bool" => EK::Bool(as_bool(field(f, "b")?)?),
        "Int" => match field(f, "n")? { D::Int(v) => EK::Int{v: *v as i64, text: None}, other => return Err(format!("bad int {other:?}")) },
        "Str" => {
            let s = as_str(field(f, "s")?)?;
            match as_opt(field(f, "interpolation_slots")?)? {
                None => EK::Str(s.chars().map(|c| (c, natural_spell(c))).collect()),
                Some(slots) => {
                    let chars: Vec<char> = s.chars().collect();
                    // Byte offsets -> character offsets.
                    let mut byte_to_char = std::collections::BTreeMap::new();
                    {
                        let mut b = 0usize;
                        for (i, c) in chars.iter().enumerate() {
                            byte_to_char.insert(b, i);
                            b += c.len_utf8();
                        }
                        byte_to_char.insert(b, chars.len());
                    }
                    let mut parts = vec![];
                    let mut last = 0usize;
                    for sl in as_list(slots)? {
                        let (a, b) = match sl {
                            D::Tuple(v) if v.len() == 2 || v.len() == 3 => match (&v[0], &v[1]) {
                                (D::Int(a), D::Int(b)) => (*a as usize, *b as usize),
                                _ => return Err("bad slot".to_string()),
                            },
                            _ => return Err("bad slot".to_string()),
                        };
                        let (a, b) = match (byte_to_char.get(&a), byte_to_char.get(&b)) {
                            (Some(a), Some(b)) => (*a, *b),
                            _ => return Err("slot not on a character boundary".to_string()),
                        };
                        if a < last || b > chars.len() || a + 3 > b {
                            return Err("slot out of range".to_string());
                        }
                        parts.push(StrPart::Text(chars[last..a].iter().map(|c| (*c, natural_spell(*c))).collect()));
                        let src: String = chars[a + 2..b - 1].iter().collect();
                        let sd = sp(&src).ok_or_else(|| format!("slot does not parse: {src}"))?;
                        parts.push(StrPart::Slot(Box::new(expr_from(&sd, sp)?)));
                        last = b;
                    }
                    parts.push(StrPart::Text(chars[last..].iter().map(|c| (*c, natural_spell(*c))).collect()));
                    EK::Interp(parts)
                },
            }
        },
        "Var" => EK::Var(as_str(field(f, "name")?)?),
        "BinaryOp" => EK::Bin(op_from(field(f, "op")?)?, bx(field(f, "lhs")?, sp)?, bx(field(f, "rhs")?, sp)?),
        "Range" => EK::Range(bx(field(f, "start")?, sp)?, bx(field(f, "end")?, sp)?),
        "List" => EK::List(items_from(field(f, "items")?, sp)?, as_bool(field(f, "collect")?)?),
        "Object" => {
            let mut props = vec![];
            for p in as_list(field(f, "props")?)? {
                match p {
                    D::Node(pn, pf) if pn == "Pair" => props.push(Prop::Pair(expr_from(field(pf, "name")?, sp)?, expr_from(field(pf, "value")?, sp)?)),
                    D::Node(pn, pf) if pn == "Single" => props.push(Prop::Single{
                        e: expr_from(field(pf, "expr")?, sp)?,
                        spread: as_bool(field(pf, "is_spread")?)?,
                        collect: as_bool(field(pf, "collect")?)?,
                    }),
                    other => return Err(format!("bad prop {other:?}")),
                }
            }
            EK::Obj(props)
        },
        "Index" => EK::Index(bx(field(f, "expr")?, sp)?, bx(field(f, "location")?, sp)?),
        "RangeIndex" => EK::RangeIndex(
            bx(field(f, "expr")?, sp)?,
            match as_opt(field(f, "start")?)? { Some(a) => Some(bx(a, sp)?), None => None },
            match as_opt(field(f, "end")?)? { Some(a) => Some(bx(a, sp)?), None => None },
        ),
        "Prop" => EK::Prop(bx(field(f, "expr")?, sp)?, as_str(field(f, "name")?)?, as_bool(field(f, "type_prop")?)?),
        "Func" => EK::Func(
            as_list(field(f, "args")?)?.iter().map(|p| expr_from(p, sp)).collect::<Result<Vec<_>, _>>()?,
            as_bool(field(f, "collect_args")?)?,
            block_from(field(f, "stmts")?, sp)?,
        ),
        "Call" => EK::Call(bx(field(f, "func")?, sp)?, items_from(field(f, "args")?, sp)?),
        other => return Err(format!("unknown expr {other}")),
    };
    Ok(ex(k))
}

// Renders a generic tree in the syntax `parse_debug` reads (Any -> (0, 0)).
pub fn fmt_d(d: &D) -> String {
    match d {
        D::Any => "(0, 0)".to_string(),
        D::Int(n) => n.to_string(),
        D::Str(s) => format!("{s:?}"),
        D::Tuple(v) => format!("({})", v.iter().map(fmt_d).collect::<Vec<_>>().join(", ")),
        D::List(v) => format!("[{}]", v.iter().map(fmt_d).collect::<Vec<_>>().join(", ")),
        D::Node(n, f) => {
            if f.is_empty() {
                n.clone()
            } else if f.iter().all(|(k, _)| k.is_none()) {
                format!("{n}({})", f.iter().map(|(_, v)| fmt_d(v)).collect::<Vec<_>>().join(", "))
            } else {
                format!("{n} {{ {} }}", f.iter().map(|(k, v)| format!("{}: {}", k.clone().unwrap_or_default(), fmt_d(v))).collect::<Vec<_>>().join(", "))
            }
        },
    }
}
