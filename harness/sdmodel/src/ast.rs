// Model AST of the documented Seed language. Every node carries an id (assigned
// by `Prog::number`) so that the printer can record, and the reference
// interpreter can cite, the token that stands for the node.

pub type Id = u32;

#[derive(Clone, Copy, Debug, PartialEq, Eq, PartialOrd, Ord, Hash)]
pub enum Op {
    Sum, Sub, Mul, Div, Mod,
    And, Or,
    Eq, Ne, Gt, Gte, Lt, Lte,
    RefEq, RefNe,
}

pub const ALL_OPS: [Op; 15] = [
    Op::Sum, Op::Sub, Op::Mul, Op::Div, Op::Mod, Op::And, Op::Or, Op::Eq,
    Op::Ne, Op::Gt, Op::Gte, Op::Lt, Op::Lte, Op::RefEq, Op::RefNe,
];

pub const ARITH_OPS: [Op; 5] = [Op::Sum, Op::Sub, Op::Mul, Op::Div, Op::Mod];

impl Op {
    pub fn sym(self) -> &'static str {
        match self {
            Op::Sum => "+", Op::Sub => "-", Op::Mul => "*", Op::Div => "/",
            Op::Mod => "%", Op::And => "&&", Op::Or => "||", Op::Eq => "==",
            Op::Ne => "!=", Op::Gt => ">", Op::Gte => ">=", Op::Lt => "<",
            Op::Lte => "<=", Op::RefEq => "===", Op::RefNe => "!==",
        }
    }

    // Documented tiers, loosest = 1: `..` is 1 (not an `Op`), `&& ||` 2,
    // `+ -` 3, everything else 4; postfix forms 5; atoms 6.
    pub fn tier(self) -> u8 {
        match self {
            Op::And | Op::Or => 2,
            Op::Sum | Op::Sub => 3,
            _ => 4,
        }
    }

    // Name of the variant in the repository's `Debug` output.
    pub fn dbg_name(self) -> &'static str {
        match self {
            Op::Sum => "Sum", Op::Sub => "Sub", Op::Mul => "Mul",
            Op::Div => "Div", Op::Mod => "Mod", Op::And => "And",
            Op::Or => "Or", Op::Eq => "Eq", Op::Ne => "Ne", Op::Gt => "Gt",
            Op::Gte => "Gte", Op::Lt => "Lt", Op::Lte => "Lte",
            Op::RefEq => "RefEq", Op::RefNe => "RefNe",
        }
    }
}

// How one character of a string literal is spelled in the source.
#[derive(Clone, Copy, Debug, PartialEq, Eq, Hash)]
pub enum Spell {
    Raw,
    // `\\ \" \$ \n \r`
    Esc,
    // `\xHH` (only used for ASCII characters)
    Hex,
    // `\xHH` for U+0080..U+00FF as well. What such an escape denotes is not
    // stated anywhere, so this spelling is only used where the oracle does
    // not depend on the value (no-crash, interpolation == concatenation).
    HexLatin,
}

#[derive(Clone, Debug, PartialEq)]
pub enum StrPart {
    Text(Vec<(char, Spell)>),
    Slot(Box<Expr>),
}

#[derive(Clone, Debug, PartialEq)]
pub struct Expr {
    pub id: Id,
    // Number of *redundant* parenthesis layers to print around this node (the
    // printer adds the necessary ones itself).
    pub parens: u8,
    pub k: EK,
}

#[derive(Clone, Debug, PartialEq)]
pub enum EK {
    Null,
    Bool(bool),
    // `text` is the spelling of the magnitude (digits and `_`), if not the
    // plain decimal one.
    Int{v: i64, text: Option<String>},
    Str(Vec<(char, Spell)>),
    Interp(Vec<StrPart>),
    Var(String),
    Bin(Op, Box<Expr>, Box<Expr>),
    Range(Box<Expr>, Box<Expr>),
    List(Vec<Item>, bool),
    Obj(Vec<Prop>),
    Index(Box<Expr>, Box<Expr>),
    RangeIndex(Box<Expr>, Option<Box<Expr>>, Option<Box<Expr>>),
    Prop(Box<Expr>, String, bool),
    Func(Vec<Expr>, bool, Vec<Stmt>),
    Call(Box<Expr>, Vec<Item>),
}

#[derive(Clone, Debug, PartialEq)]
pub struct Item {
    pub e: Expr,
    pub spread: bool,
}

#[derive(Clone, Debug, PartialEq)]
pub enum Prop {
    Pair(Expr, Expr),
    Single{e: Expr, spread: bool, collect: bool},
}

#[derive(Clone, Debug, PartialEq)]
pub struct Stmt {
    pub id: Id,
    pub k: SK,
}

#[derive(Clone, Debug, PartialEq)]
pub enum SK {
    Block(Vec<Stmt>),
    Expr(Expr),
    Declare(Expr, Expr),
    Assign(Expr, Expr),
    OpAssign(Expr, Op, Expr),
    If(Vec<(Expr, Vec<Stmt>)>, Option<Vec<Stmt>>),
    While(Expr, Vec<Stmt>),
    For(Expr, Expr, Vec<Stmt>),
    Break,
    Continue,
    FuncDecl(String, Vec<Expr>, bool, Vec<Stmt>),
    Return(Expr),
}

#[derive(Clone, Debug, PartialEq)]
pub struct Prog {
    pub stmts: Vec<Stmt>,
    pub n_ids: u32,
}

// ---------------------------------------------------------------- builders

pub fn ex(k: EK) -> Expr { Expr{id: 0, parens: 0, k} }
pub fn st(k: SK) -> Stmt { Stmt{id: 0, k} }

pub fn null() -> Expr { ex(EK::Null) }
pub fn boolean(b: bool) -> Expr { ex(EK::Bool(b)) }
pub fn int(v: i64) -> Expr { ex(EK::Int{v, text: None}) }
pub fn var(n: &str) -> Expr { ex(EK::Var(n.to_string())) }
pub fn string(s: &str) -> Expr {
    ex(EK::Str(s.chars().map(|c| (c, natural_spell(c))).collect()))
}
pub fn natural_spell(c: char) -> Spell {
    match c {
        '\\' | '"' | '$' | '\n' | '\r' => Spell::Esc,
        c if (c as u32) < 0x20 || c as u32 == 0x7f => Spell::Hex,
        _ => Spell::Raw,
    }
}
pub fn bin(op: Op, l: Expr, r: Expr) -> Expr { ex(EK::Bin(op, Box::new(l), Box::new(r))) }
pub fn range(l: Expr, r: Expr) -> Expr { ex(EK::Range(Box::new(l), Box::new(r))) }
pub fn item(e: Expr) -> Item { Item{e, spread: false} }
pub fn spread(e: Expr) -> Item { Item{e, spread: true} }
pub fn list(items: Vec<Expr>) -> Expr { ex(EK::List(items.into_iter().map(item).collect(), false)) }
pub fn list_items(items: Vec<Item>, collect: bool) -> Expr { ex(EK::List(items, collect)) }
pub fn obj(props: Vec<Prop>) -> Expr { ex(EK::Obj(props)) }
pub fn pair(k: &str, v: Expr) -> Prop { Prop::Pair(string(k), v) }
pub fn index(s: Expr, i: Expr) -> Expr { ex(EK::Index(Box::new(s), Box::new(i))) }
pub fn range_index(s: Expr, a: Option<Expr>, b: Option<Expr>) -> Expr {
    ex(EK::RangeIndex(Box::new(s), a.map(Box::new), b.map(Box::new)))
}
pub fn prop(s: Expr, n: &str) -> Expr { ex(EK::Prop(Box::new(s), n.to_string(), false)) }
pub fn tprop(s: Expr, n: &str) -> Expr { ex(EK::Prop(Box::new(s), n.to_string(), true)) }
pub fn call(f: Expr, args: Vec<Expr>) -> Expr { ex(EK::Call(Box::new(f), args.into_iter().map(item).collect())) }
pub fn call_items(f: Expr, args: Vec<Item>) -> Expr { ex(EK::Call(Box::new(f), args)) }
pub fn func(params: Vec<Expr>, collect: bool, body: Vec<Stmt>) -> Expr { ex(EK::Func(params, collect, body)) }
pub fn print(e: Expr) -> Stmt { st(SK::Expr(call(var("print"), vec![e]))) }
pub fn expr_stmt(e: Expr) -> Stmt { st(SK::Expr(e)) }
pub fn declare(l: Expr, r: Expr) -> Stmt { st(SK::Declare(l, r)) }
pub fn assign(l: Expr, r: Expr) -> Stmt { st(SK::Assign(l, r)) }
pub fn op_assign(l: Expr, op: Op, r: Expr) -> Stmt { st(SK::OpAssign(l, op, r)) }
pub fn block(b: Vec<Stmt>) -> Stmt { st(SK::Block(b)) }
pub fn if_(c: Expr, t: Vec<Stmt>, e: Option<Vec<Stmt>>) -> Stmt { st(SK::If(vec![(c, t)], e)) }
pub fn while_(c: Expr, b: Vec<Stmt>) -> Stmt { st(SK::While(c, b)) }
pub fn for_(t: Expr, it: Expr, b: Vec<Stmt>) -> Stmt { st(SK::For(t, it, b)) }
pub fn fn_decl(n: &str, params: Vec<Expr>, collect: bool, body: Vec<Stmt>) -> Stmt {
    st(SK::FuncDecl(n.to_string(), params, collect, body))
}
pub fn ret(e: Expr) -> Stmt { st(SK::Return(e)) }
pub fn paren(mut e: Expr) -> Expr { e.parens += 1; e }

impl Prog {
    pub fn new(stmts: Vec<Stmt>) -> Prog {
        let mut p = Prog{stmts, n_ids: 0};
        p.number();
        p
    }

    // Assigns fresh ids in source order (pre-order), starting from 1.
    pub fn number(&mut self) {
        let mut n = 0u32;
        for s in &mut self.stmts {
            number_stmt(s, &mut n);
        }
        self.n_ids = n + 1;
    }
}

fn number_block(b: &mut [Stmt], n: &mut u32) {
    for s in b {
        number_stmt(s, n);
    }
}

pub fn number_stmt(s: &mut Stmt, n: &mut u32) {
    *n += 1;
    s.id = *n;
    match &mut s.k {
        SK::Block(b) => number_block(b, n),
        SK::Expr(e) | SK::Return(e) => number_expr(e, n),
        SK::Declare(l, r) | SK::Assign(l, r) | SK::OpAssign(l, _, r) => {
            number_expr(l, n);
            number_expr(r, n);
        },
        SK::If(branches, els) => {
            for (c, b) in branches {
                number_expr(c, n);
                number_block(b, n);
            }
            if let Some(b) = els {
                number_block(b, n);
            }
        },
        SK::While(c, b) => {
            number_expr(c, n);
            number_block(b, n);
        },
        SK::For(t, it, b) => {
            number_expr(t, n);
            number_expr(it, n);
            number_block(b, n);
        },
        SK::Break | SK::Continue => {},
        SK::FuncDecl(_, params, _, b) => {
            for p in params {
                number_expr(p, n);
            }
            number_block(b, n);
        },
    }
}

pub fn number_expr(e: &mut Expr, n: &mut u32) {
    *n += 1;
    e.id = *n;
    match &mut e.k {
        EK::Null | EK::Bool(_) | EK::Int{..} | EK::Str(_) | EK::Var(_) => {},
        EK::Interp(parts) => {
            for p in parts {
                if let StrPart::Slot(e) = p {
                    number_expr(e, n);
                }
            }
        },
        EK::Bin(_, l, r) | EK::Range(l, r) | EK::Index(l, r) => {
            number_expr(l, n);
            number_expr(r, n);
        },
        EK::List(items, _) => {
            for it in items {
                number_expr(&mut it.e, n);
            }
        },
        EK::Obj(props) => {
            for p in props {
                match p {
                    Prop::Pair(k, v) => {
                        number_expr(k, n);
                        number_expr(v, n);
                    },
                    Prop::Single{e, ..} => number_expr(e, n),
                }
            }
        },
        EK::RangeIndex(s, a, b) => {
            number_expr(s, n);
            if let Some(a) = a {
                number_expr(a, n);
            }
            if let Some(b) = b {
                number_expr(b, n);
            }
        },
        EK::Prop(s, _, _) => number_expr(s, n),
        EK::Func(params, _, b) => {
            for p in params {
                number_expr(p, n);
            }
            number_block(b, n);
        },
        EK::Call(f, args) => {
            number_expr(f, n);
            for a in args {
                number_expr(&mut a.e, n);
            }
        },
    }
}

// Decoded value of literal text.
pub fn text_bytes(t: &[(char, Spell)]) -> Vec<u8> {
    let s: String = t.iter().map(|(c, _)| *c).collect();
    s.into_bytes()
}
