// Reference interpreter: a big-step evaluator written from docs/features.md
// and the property statements (DESIGN.md appendix A). It can also be run under
// deliberately wrong "variant" semantics, which are only used to measure
// whether a generated case could tell the variant from the truth.

use std::collections::BTreeMap;
use std::collections::BTreeSet;
use std::rc::Rc;

use crate::ast::*;
pub use crate::value::*;

#[derive(Clone, Debug, Default, PartialEq, Eq)]
pub struct Sem {
    // Function bodies see the caller's bindings instead of the defining ones.
    pub dynamic_scope: bool,
    // One frame per function: blocks, branches and loop bodies do not open a
    // scope of their own.
    pub no_block_scope: bool,
    // A loop body reuses one frame for all iterations.
    pub shared_iteration_frame: bool,
    // `x = v` on an undeclared name declares it.
    pub assign_declares: bool,
    // `x := v` on a name that exists in an enclosing scope assigns to it.
    pub declare_assigns_outer: bool,
    // Binding a list/object to a name copies it (one level).
    pub assign_copies: bool,
    // Passing a list/object as an argument copies it.
    pub args_copy: bool,
    // `a + b` on lists reuses (mutates and returns) the left operand.
    pub sum_reuses_left: bool,
    // `xs[a:b]` read returns the source when the range covers it all.
    pub range_read_aliases: bool,
    // `[xs..]` with a single spread item returns `xs` itself.
    pub spread_aliases: bool,
    // `this` is the object the function was first read from, ever.
    pub this_sticky: bool,
    // `this` is lost when a read function value is stored in a variable.
    pub this_dropped_on_store: bool,
    // `this` is lost when passed as an argument / returned / put in a list.
    pub this_dropped_on_pass: bool,
    // `break`/`continue` propagate out of a called function into the caller's
    // loop.
    pub jump_crosses_call: bool,
    // A bare `{ }` block swallows break/continue/return.
    pub block_swallows_jump: bool,
    // `[..rest] := xs` binds `rest` to `xs` itself.
    pub collect_aliases: bool,
    // Functions capture a copy of their defining environment.
    pub capture_by_value: bool,
    // `for` re-reads the container on every iteration instead of a snapshot.
    pub for_live: bool,
    // Objects iterate / print in insertion order. (Not implemented in the
    // heap model; kept for labels.)
    pub continue_is_break: bool,
}

pub const VARIANTS: [&str; 19] = [
    "dynamic_scope", "no_block_scope", "shared_iteration_frame", "assign_declares",
    "declare_assigns_outer", "assign_copies", "args_copy", "sum_reuses_left",
    "range_read_aliases", "spread_aliases", "this_sticky", "this_dropped_on_store",
    "this_dropped_on_pass", "jump_crosses_call", "block_swallows_jump", "for_live",
    "continue_is_break", "capture_by_value", "collect_aliases",
];

impl Sem {
    pub fn variant(name: &str) -> Sem {
        let mut s = Sem::default();
        match name {
            "dynamic_scope" => s.dynamic_scope = true,
            "no_block_scope" => s.no_block_scope = true,
            "shared_iteration_frame" => s.shared_iteration_frame = true,
            "assign_declares" => s.assign_declares = true,
            "declare_assigns_outer" => s.declare_assigns_outer = true,
            "assign_copies" => s.assign_copies = true,
            "args_copy" => s.args_copy = true,
            "sum_reuses_left" => s.sum_reuses_left = true,
            "range_read_aliases" => s.range_read_aliases = true,
            "spread_aliases" => s.spread_aliases = true,
            "this_sticky" => s.this_sticky = true,
            "this_dropped_on_store" => s.this_dropped_on_store = true,
            "this_dropped_on_pass" => s.this_dropped_on_pass = true,
            "jump_crosses_call" => s.jump_crosses_call = true,
            "block_swallows_jump" => s.block_swallows_jump = true,
            "for_live" => s.for_live = true,
            "continue_is_break" => s.continue_is_break = true,
            "capture_by_value" => s.capture_by_value = true,
            "collect_aliases" => s.collect_aliases = true,
            _ => panic!("unknown variant {name}"),
        }
        s
    }
}

#[derive(Clone, Debug)]
pub struct Limits {
    pub steps: u64,
    pub call_depth: usize,
    pub container: usize,
    pub range_width: i64,
    pub value_depth: usize,
    pub out_bytes: usize,
}

impl Default for Limits {
    fn default() -> Limits {
        Limits{steps: 200_000, call_depth: 20, container: 4096, range_width: 4096, value_depth: 24, out_bytes: 1 << 20}
    }
}

pub enum Flow {
    Break(Id),
    Continue(Id),
    Return(SV, Id),
}

pub type R<T> = Result<T, Abort>;

#[derive(Clone, Debug)]
pub enum Outcome {
    Ok,
    Err(RErr),
    Discard(&'static str),
}

#[derive(Clone, Debug)]
pub struct RunResult {
    pub out: Vec<u8>,
    pub outcome: Outcome,
    pub steps: u64,
    pub max_call_depth: usize,
    // Feature labels touched during the run (for non-triviality rules).
    pub labels: BTreeSet<&'static str>,
}

impl RunResult {
    pub fn is_ok(&self) -> bool { matches!(self.outcome, Outcome::Ok) }
    pub fn is_err(&self) -> bool { matches!(self.outcome, Outcome::Err(_)) }
    pub fn is_discard(&self) -> bool { matches!(self.outcome, Outcome::Discard(_)) }
    pub fn err(&self) -> Option<&RErr> {
        match &self.outcome { Outcome::Err(e) => Some(e), _ => None }
    }
    pub fn out_str(&self) -> String { String::from_utf8_lossy(&self.out).to_string() }
}

pub struct Interp {
    pub sem: Sem,
    pub lim: Limits,
    pub out: Vec<u8>,
    pub steps: u64,
    pub stack: Vec<CallFrame>,
    pub max_call_depth: usize,
    pub in_slot: u32,
    // Call depth at the entry of every slot being evaluated.
    slot_depths: Vec<usize>,
    pub labels: BTreeSet<&'static str>,
    // For `dynamic_scope`: the environment of the caller.
    dyn_env: Vec<Env>,
}

pub fn run(p: &Prog) -> RunResult {
    run_with(p, &Sem::default(), &Limits::default())
}

pub fn run_with(p: &Prog, sem: &Sem, lim: &Limits) -> RunResult {
    let mut it = Interp{
        sem: sem.clone(), lim: lim.clone(), out: vec![], steps: 0, stack: vec![],
        max_call_depth: 0, in_slot: 0, slot_depths: vec![], labels: BTreeSet::new(), dyn_env: vec![],
    };
    release_frames();
    let global = new_frame(None);
    global.vars.borrow_mut().insert(
        "print".to_string(),
        Binding{v: SV::plain(Val::Builtin(BuiltinFn::Print)), decl: 0, decl_is_op: false},
    );
    let r = it.exec_block_in(&p.stmts, &global);
    let outcome = match r {
        Ok(None) => Outcome::Ok,
        Ok(Some(Flow::Break(id))) => Outcome::Err(it.mk_err(EKind::JumpOutside{which: "break"}, id, PosRule::Loose)),
        Ok(Some(Flow::Continue(id))) => Outcome::Err(it.mk_err(EKind::JumpOutside{which: "continue"}, id, PosRule::Loose)),
        Ok(Some(Flow::Return(_, id))) => Outcome::Err(it.mk_err(EKind::JumpOutside{which: "return"}, id, PosRule::Loose)),
        Err(Abort::Err(e)) => Outcome::Err(*e),
        Err(Abort::Discard(why)) => Outcome::Discard(why),
    };
    let result = RunResult{out: it.out, outcome, steps: it.steps, max_call_depth: it.max_call_depth, labels: it.labels};
    it.stack.clear();
    it.dyn_env.clear();
    drop(global);
    release_frames();
    result
}

impl Interp {
    fn mk_err(&self, kind: EKind, node: Id, rule: PosRule) -> RErr {
        let direct = self.slot_depths.last().map(|d| *d == self.stack.len()).unwrap_or(false);
        RErr{kind, node, rule, stack: self.stack.clone(), in_slot: self.in_slot > 0, in_slot_direct: direct}
    }

    fn fail<T>(&self, kind: EKind, node: Id, rule: PosRule) -> R<T> {
        Err(Abort::Err(Box::new(self.mk_err(kind, node, rule))))
    }

    fn tick(&mut self) -> R<()> {
        self.steps += 1;
        if self.steps > self.lim.steps {
            return Err(Abort::Discard("step budget"));
        }
        Ok(())
    }

    fn label(&mut self, l: &'static str) { self.labels.insert(l); }

    // ------------------------------------------------------------ statements

    // Runs `b` in the given frame (no new scope).
    fn exec_block_in(&mut self, b: &[Stmt], env: &Env) -> R<Option<Flow>> {
        for s in b {
            if let Some(f) = self.exec(s, env)? {
                return Ok(Some(f));
            }
        }
        Ok(None)
    }

    fn exec_scoped(&mut self, b: &[Stmt], env: &Env) -> R<Option<Flow>> {
        if self.sem.no_block_scope {
            return self.exec_block_in(b, env);
        }
        let inner = new_frame(Some(env.clone()));
        self.exec_block_in(b, &inner)
    }

    fn cond(&mut self, c: &Expr, env: &Env) -> R<bool> {
        match self.eval(c, env)?.v {
            Val::Bool(b) => Ok(b),
            v => self.fail(EKind::CondType{got: v.kind()}, c.id, PosRule::Loose),
        }
    }

    fn exec(&mut self, s: &Stmt, env: &Env) -> R<Option<Flow>> {
        self.tick()?;
        match &s.k {
            SK::Block(b) => {
                self.label("block");
                let f = self.exec_scoped(b, env)?;
                if self.sem.block_swallows_jump {
                    return Ok(None);
                }
                Ok(f)
            },
            SK::Expr(e) => {
                self.eval(e, env)?;
                Ok(None)
            },
            SK::Declare(l, r) => {
                let v = self.eval(r, env)?;
                let v = self.stored(v);
                let mut names = BTreeSet::new();
                self.bind(l, v, env, true, &mut names)?;
                Ok(None)
            },
            SK::Assign(l, r) => {
                let v = self.eval(r, env)?;
                let v = self.stored(v);
                let mut names = BTreeSet::new();
                self.bind(l, v, env, false, &mut names)?;
                Ok(None)
            },
            SK::OpAssign(l, op, r) => {
                self.label("op_assign");
                let rv = self.eval(r, env)?;
                self.op_assign(s.id, l, *op, rv, env)?;
                Ok(None)
            },
            SK::If(branches, els) => {
                self.label("if");
                for (c, b) in branches {
                    if self.cond(c, env)? {
                        return self.exec_scoped(b, env);
                    }
                }
                if let Some(b) = els {
                    return self.exec_scoped(b, env);
                }
                Ok(None)
            },
            SK::While(c, b) => {
                self.label("while");
                let shared = new_frame(Some(env.clone()));
                loop {
                    self.tick()?;
                    if !self.cond(c, env)? {
                        break;
                    }
                    let f =
                        if self.sem.shared_iteration_frame && !self.sem.no_block_scope {
                            self.exec_block_in(b, &shared)?
                        } else {
                            self.exec_scoped(b, env)?
                        };
                    match f {
                        None => {},
                        Some(Flow::Break(_)) => break,
                        Some(Flow::Continue(_)) => {
                            if self.sem.continue_is_break {
                                break;
                            }
                        },
                        Some(r @ Flow::Return(..)) => return Ok(Some(r)),
                    }
                }
                Ok(None)
            },
            SK::For(t, it, b) => {
                self.label("for");
                let itv = self.eval(it, env)?;
                let pairs = self.pairs_of(&itv.v, it.id)?;
                let shared = new_frame(Some(env.clone()));
                let mut i = 0usize;
                loop {
                    let (k, v) =
                        if self.sem.for_live {
                            let cur = self.pairs_of(&itv.v, it.id)?;
                            if i >= cur.len() { break; }
                            cur[i].clone()
                        } else {
                            if i >= pairs.len() { break; }
                            pairs[i].clone()
                        };
                    i += 1;
                    self.tick()?;
                    let pair = SV::plain(Val::list(vec![k, v]));
                    let frame =
                        if self.sem.no_block_scope {
                            env.clone()
                        } else if self.sem.shared_iteration_frame {
                            shared.clone()
                        } else {
                            new_frame(Some(env.clone()))
                        };
                    let mut names = BTreeSet::new();
                    if self.sem.no_block_scope || self.sem.shared_iteration_frame {
                        // Re-declaration in a reused frame: overwrite.
                        self.bind_overwrite(t, pair, &frame, &mut names)?;
                    } else {
                        self.bind(t, pair, &frame, true, &mut names)?;
                    }
                    match self.exec_block_in(b, &frame)? {
                        None => {},
                        Some(Flow::Break(_)) => break,
                        Some(Flow::Continue(_)) => {
                            if self.sem.continue_is_break {
                                break;
                            }
                        },
                        Some(r @ Flow::Return(..)) => return Ok(Some(r)),
                    }
                }
                Ok(None)
            },
            SK::Break => Ok(Some(Flow::Break(s.id))),
            SK::Continue => Ok(Some(Flow::Continue(s.id))),
            SK::FuncDecl(name, params, collect, body) => {
                self.label("fn_decl");
                self.check_params(params)?;
                let fenv = if self.sem.capture_by_value { snapshot_env(env) } else { env.clone() };
                let f = Rc::new(FuncV{
                    name: Some(name.clone()), params: params.clone(), collect: *collect,
                    body: body.clone(), env: fenv, node: s.id,
                });
                if name != "_" {
                    self.declare(env, name, SV::plain(Val::Func(f)), s.id, true)?;
                }
                Ok(None)
            },
            SK::Return(e) => {
                let v = self.eval(e, env)?;
                let v = self.passed(v);
                Ok(Some(Flow::Return(v, s.id)))
            },
        }
    }

    // `fn name(params)`: a name may occur once in the parameter patterns and
    // only bindable forms are allowed (checked when the function is declared).
    fn check_params(&mut self, params: &[Expr]) -> R<()> {
        let mut seen = BTreeSet::new();
        for p in params {
            self.check_param(p, &mut seen)?;
        }
        Ok(())
    }

    fn check_param(&mut self, p: &Expr, seen: &mut BTreeSet<String>) -> R<()> {
        match &p.k {
            EK::Var(n) => {
                if n == "_" {
                    return Ok(());
                }
                if !seen.insert(n.clone()) {
                    return self.fail(EKind::DupInPattern{name: n.clone()}, p.id, PosRule::Loose);
                }
                Ok(())
            },
            EK::List(items, _) => {
                for it in items {
                    if it.spread {
                        return self.fail(EKind::SpreadInPattern, p.id, PosRule::Loose);
                    }
                    self.check_param(&it.e, seen)?;
                }
                Ok(())
            },
            EK::Obj(props) => {
                for pr in props {
                    match pr {
                        Prop::Pair(_, v) => self.check_param(v, seen)?,
                        Prop::Single{e, spread, ..} => {
                            if *spread {
                                return self.fail(EKind::SpreadInPattern, p.id, PosRule::Loose);
                            }
                            self.check_param(e, seen)?;
                        },
                    }
                }
                Ok(())
            },
            _ => self.fail(EKind::BadBindTarget, p.id, PosRule::Loose),
        }
    }

    fn pairs_of(&mut self, v: &Val, node: Id) -> R<Vec<(SV, SV)>> {
        match v {
            Val::Str(s) => {
                self.label("for_string");
                Ok(s.iter().enumerate().map(|(i, b)| (SV::int(i as i64), SV::plain(Val::str(&[*b])))).collect())
            },
            Val::List(l) => {
                self.label("for_list");
                Ok(l.borrow().iter().enumerate().map(|(i, x)| (SV::int(i as i64), x.clone())).collect())
            },
            Val::Obj(o) => {
                self.label("for_object");
                Ok(o.borrow().iter().map(|(k, x)| {
                    let mut x = x.clone();
                    x.uncertain = true;
                    (SV::plain(Val::str(k)), x)
                }).collect())
            },
            _ => self.fail(EKind::NotIterable, node, PosRule::Loose),
        }
    }

    // Variant hooks for copies made when a value is stored / passed.
    fn stored(&mut self, mut v: SV) -> SV {
        if self.sem.this_dropped_on_store {
            v.origin = None;
        }
        if self.sem.assign_copies {
            v.v = shallow_copy(&v.v);
        }
        v
    }

    fn passed(&mut self, mut v: SV) -> SV {
        if self.sem.this_dropped_on_pass {
            v.origin = None;
        }
        v
    }

    // ------------------------------------------------------------- binding

    #[allow(unused_variables)]
    fn declare(&mut self, env: &Env, name: &str, v: SV, decl: Id, decl_is_op: bool) -> R<()> {
        if self.sem.declare_assigns_outer && env.vars.borrow().get(name).is_none() && assign_var(env, name, v.clone()) {
            return Ok(());
        }
        let mut vars = env.vars.borrow_mut();
        if let Some(prev) = vars.get(name) {
            let (p, po) = (prev.decl, prev.decl_is_op);
            drop(vars);
            return self.fail(
                EKind::AlreadyDeclared{name: name.to_string(), prev: p, prev_is_op: po},
                decl,
                // Where a redeclaration is reported is not documented; only
                // the cited earlier position is (C20).
                PosRule::Loose,
            );
        }
        vars.insert(name.to_string(), Binding{v, decl, decl_is_op});
        Ok(())
    }

    fn bind_overwrite(&mut self, t: &Expr, v: SV, env: &Env, names: &mut BTreeSet<String>) -> R<()> {
        // Used only by variants that reuse a frame: drop the old names first.
        let mut ns = vec![];
        pattern_names(t, &mut ns);
        for n in ns {
            env.vars.borrow_mut().remove(&n);
        }
        self.bind(t, v, env, true, names)
    }

    // Binds `v` to the target `t`; `decl` = declaration (`:=`, parameters,
    // `for` targets), otherwise assignment.
    pub fn bind(&mut self, t: &Expr, v: SV, env: &Env, decl: bool, names: &mut BTreeSet<String>) -> R<()> {
        self.tick()?;
        match &t.k {
            EK::Var(n) => {
                if n == "_" {
                    self.label("underscore");
                    return Ok(());
                }
                if !names.insert(n.clone()) {
                    return self.fail(EKind::DupInPattern{name: n.clone()}, t.id, PosRule::Loose);
                }
                if decl {
                    self.declare(env, n, v, t.id, false)
                } else if assign_var(env, n, v.clone()) {
                    Ok(())
                } else if self.sem.assign_declares {
                    self.declare(env, n, v, t.id, false)
                } else {
                    self.fail(EKind::Undefined{name: n.clone()}, t.id, PosRule::First)
                }
            },
            EK::Index(s, i) => {
                self.label("elem_assign");
                let sv = self.eval(s, env)?;
                match &sv.v {
                    Val::List(l) => {
                        let n = self.index_of(i, env)?;
                        let len = l.borrow().len();
                        if n >= len {
                            return self.fail(EKind::IndexOutOfBounds, t.id, PosRule::Loose);
                        }
                        l.borrow_mut()[n] = v;
                        Ok(())
                    },
                    Val::Obj(o) => {
                        let k = self.key_of(i, env)?;
                        o.borrow_mut().insert(k, v);
                        Ok(())
                    },
                    _ => self.fail(EKind::NotIndexAssignable, t.id, PosRule::Loose),
                }
            },
            EK::Prop(s, name, type_prop) => {
                if *type_prop {
                    return self.fail(EKind::AssignTypeProp, t.id, PosRule::Loose);
                }
                self.label("prop_assign");
                let sv = self.eval(s, env)?;
                match &sv.v {
                    Val::Obj(o) => {
                        o.borrow_mut().insert(name.as_bytes().to_vec(), v);
                        Ok(())
                    },
                    other => self.fail(EKind::PropOnNonObject{got: other.kind()}, t.id, PosRule::Loose),
                }
            },
            EK::RangeIndex(s, a, b) => {
                self.label("range_assign");
                let sv = self.eval(s, env)?;
                let l = match &sv.v {
                    Val::List(l) => l.clone(),
                    _ => return self.fail(EKind::NotRangeAssignable, t.id, PosRule::Loose),
                };
                let items: Vec<SV> = match &v.v {
                    Val::List(r) => r.borrow().clone(),
                    Val::Str(s) => s.iter().map(|b| SV::plain(Val::str(&[*b]))).collect(),
                    other => return self.fail(EKind::RangeAssignSource{got: other.kind()}, t.id, PosRule::Loose),
                };
                let start = match a { Some(a) => self.index_of(a, env)?, None => 0 };
                let len = l.borrow().len();
                let end = match b { Some(b) => self.index_of(b, env)?, None => len };
                if start > len || start >= end || end > len {
                    return self.fail(EKind::RangeBounds, t.id, PosRule::Loose);
                }
                if end - start != items.len() {
                    return self.fail(EKind::RangeAssignMismatch, t.id, PosRule::Loose);
                }
                let mut lm = l.borrow_mut();
                for (i, x) in items.into_iter().enumerate() {
                    lm[start + i] = x;
                }
                Ok(())
            },
            EK::List(items, collect) => {
                self.label("list_destructure");
                let src = match &v.v {
                    Val::List(l) => l.borrow().clone(),
                    other => return self.fail(EKind::DestructureSource{got: other.kind()}, t.id, PosRule::Loose),
                };
                let n = items.len();
                if *collect {
                    self.label("collect");
                    if n - 1 > src.len() {
                        return self.fail(EKind::DestructureLength, t.id, PosRule::Loose);
                    }
                } else if n != src.len() {
                    return self.fail(EKind::DestructureLength, t.id, PosRule::Loose);
                }
                for (i, it) in items.iter().enumerate() {
                    if it.spread {
                        return self.fail(EKind::SpreadInPattern, t.id, PosRule::Loose);
                    }
                    let x =
                        if *collect && i == n - 1 {
                            if self.sem.collect_aliases && n == 1 {
                                SV::plain(v.v.clone())
                            } else {
                                SV::plain(Val::list(src[n - 1..].to_vec()))
                            }
                        } else {
                            src[i].clone()
                        };
                    self.bind(&it.e, x, env, decl, names)?;
                }
                Ok(())
            },
            EK::Obj(props) => {
                self.label("object_destructure");
                let src = match &v.v {
                    Val::Obj(o) => o.clone(),
                    other => return self.fail(EKind::DestructureSource{got: other.kind()}, t.id, PosRule::Loose),
                };
                let mut remaining: BTreeSet<Vec<u8>> = src.borrow().keys().cloned().collect();
                let n = props.len();
                for (i, p) in props.iter().enumerate() {
                    match p {
                        Prop::Single{e, spread, collect} => {
                            if *spread {
                                return self.fail(EKind::SpreadInPattern, e.id, PosRule::Loose);
                            }
                            let name = match &e.k {
                                EK::Var(n) => n.clone(),
                                _ => return self.fail(EKind::ShorthandNotVar, e.id, PosRule::Loose),
                            };
                            if *collect {
                                self.label("collect");
                                if i != n - 1 {
                                    return self.fail(EKind::CollectNotLast, e.id, PosRule::Loose);
                                }
                                let mut m = BTreeMap::new();
                                for k in &remaining {
                                    m.insert(k.clone(), src.borrow()[k].clone());
                                }
                                self.bind(e, SV::plain(Val::obj(m)), env, decl, names)?;
                                continue;
                            }
                            if name == "_" {
                                return Err(Abort::Discard("`_` as a shorthand property in a pattern"));
                            }
                            let x = match src.borrow().get(name.as_bytes()) {
                                Some(x) => x.clone(),
                                None => return self.fail(EKind::PropMissing{name: name.into_bytes()}, e.id, PosRule::Loose),
                            };
                            let mut x = x;
                            x.uncertain = true;
                            self.bind(e, x, env, decl, names)?;
                            remaining.remove(name.as_bytes());
                        },
                        Prop::Pair(k, target) => {
                            let key = self.key_of(k, env)?;
                            if key == b"_" {
                                return Err(Abort::Discard("`_` as a property key in a pattern"));
                            }
                            let x = match src.borrow().get(&key) {
                                Some(x) => x.clone(),
                                None => return self.fail(EKind::PropMissing{name: key}, k.id, PosRule::Loose),
                            };
                            let mut x = x;
                            x.uncertain = true;
                            self.bind(target, x, env, decl, names)?;
                            remaining.remove(&key);
                        },
                    }
                }
                Ok(())
            },
            _ => self.fail(EKind::BadBindTarget, t.id, PosRule::Loose),
        }
    }

    fn op_assign(&mut self, stmt: Id, l: &Expr, op: Op, rv: SV, env: &Env) -> R<()> {
        match &l.k {
            EK::Var(n) => {
                if n == "_" {
                    return Ok(());
                }
                let cur = match lookup(env, n) {
                    Some(v) => v,
                    None => return self.fail(EKind::Undefined{name: n.clone()}, l.id, PosRule::First),
                };
                let nv = self.apply_op(op, &cur.v, &rv.v, stmt)?;
                assign_var(env, n, SV::plain(nv));
                Ok(())
            },
            EK::Index(s, i) => {
                let sv = self.eval(s, env)?;
                match &sv.v {
                    Val::List(lst) => {
                        let n = self.index_of(i, env)?;
                        let cur = match lst.borrow().get(n) {
                            Some(x) => x.clone(),
                            None => return self.fail(EKind::IndexOutOfBounds, l.id, PosRule::Loose),
                        };
                        let nv = self.apply_op(op, &cur.v, &rv.v, stmt)?;
                        lst.borrow_mut()[n] = SV::plain(nv);
                        Ok(())
                    },
                    Val::Obj(o) => {
                        let k = self.key_of(i, env)?;
                        let cur = match o.borrow().get(&k) {
                            Some(x) => x.clone(),
                            None => return self.fail(EKind::OpOnMissing, l.id, PosRule::Loose),
                        };
                        let nv = self.apply_op(op, &cur.v, &rv.v, stmt)?;
                        o.borrow_mut().insert(k, SV::plain(nv));
                        Ok(())
                    },
                    _ => self.fail(EKind::NotIndexAssignable, l.id, PosRule::Loose),
                }
            },
            EK::Prop(s, name, type_prop) => {
                if *type_prop {
                    return self.fail(EKind::AssignTypeProp, l.id, PosRule::Loose);
                }
                let sv = self.eval(s, env)?;
                match &sv.v {
                    Val::Obj(o) => {
                        let k = name.as_bytes().to_vec();
                        let cur = match o.borrow().get(&k) {
                            Some(x) => x.clone(),
                            None => return self.fail(EKind::OpOnMissing, l.id, PosRule::Loose),
                        };
                        let nv = self.apply_op(op, &cur.v, &rv.v, stmt)?;
                        o.borrow_mut().insert(k, SV::plain(nv));
                        Ok(())
                    },
                    other => self.fail(EKind::PropOnNonObject{got: other.kind()}, l.id, PosRule::Loose),
                }
            },
            EK::RangeIndex(..) | EK::List(..) | EK::Obj(..) => self.fail(EKind::OpOnPattern, l.id, PosRule::Loose),
            _ => self.fail(EKind::BadBindTarget, l.id, PosRule::Loose),
        }
    }

    // ---------------------------------------------------------- expressions

    fn index_of(&mut self, i: &Expr, env: &Env) -> R<usize> {
        match self.eval(i, env)?.v {
            Val::Int(n) => {
                if n < 0 {
                    return self.fail(EKind::IndexNegative, i.id, PosRule::Loose);
                }
                Ok(n as usize)
            },
            v => self.fail(EKind::IndexType{got: v.kind()}, i.id, PosRule::Loose),
        }
    }

    fn key_of(&mut self, k: &Expr, env: &Env) -> R<Vec<u8>> {
        match self.eval(k, env)?.v {
            Val::Str(s) => {
                if std::str::from_utf8(&s).is_err() {
                    return self.fail(EKind::InvalidUtf8, k.id, PosRule::Loose);
                }
                Ok(s.to_vec())
            },
            v => self.fail(EKind::PropNameType{got: v.kind()}, k.id, PosRule::Loose),
        }
    }

    pub fn apply_op(&mut self, op: Op, l: &Val, r: &Val, node: Id) -> R<Val> {
        let types = |s: &Interp| s.fail(EKind::OpTypes{op, l: l.kind(), r: r.kind()}, node, PosRule::Op);
        match op {
            Op::Eq | Op::Ne => {
                let mut budget = 100_000u64;
                match self.deep_eq(l, r, 0, &mut budget)? {
                    Ok(b) => Ok(Val::Bool(if op == Op::Eq { b } else { !b })),
                    Err((lk, rk)) => self.fail(EKind::EqTypes{op, l: lk, r: rk}, node, PosRule::Op),
                }
            },
            Op::RefEq | Op::RefNe => {
                match l.same_ref(r) {
                    Some(b) => Ok(Val::Bool(if op == Op::RefEq { b } else { !b })),
                    None => types(self),
                }
            },
            Op::Sum => {
                match (l, r) {
                    (Val::Int(a), Val::Int(b)) => self.arith(op, *a, *b, node),
                    (Val::Str(a), Val::Str(b)) => {
                        let mut v = a.to_vec();
                        v.extend_from_slice(b);
                        if v.len() > self.lim.out_bytes {
                            return Err(Abort::Discard("string too large"));
                        }
                        Ok(Val::Str(Rc::new(v)))
                    },
                    (Val::List(a), Val::List(b)) => {
                        self.label("list_concat");
                        if self.sem.sum_reuses_left {
                            let bb = b.borrow().clone();
                            if a.borrow().len() + bb.len() > self.lim.container {
                                return Err(Abort::Discard("container too large"));
                            }
                            a.borrow_mut().extend(bb);
                            return Ok(Val::List(a.clone()));
                        }
                        let mut v = a.borrow().clone();
                        v.extend(b.borrow().iter().cloned());
                        if v.len() > self.lim.container {
                            return Err(Abort::Discard("container too large"));
                        }
                        Ok(Val::list(v))
                    },
                    _ => types(self),
                }
            },
            Op::Sub | Op::Mul | Op::Div | Op::Mod => {
                match (l, r) {
                    (Val::Int(a), Val::Int(b)) => self.arith(op, *a, *b, node),
                    _ => types(self),
                }
            },
            Op::And | Op::Or => {
                match (l, r) {
                    (Val::Bool(a), Val::Bool(b)) => Ok(Val::Bool(if op == Op::And { *a && *b } else { *a || *b })),
                    _ => types(self),
                }
            },
            Op::Gt | Op::Gte | Op::Lt | Op::Lte => {
                match (l, r) {
                    (Val::Int(a), Val::Int(b)) => Ok(Val::Bool(match op {
                        Op::Gt => a > b, Op::Gte => a >= b, Op::Lt => a < b, _ => a <= b,
                    })),
                    _ => types(self),
                }
            },
        }
    }

    fn arith(&mut self, op: Op, a: i64, b: i64, node: Id) -> R<Val> {
        let (x, y) = (a as i128, b as i128);
        let r: Option<i128> = match op {
            Op::Sum => Some(x + y),
            Op::Sub => Some(x - y),
            Op::Mul => Some(x * y),
            Op::Div => if y == 0 { None } else { Some(x / y) },
            Op::Mod => if y == 0 { None } else { Some(x % y) },
            _ => unreachable!(),
        };
        match r {
            Some(v) if v >= i64::MIN as i128 && v <= i64::MAX as i128 => Ok(Val::Int(v as i64)),
            _ => self.fail(EKind::Overflow{op, a, b}, node, PosRule::Op),
        }
    }

    // Structural comparison. Ok(Ok(bool)) or Ok(Err(kinds)) for a reached
    // mismatch; discards when the values are too deep (cyclic).
    fn deep_eq(&mut self, l: &Val, r: &Val, depth: usize, budget: &mut u64) -> R<Result<bool, (Kind, Kind)>> {
        if depth > self.lim.value_depth {
            return Err(Abort::Discard("deep comparison of a (possibly cyclic) value"));
        }
        if *budget == 0 {
            return Err(Abort::Discard("comparison budget"));
        }
        *budget -= 1;
        match (l, r) {
            (Val::Null, Val::Null) => Ok(Ok(true)),
            (Val::Bool(a), Val::Bool(b)) => Ok(Ok(a == b)),
            (Val::Int(a), Val::Int(b)) => Ok(Ok(a == b)),
            (Val::Str(a), Val::Str(b)) => Ok(Ok(a == b)),
            (Val::List(a), Val::List(b)) => {
                if Rc::ptr_eq(a, b) {
                    // Identical containers: equal if function-free; with a
                    // function inside both answers are acceptable (see C10),
                    // which the callers of the reference handle by domain.
                    if contains_func(l, 0) {
                        return Err(Abort::Discard("== on identical containers holding a function"));
                    }
                    return Ok(Ok(true));
                }
                let (a, b) = (a.borrow().clone(), b.borrow().clone());
                if a.len() != b.len() {
                    return Ok(Ok(false));
                }
                for (x, y) in a.iter().zip(b.iter()) {
                    match self.deep_eq(&x.v, &y.v, depth + 1, budget)? {
                        Ok(true) => {},
                        other => return Ok(other),
                    }
                }
                Ok(Ok(true))
            },
            (Val::Obj(a), Val::Obj(b)) => {
                if Rc::ptr_eq(a, b) {
                    if contains_func(l, 0) {
                        return Err(Abort::Discard("== on identical containers holding a function"));
                    }
                    return Ok(Ok(true));
                }
                let (a, b) = (a.borrow().clone(), b.borrow().clone());
                if a.len() != b.len() {
                    return Ok(Ok(false));
                }
                for (k, x) in a.iter() {
                    let y = match b.get(k) {
                        Some(y) => y,
                        None => return Ok(Ok(false)),
                    };
                    match self.deep_eq(&x.v, &y.v, depth + 1, budget)? {
                        Ok(true) => {},
                        other => return Ok(other),
                    }
                }
                Ok(Ok(true))
            },
            _ => Ok(Err((l.kind(), r.kind()))),
        }
    }

    pub fn eval(&mut self, e: &Expr, env: &Env) -> R<SV> {
        self.tick()?;
        match &e.k {
            EK::Null => Ok(SV::null()),
            EK::Bool(b) => Ok(SV::boolean(*b)),
            EK::Int{v, ..} => Ok(SV::int(*v)),
            EK::Str(t) => Ok(SV::plain(Val::str(&text_bytes(t)))),
            EK::Interp(parts) => {
                self.label("interpolation");
                let mut out: Vec<u8> = vec![];
                for p in parts {
                    match p {
                        StrPart::Text(t) => out.extend_from_slice(&text_bytes(t)),
                        StrPart::Slot(se) => {
                            self.in_slot += 1;
                            self.slot_depths.push(self.stack.len());
                            let r = self.eval(se, env);
                            self.slot_depths.pop();
                            let r = match r {
                                Ok(v) => match &v.v {
                                    Val::Str(s) => {
                                        if std::str::from_utf8(s).is_err() {
                                            self.fail(EKind::InvalidUtf8, se.id, PosRule::Loose)
                                        } else {
                                            Ok(s.clone())
                                        }
                                    },
                                    other => self.fail(EKind::SlotNotString{got: other.kind()}, se.id, PosRule::Loose),
                                },
                                Err(a) => Err(a),
                            };
                            self.in_slot -= 1;
                            out.extend_from_slice(&r?);
                            if out.len() > self.lim.out_bytes {
                                return Err(Abort::Discard("string too large"));
                            }
                        },
                    }
                }
                Ok(SV::plain(Val::Str(Rc::new(out))))
            },
            EK::Var(n) => {
                if n == "this" {
                    self.label("this");
                }
                match lookup(env, n) {
                    Some(v) => {
                        if n == "this" && v.uncertain {
                            return Err(Abort::Discard("`this` of a function that left its object by an undocumented route"));
                        }
                        Ok(v)
                    },
                    None => self.fail(EKind::Undefined{name: n.clone()}, e.id, PosRule::First),
                }
            },
            EK::Bin(op, l, r) => {
                let lv = self.eval(l, env)?;
                let rv = self.eval(r, env)?;
                let v = self.apply_op(*op, &lv.v, &rv.v, e.id)?;
                Ok(SV::plain(v))
            },
            EK::Range(a, b) => {
                self.label("range");
                let av = match self.eval(a, env)?.v {
                    Val::Int(n) => n,
                    v => return self.fail(EKind::RangeOperand{got: v.kind()}, a.id, PosRule::Loose),
                };
                let bv = match self.eval(b, env)?.v {
                    Val::Int(n) => n,
                    v => return self.fail(EKind::RangeOperand{got: v.kind()}, b.id, PosRule::Loose),
                };
                if (bv as i128) - (av as i128) > self.lim.range_width as i128 {
                    return Err(Abort::Discard("range too wide"));
                }
                let mut v = vec![];
                let mut i = av;
                while i < bv {
                    v.push(SV::int(i));
                    i += 1;
                }
                Ok(SV::plain(Val::list(v)))
            },
            EK::List(items, collect) => {
                if *collect {
                    return self.fail(EKind::CollectOutsidePattern, e.id, PosRule::Loose);
                }
                if self.sem.spread_aliases && items.len() == 1 && items[0].spread {
                    let v = self.eval(&items[0].e, env)?;
                    if let Val::List(_) = v.v {
                        return Ok(SV::plain(v.v));
                    }
                }
                let vals = self.eval_items(items, env)?;
                Ok(SV::plain(Val::list(vals)))
            },
            EK::Obj(props) => {
                let mut m: BTreeMap<Vec<u8>, SV> = BTreeMap::new();
                for p in props {
                    match p {
                        Prop::Pair(k, v) => {
                            let key = self.key_of(k, env)?;
                            let val = self.eval(v, env)?;
                            let val = self.passed(val);
                            m.insert(key, val);
                        },
                        Prop::Single{e: pe, spread, collect} => {
                            if *collect {
                                return self.fail(EKind::CollectOutsidePattern, e.id, PosRule::Loose);
                            }
                            if *spread {
                                self.label("object_spread");
                                match self.eval(pe, env)?.v {
                                    Val::Obj(o) => {
                                        for (k, v) in o.borrow().iter() {
                                            m.insert(k.clone(), v.clone());
                                        }
                                    },
                                    v => return self.fail(EKind::SpreadType{got: v.kind()}, pe.id, PosRule::Loose),
                                }
                            } else if let EK::Var(n) = &pe.k {
                                self.label("shorthand");
                                match lookup(env, n) {
                                    Some(v) => { m.insert(n.as_bytes().to_vec(), v); },
                                    None => return self.fail(EKind::Undefined{name: n.clone()}, pe.id, PosRule::First),
                                }
                            } else {
                                return self.fail(EKind::ShorthandNotVar, pe.id, PosRule::Loose);
                            }
                        },
                    }
                }
                if m.len() > self.lim.container {
                    return Err(Abort::Discard("container too large"));
                }
                Ok(SV::plain(Val::obj(m)))
            },
            EK::Index(s, i) => {
                self.label("index");
                let sv = self.eval(s, env)?;
                match &sv.v {
                    Val::Str(b) => {
                        let n = self.index_of(i, env)?;
                        match b.get(n) {
                            Some(c) => Ok(SV::plain(Val::str(&[*c]))),
                            None => self.fail(EKind::IndexOutOfBounds, e.id, PosRule::Loose),
                        }
                    },
                    Val::List(l) => {
                        let n = self.index_of(i, env)?;
                        let x = l.borrow().get(n).cloned();
                        match x {
                            Some(x) => Ok(x),
                            None => self.fail(EKind::IndexOutOfBounds, e.id, PosRule::Loose),
                        }
                    },
                    Val::Obj(o) => {
                        let k = self.key_of(i, env)?;
                        let x = o.borrow().get(&k).cloned();
                        match x {
                            Some(x) => Ok(self.read_from_object(x, &sv.v)),
                            None => self.fail(EKind::PropMissing{name: k}, e.id, PosRule::Loose),
                        }
                    },
                    _ => self.fail(EKind::NotIndexable, e.id, PosRule::Loose),
                }
            },
            EK::RangeIndex(s, a, b) => {
                self.label("range_index");
                let start = match a { Some(a) => Some(self.index_of(a, env)?), None => None };
                let end = match b { Some(b) => Some(self.index_of(b, env)?), None => None };
                let sv = self.eval(s, env)?;
                match &sv.v {
                    Val::Str(bytes) => {
                        let (st, en) = (start.unwrap_or(0), end.unwrap_or(bytes.len()));
                        if st <= en && en <= bytes.len() {
                            Ok(SV::plain(Val::str(&bytes[st..en])))
                        } else {
                            self.fail(EKind::RangeBounds, e.id, PosRule::Loose)
                        }
                    },
                    Val::List(l) => {
                        let len = l.borrow().len();
                        let (st, en) = (start.unwrap_or(0), end.unwrap_or(len));
                        if st <= en && en <= len {
                            if self.sem.range_read_aliases && st == 0 && en == len {
                                return Ok(SV::plain(sv.v.clone()));
                            }
                            let v = l.borrow()[st..en].to_vec();
                            Ok(SV::plain(Val::list(v)))
                        } else {
                            self.fail(EKind::RangeBounds, e.id, PosRule::Loose)
                        }
                    },
                    _ => self.fail(EKind::NotRangeIndexable, e.id, PosRule::Loose),
                }
            },
            EK::Prop(s, name, type_prop) => {
                let sv = self.eval(s, env)?;
                if *type_prop {
                    self.label("type_function");
                    if let Val::Null = sv.v {
                        return self.fail(EKind::TypeFnOnNull, e.id, PosRule::Loose);
                    }
                    let f = match (name.as_str(), &sv.v) {
                        ("type", _) => BuiltinFn::Type,
                        ("len", Val::Str(_)) => BuiltinFn::Len,
                        _ => return self.fail(EKind::TypeFnMissing, e.id, PosRule::Loose),
                    };
                    return Ok(SV{v: Val::Builtin(f), origin: Some(sv.v.clone()), uncertain: false});
                }
                match &sv.v {
                    Val::Obj(o) => {
                        self.label("prop");
                        let x = o.borrow().get(name.as_bytes()).cloned();
                        match x {
                            Some(x) => Ok(self.read_from_object(x, &sv.v)),
                            None => self.fail(EKind::PropMissing{name: name.as_bytes().to_vec()}, e.id, PosRule::Loose),
                        }
                    },
                    other => self.fail(EKind::PropOnNonObject{got: other.kind()}, e.id, PosRule::Loose),
                }
            },
            EK::Func(params, collect, body) => {
                self.label("anon_fn");
                let fenv = if self.sem.capture_by_value { snapshot_env(env) } else { env.clone() };
                let f = Rc::new(FuncV{
                    name: None, params: params.clone(), collect: *collect, body: body.clone(),
                    env: fenv, node: e.id,
                });
                Ok(SV::plain(Val::Func(f)))
            },
            EK::Call(f, args) => self.call(e, f, args, env),
        }
    }

    fn read_from_object(&mut self, x: SV, obj: &Val) -> SV {
        if self.sem.this_sticky && x.origin.is_some() {
            return SV{v: x.v, origin: x.origin, uncertain: false};
        }
        SV{v: x.v, origin: Some(obj.clone()), uncertain: false}
    }

    fn eval_items(&mut self, items: &[Item], env: &Env) -> R<Vec<SV>> {
        let mut vals = vec![];
        for it in items {
            let v = self.eval(&it.e, env)?;
            if !it.spread {
                let v = self.passed(v);
                vals.push(v);
                continue;
            }
            self.label("spread");
            match &v.v {
                Val::List(l) => vals.extend(l.borrow().iter().cloned()),
                other => return self.fail(EKind::SpreadType{got: other.kind()}, it.e.id, PosRule::Loose),
            }
            if vals.len() > self.lim.container {
                return Err(Abort::Discard("container too large"));
            }
        }
        Ok(vals)
    }

    fn call(&mut self, e: &Expr, f: &Expr, args: &[Item], env: &Env) -> R<SV> {
        // Arguments once, left to right. (Whether the callee expression is
        // evaluated before or after them is not specified; generators keep
        // at most one of the two effectful.)
        let argv = self.eval_items(args, env)?;
        let fv = self.eval(f, env)?;
        match &fv.v {
            Val::Builtin(b) => {
                match b {
                    BuiltinFn::Print => {
                        if fv.origin.is_some() {
                            return Err(Abort::Discard("builtin called through an object"));
                        }
                        if argv.len() != 1 {
                            return self.fail(EKind::BuiltinArgs, e.id, PosRule::First);
                        }
                        let mut s = vec![];
                        match self.render(&argv[0].v, 0, &mut s)? {
                            Ok(()) => {},
                            Err(()) => return self.fail(EKind::InvalidUtf8, e.id, PosRule::First),
                        }
                        s.push(b'\n');
                        self.out.extend_from_slice(&s);
                        if self.out.len() > self.lim.out_bytes {
                            return Err(Abort::Discard("output too large"));
                        }
                        Ok(SV::null())
                    },
                    BuiltinFn::Type => {
                        if !argv.is_empty() {
                            return self.fail(EKind::BuiltinArgs, e.id, PosRule::First);
                        }
                        match &fv.origin {
                            Some(o) => Ok(SV::plain(Val::str(o.kind().type_name().as_bytes()))),
                            None => Err(Abort::Discard("type function without receiver")),
                        }
                    },
                    BuiltinFn::Len => {
                        if !argv.is_empty() {
                            return self.fail(EKind::BuiltinArgs, e.id, PosRule::First);
                        }
                        match &fv.origin {
                            Some(Val::Str(s)) => {
                                if std::str::from_utf8(s).is_err() {
                                    return self.fail(EKind::InvalidUtf8, e.id, PosRule::First);
                                }
                                Ok(SV::int(s.len() as i64))
                            },
                            _ => Err(Abort::Discard("len with a non-string receiver")),
                        }
                    },
                }
            },
            Val::Func(func) => {
                self.label("call");
                let n = func.params.len();
                if func.collect {
                    if n - 1 > argv.len() {
                        return self.fail(EKind::ArgCount, e.id, PosRule::First);
                    }
                } else if n != argv.len() {
                    return self.fail(EKind::ArgCount, e.id, PosRule::First);
                }
                if self.stack.len() >= self.lim.call_depth {
                    return Err(Abort::Discard("call depth"));
                }
                let parent =
                    if self.sem.dynamic_scope { env.clone() } else { func.env.clone() };
                let frame = new_frame(Some(parent));
                self.stack.push(CallFrame{call: e.id, callee: func.name.clone(), from_slot: self.slot_depths.last().map(|d| *d == self.stack.len()).unwrap_or(false)});
                self.max_call_depth = self.max_call_depth.max(self.stack.len());
                let r = self.call_body(func, argv, &fv, &frame, e.id);
                match r {
                    Ok(v) => {
                        self.stack.pop();
                        Ok(v)
                    },
                    Err(a) => {
                        // Keep the stack as it was at the failure (already
                        // captured inside the error).
                        self.stack.pop();
                        Err(a)
                    },
                }
            },
            other => self.fail(EKind::NotCallable{k: other.kind()}, e.id, PosRule::First),
        }
    }

    fn call_body(&mut self, func: &Rc<FuncV>, argv: Vec<SV>, fv: &SV, frame: &Env, call_id: Id) -> R<SV> {
        let n = func.params.len();
        let mut names = BTreeSet::new();
        for (i, p) in func.params.iter().enumerate() {
            let v =
                if func.collect && i == n - 1 {
                    self.label("rest_param");
                    SV::plain(Val::list(argv[n - 1..].to_vec()))
                } else {
                    let mut a = argv[i].clone();
                    if self.sem.args_copy {
                        a.v = shallow_copy(&a.v);
                    }
                    a
                };
            self.bind(p, v, frame, true, &mut names)?;
        }
        if let Some(o) = &fv.origin {
            if names.contains("this") {
                return Err(Abort::Discard("parameter named this"));
            }
            frame.vars.borrow_mut().insert(
                "this".to_string(),
                Binding{v: SV{v: o.clone(), origin: None, uncertain: fv.uncertain}, decl: 0, decl_is_op: false},
            );
        }
        match self.exec_block_in(&func.body, frame)? {
            None => Ok(SV::null()),
            Some(Flow::Return(v, _)) => Ok(v),
            Some(Flow::Break(id)) => {
                if self.sem.jump_crosses_call {
                    return Err(Abort::Discard("variant: jump crosses call"));
                }
                let _ = call_id;
                self.fail(EKind::JumpOutside{which: "break"}, id, PosRule::Loose)
            },
            Some(Flow::Continue(id)) => {
                if self.sem.jump_crosses_call {
                    return Err(Abort::Discard("variant: jump crosses call"));
                }
                self.fail(EKind::JumpOutside{which: "continue"}, id, PosRule::Loose)
            },
        }
    }

    // Independent renderer of the documented print format. Err(()) = invalid
    // UTF-8 somewhere in the value.
    pub fn render(&mut self, v: &Val, depth: usize, out: &mut Vec<u8>) -> R<Result<(), ()>> {
        if depth > self.lim.value_depth {
            return Err(Abort::Discard("printing a (possibly cyclic) deep value"));
        }
        let pad = |out: &mut Vec<u8>, d: usize| {
            for _ in 0..d { out.extend_from_slice(b"    "); }
        };
        match v {
            Val::Null => out.extend_from_slice(b"<null>"),
            Val::Bool(b) => out.extend_from_slice(if *b { b"true" } else { b"false" }),
            Val::Int(n) => out.extend_from_slice(n.to_string().as_bytes()),
            Val::Str(s) => {
                if std::str::from_utf8(s).is_err() {
                    return Ok(Err(()));
                }
                // A newline inside a nested string is followed by the
                // indentation of its level (the format indents the rendering
                // of every item line by line).
                for b in s.iter() {
                    out.push(*b);
                    if *b == b'\n' {
                        pad(out, depth);
                    }
                }
            },
            Val::List(l) => {
                let items = l.borrow().clone();
                out.extend_from_slice(b"[\n");
                for x in items.iter() {
                    pad(out, depth + 1);
                    if self.render(&x.v, depth + 1, out)?.is_err() {
                        return Ok(Err(()));
                    }
                    out.extend_from_slice(b",\n");
                }
                pad(out, depth);
                out.push(b']');
            },
            Val::Obj(o) => {
                let items = o.borrow().clone();
                out.extend_from_slice(b"{\n");
                for (k, x) in items.iter() {
                    pad(out, depth + 1);
                    out.push(b'"');
                    for b in k.iter() {
                        out.push(*b);
                        if *b == b'\n' {
                            pad(out, depth);
                        }
                    }
                    out.extend_from_slice(b"\": ");
                    if self.render(&x.v, depth + 1, out)?.is_err() {
                        return Ok(Err(()));
                    }
                    out.extend_from_slice(b",\n");
                }
                pad(out, depth);
                out.push(b'}');
            },
            Val::Func(_) | Val::Builtin(_) => {
                return Err(Abort::Discard("printing a function value"));
            },
        }
        if out.len() > self.lim.out_bytes {
            return Err(Abort::Discard("output too large"));
        }
        Ok(Ok(()))
    }
}

pub fn snapshot_env(env: &Env) -> Env {
    let parent = env.parent.as_ref().map(snapshot_env);
    let f = new_frame(parent);
    for (k, b) in env.vars.borrow().iter() {
        f.vars.borrow_mut().insert(k.clone(), Binding{v: b.v.clone(), decl: b.decl, decl_is_op: b.decl_is_op});
    }
    f
}

pub fn shallow_copy(v: &Val) -> Val {
    match v {
        Val::List(l) => Val::list(l.borrow().clone()),
        Val::Obj(o) => Val::obj(o.borrow().clone()),
        other => other.clone(),
    }
}

pub fn contains_func(v: &Val, depth: usize) -> bool {
    if depth > 30 {
        return true;
    }
    match v {
        Val::Func(_) | Val::Builtin(_) => true,
        Val::List(l) => l.borrow().iter().any(|x| contains_func(&x.v, depth + 1)),
        Val::Obj(o) => o.borrow().values().any(|x| contains_func(&x.v, depth + 1)),
        _ => false,
    }
}

pub fn pattern_names(t: &Expr, out: &mut Vec<String>) {
    match &t.k {
        EK::Var(n) => out.push(n.clone()),
        EK::List(items, _) => for it in items { pattern_names(&it.e, out); },
        EK::Obj(props) => for p in props {
            match p {
                Prop::Pair(_, v) => pattern_names(v, out),
                Prop::Single{e, ..} => pattern_names(e, out),
            }
        },
        _ => {},
    }
}
