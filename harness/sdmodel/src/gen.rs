// generators
