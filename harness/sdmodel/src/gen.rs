// Tape-decoded, context-aware program generator over the documented feature
// set. The decoder constructs (it never filters): it tracks the names in scope
// with a static guess of their type so that most programs run to completion,
// and deliberately makes ill-typed / out-of-range choices with a tunable
// probability. The oracle, not the generator, decides what the right answer
// is. An exhausted tape yields the smallest choice everywhere.

use std::rc::Rc;

use crate::ast::*;
use crate::tape::Tape;

#[derive(Clone, Debug, PartialEq)]
pub enum Ty {
    Null,
    Int,
    Bool,
    Str,
    // Element type and statically known length.
    List(Box<Ty>, usize),
    Obj(Vec<(String, Ty)>),
    Fn(Rc<FnSig>),
    // A name whose value the generator does not reason about.
    Opaque,
}

#[derive(Clone, Debug, PartialEq)]
pub struct FnSig {
    pub params: Vec<Ty>,
    // Element type of a `..rest` parameter.
    pub rest: Option<Ty>,
    pub ret: Ty,
    // The body uses `this` and expects an object with these properties.
    pub this: Option<Vec<(String, Ty)>>,
}

#[derive(Clone, Debug)]
struct VarInfo {
    name: String,
    ty: Ty,
    assignable: bool,
}

#[derive(Clone, Debug)]
pub struct GenCfg {
    pub max_top: usize,
    pub max_block: usize,
    pub max_depth: usize,
    pub expr_depth: usize,
    // Per cent chance of a deliberately sloppy (ill-typed, undefined,
    // out-of-range) choice at an expression site.
    pub sloppy: usize,
    pub w_decl: u32,
    pub w_assign: u32,
    pub w_print: u32,
    pub w_if: u32,
    pub w_while: u32,
    pub w_for: u32,
    pub w_block: u32,
    pub w_fn: u32,
    pub w_call: u32,
    pub w_destructure: u32,
    pub w_elem_assign: u32,
    pub w_jump: u32,
    pub w_method: u32,
    pub w_closure: u32,
    pub w_idiom: u32,
    // Per cent chance that a declaration in a nested scope reuses (shadows)
    // the name of an outer variable.
    pub shadow: usize,
    pub interp: bool,
    pub big_ints: bool,
    pub unicode: bool,
    pub aliasing: bool,
    // Sizes beyond the small scope: long lists / strings / loops / names,
    // deeper recursion, non-boundary big integers.
    pub big: bool,
    // Spell U+0080..U+00FF as `\xHH` now and then (only for checks whose
    // oracle does not depend on what such an escape denotes).
    pub hex_latin: bool,
}

impl GenCfg {
    pub fn balanced() -> GenCfg {
        GenCfg{
            max_top: 14, max_block: 4, max_depth: 4, expr_depth: 3, sloppy: 2,
            w_decl: 10, w_assign: 6, w_print: 12, w_if: 5, w_while: 3, w_for: 4,
            w_block: 2, w_fn: 4, w_call: 5, w_destructure: 3, w_elem_assign: 4,
            w_jump: 3, w_method: 2, w_closure: 2, w_idiom: 6, shadow: 25, interp: true, big_ints: false,
            unicode: true, aliasing: true, big: false, hex_latin: false,
        }
    }
    pub fn hostile() -> GenCfg {
        let mut c = GenCfg::balanced();
        c.sloppy = 25;
        c.big_ints = true;
        c.hex_latin = true;
        c
    }
    pub fn big() -> GenCfg {
        let mut c = GenCfg::balanced();
        c.big = true;
        c.max_top = 20;
        c
    }
    pub fn small() -> GenCfg {
        let mut c = GenCfg::balanced();
        c.max_top = 6;
        c.max_block = 3;
        c.max_depth = 3;
        c
    }
}

pub struct Gen<'a> {
    pub t: &'a mut Tape,
    pub cfg: GenCfg,
    scopes: Vec<Vec<VarInfo>>,
    fresh: u32,
    loop_depth: usize,
    fn_depth: usize,
    ret_ty: Vec<Ty>,
    this_ty: Vec<Option<Vec<(String, Ty)>>>,
    depth: usize,
    budget: i32,
}

const KEYS: [&str; 8] = ["a", "b", "k", "n", "tag", "x", "y", "zz"];
// The last three hold characters whose code point ends in the byte of a
// structural ASCII character (`{ } " \ $ newline`): U+017B, U+017D, U+0122,
// U+015C, U+0124, U+010A, U+1F37B, U+1F37D.
const WORDS: [&str; 17] = ["", "a", "b", "ab", "hello", "x y", "é", "日本", "🙂!", "line\nbreak", "q\"uote", "back\\slash", "$5 ${k}", "ŻaŽ", "ĢŜĤĊ", "🍻🍽", "cr\r\nlf"];

// Integer operands for arithmetic beyond the classic boundaries: 32-bit
// magnitudes (whose products straddle 2^63), small multipliers, random widths.
pub fn arith_operand(t: &mut Tape) -> i64 {
    match t.pick(9) {
        0 => ((t.raw() as i64) << 48) | ((t.raw() as i64) << 32) | ((t.raw() as i64) << 16) | t.raw() as i64,
        1 => {
            let k = t.pick(63) as u32;
            let v = (1i64 << k).wrapping_add(t.range(-2, 2));
            if t.chance(1, 2) { v.wrapping_neg() } else { v }
        },
        2 => {
            let v = 3037000499i64 + t.range(-3, 3);
            if t.chance(1, 2) { -v } else { v }
        },
        3 => t.range(-20, 20),
        4 => if t.chance(1, 2) { i64::MAX - t.range(0, 3) } else { i64::MIN + t.range(0, 3) },
        5 => ((t.raw() as i64) << 16 | t.raw() as i64) - (1 << 31),
        6 => {
            // Magnitude in 2^31 .. 2^32.
            let v = (1i64 << 31) | ((t.raw() as i64 & 0x7fff) << 16) | t.raw() as i64;
            if t.chance(1, 3) { -v } else { v }
        },
        7 => {
            let v = t.range(2, 5000);
            if t.chance(1, 4) { -v } else { v }
        },
        _ => {
            // A random bit width.
            let k = 1 + t.pick(62) as u32;
            let full = ((t.raw() as i64) << 48) | ((t.raw() as i64) << 32) | ((t.raw() as i64) << 16) | t.raw() as i64;
            let v = (full & ((1i64 << k) - 1)) | (1i64 << (k - 1));
            if t.chance(1, 3) { -v } else { v }
        },
    }
}

pub fn arith_pair(t: &mut Tape) -> (i64, i64) {
    let a = arith_operand(t);
    let b = match t.pick(6) {
        0 | 1 if a != 0 && a != -1 => {
            // A divisor-shaped partner: the product lands within |a| of the
            // limit on either side.
            let lim = if t.chance(1, 4) { i64::MIN } else { i64::MAX };
            (lim / a).wrapping_add(t.range(-1, 2))
        },
        2 if (1i64 << 31..1i64 << 32).contains(&a.abs()) => {
            let v = (1i64 << 31) | ((t.raw() as i64 & 0x7fff) << 16) | t.raw() as i64;
            if t.chance(1, 3) { -v } else { v }
        },
        _ => arith_operand(t),
    };
    (a, b)
}

pub fn gen_prog(t: &mut Tape, cfg: &GenCfg) -> Prog {
    let mut g = Gen{
        t, cfg: cfg.clone(), scopes: vec![vec![]], fresh: 0, loop_depth: 0, fn_depth: 0,
        ret_ty: vec![], this_ty: vec![], depth: 0, budget: 400,
    };
    let n = 1 + g.t.pick(g.cfg.max_top);
    let mut stmts = vec![];
    for _ in 0..n {
        g.stmt(&mut stmts);
        if g.budget <= 0 {
            break;
        }
    }
    // Drawn last, so that the statements decoded from a given tape prefix do
    // not depend on it: one program in six runs its whole text more than once
    // (called twice, as the body of a three-turn loop, or re-entered while an
    // outer activation of the same text is suspended half way).
    if g.t.chance(1, 6) {
        stmts = replayed(stmts, g.t.pick(4), g.t.pick(8));
    }
    Prog::new(stmts)
}

pub fn replay_mode(p: &Prog) -> Option<&'static str> {
    match p.stmts.first().map(|s| &s.k) {
        Some(SK::FuncDecl(n, ..)) if n == "run_" => Some("called twice"),
        Some(SK::FuncDecl(n, ..)) if n == "again_" => Some("re-entered"),
        Some(SK::For(Expr{k: EK::Var(n), ..}, ..)) if n == "rep_" => Some("three loop turns"),
        Some(SK::Declare(Expr{k: EK::Var(n), ..}, _)) if n == "keep_" => Some("closure per turn, called later"),
        _ => None,
    }
}

// The same program text evaluated several times.
pub fn replayed(stmts: Vec<Stmt>, mode: usize, cut: usize) -> Vec<Stmt> {
    match mode {
        0 => vec![fn_decl("run_", vec![], false, stmts), expr_stmt(call(var("run_"), vec![])), expr_stmt(call(var("run_"), vec![]))],
        1 => vec![for_(var("rep_"), list(vec![int(0), int(1), int(2)]), stmts)],
        2 => {
            // Re-entered: the inner activation runs between two statements
            // of the outer one, whose declarations are live meanwhile.
            let k = cut.min(stmts.len());
            let mut body: Vec<Stmt> = stmts[..k].to_vec();
            body.push(if_(bin(Op::Gt, var("n_"), int(0)), vec![expr_stmt(call(var("again_"), vec![bin(Op::Sub, var("n_"), int(1))]))], None));
            body.extend(stmts[k..].iter().cloned());
            vec![fn_decl("again_", vec![var("n_")], false, body), expr_stmt(call(var("again_"), vec![int(2)]))]
        },
        _ => {
            // A closure per turn, kept and called after the loop.
            vec![
                declare(var("keep_"), list(vec![])),
                for_(var("rep_"), list(vec![int(0), int(1)]), vec![op_assign(var("keep_"), Op::Sum, list(vec![func(vec![], false, stmts)]))]),
                for_(list(vec![var("_"), var("g_")]), var("keep_"), vec![expr_stmt(call(var("g_"), vec![]))]),
                expr_stmt(call(index(var("keep_"), int(0)), vec![])),
            ]
        },
    }
}

impl Gen<'_> {
    fn fresh(&mut self, prefix: &str) -> String {
        self.fresh += 1;
        if self.cfg.big && self.fresh % 7 == 3 {
            return format!("{prefix}_a_rather_long_identifier_with_many_parts_{}", self.fresh);
        }
        format!("{prefix}{}", self.fresh)
    }

    fn declare(&mut self, name: &str, ty: Ty, assignable: bool) {
        self.scopes.last_mut().unwrap().push(VarInfo{name: name.to_string(), ty, assignable});
    }

    fn visible(&self) -> Vec<VarInfo> {
        // Innermost first; shadowed names hidden.
        let mut out: Vec<VarInfo> = vec![];
        for sc in self.scopes.iter().rev() {
            for v in sc.iter().rev() {
                if !out.iter().any(|o| o.name == v.name) {
                    out.push(v.clone());
                }
            }
        }
        out
    }

    fn vars_of(&self, pred: &dyn Fn(&Ty) -> bool) -> Vec<VarInfo> {
        self.visible().into_iter().filter(|v| pred(&v.ty)).collect()
    }

    fn sloppy(&mut self) -> bool {
        self.cfg.sloppy > 0 && self.t.chance(self.cfg.sloppy, 100)
    }

    // ------------------------------------------------------------- types

    fn small_ty(&mut self, depth: usize) -> Ty {
        let w: &[u32] = if depth == 0 { &[5, 2, 3, 0, 0] } else { &[5, 2, 3, 3, 3] };
        match self.t.weighted(w) {
            0 => Ty::Int,
            1 => Ty::Bool,
            2 => Ty::Str,
            3 => {
                let e = self.small_ty(depth - 1);
                let mut n = self.t.pick(4);
                if self.cfg.big && e == Ty::Int && self.t.chance(1, 3) {
                    n = [17, 21, 32, 33, 64, 65, 100][self.t.pick(7)];
                }
                Ty::List(Box::new(e), n)
            },
            _ => {
                let n = 1 + self.t.pick(3);
                let mut fields: Vec<(String, Ty)> = vec![];
                for _ in 0..n {
                    let k = KEYS[self.t.pick(KEYS.len())].to_string();
                    if fields.iter().any(|(f, _)| *f == k) {
                        continue;
                    }
                    let ty = self.small_ty(depth - 1);
                    fields.push((k, ty));
                }
                Ty::Obj(fields)
            },
        }
    }

    // ------------------------------------------------------- expressions

    fn int_lit(&mut self) -> Expr {
        if self.cfg.big_ints && self.t.chance(1, 6) {
            let big = [i64::MAX, i64::MAX - 1, -i64::MAX, 1 << 62, 3037000500, -3037000500, 1 << 32, (1 << 31) - 1, 4611686018427387904, 0];
            return int(big[self.t.pick(big.len())]);
        }
        if self.cfg.big && self.t.chance(1, 5) {
            let odd = [1000003i64, 65536, 65537, 4294967297, 1234567890123, 99999, 100000, 255, 256, 257, 1024, 123456789, 9007199254740993, 16777217];
            let v = odd[self.t.pick(odd.len())];
            return int(if self.t.chance(1, 4) { -v } else { v });
        }
        let v = self.t.range(0, 12) - 2;
        if self.t.chance(1, 12) {
            let mag = v.unsigned_abs();
            return ex(EK::Int{v, text: Some(format!("0_{mag}"))});
        }
        int(v)
    }

    fn str_lit(&mut self) -> Expr {
        if self.cfg.big && self.t.chance(1, 6) {
            let unit = ["abcdefghij", "0123456789", "é日x ", "ab\ncd", "-"][self.t.pick(5)];
            let reps = [13, 26, 40, 100][self.t.pick(4)];
            let mut e = string(&unit.repeat(reps));
            self.respell(&mut e);
            return e;
        }
        let n = if self.cfg.unicode { WORDS.len() } else { 6 };
        let w = WORDS[self.t.pick(n)];
        let mut e = string(w);
        if self.t.chance(1, 8) {
            if let EK::Str(cs) = &mut e.k {
                for c in cs.iter_mut() {
                    if c.0.is_ascii_alphanumeric() {
                        c.1 = Spell::Hex;
                    }
                }
            }
        }
        self.respell(&mut e);
        e
    }

    // A line break written as itself inside the literal; U+0080..U+00FF as
    // `\xHH` where the configuration allows it.
    fn respell(&mut self, e: &mut Expr) {
        let raw_nl = self.t.chance(1, 3);
        let latin = self.cfg.hex_latin && self.t.chance(1, 3);
        let each = |cs: &mut Vec<(char, Spell)>| {
            for c in cs.iter_mut() {
                if (c.0 == '\n' || c.0 == '\r') && raw_nl {
                    c.1 = Spell::Raw;
                }
                if latin && (0x80..0x100).contains(&(c.0 as u32)) {
                    c.1 = Spell::HexLatin;
                }
            }
        };
        match &mut e.k {
            EK::Str(cs) => each(cs),
            EK::Interp(parts) => for p in parts.iter_mut() {
                if let StrPart::Text(cs) = p {
                    each(cs);
                }
            },
            _ => {},
        }
    }

    // A deliberately wrong or random-typed expression.
    fn wrong(&mut self, d: usize) -> Expr {
        match self.t.pick(8) {
            0 => null(),
            1 => var(&format!("undef{}", self.t.pick(3))),
            2 => boolean(true),
            3 => string("s"),
            4 => list(vec![]),
            5 => obj(vec![]),
            6 => int(-1),
            _ => {
                let ty = self.small_ty(1);
                self.expr(&ty, d)
            },
        }
    }

    pub fn expr(&mut self, ty: &Ty, d: usize) -> Expr {
        self.budget -= 1;
        if self.sloppy() {
            return self.wrong(d.saturating_sub(1));
        }
        // Leaves from the context: variables, fields, elements of this type.
        let mut leaves: Vec<Expr> = vec![];
        for v in self.visible() {
            if &v.ty == ty {
                leaves.push(var(&v.name));
            }
            match &v.ty {
                Ty::Obj(fields) => {
                    for (k, fty) in fields {
                        if fty == ty && !matches!(fty, Ty::Fn(_)) {
                            leaves.push(if is_ident(k) { prop(var(&v.name), k) } else { index(var(&v.name), string(k)) });
                            leaves.push(index(var(&v.name), string(k)));
                        }
                    }
                },
                Ty::List(e, n) if **e == *ty && *n > 0 => {
                    leaves.push(index(var(&v.name), int((*n - 1) as i64)));
                    leaves.push(index(var(&v.name), int(0)));
                },
                _ => {},
            }
        }
        if let Some(Some(fields)) = self.this_ty.last() {
            for (k, fty) in fields.clone() {
                if fty == *ty {
                    leaves.push(prop(var("this"), &k));
                }
            }
        }
        let use_leaf = !leaves.is_empty() && (d == 0 || self.t.chance(2, 5));
        if use_leaf {
            let i = self.t.pick(leaves.len());
            return leaves.swap_remove(i);
        }
        // Calls of functions in scope that return this type.
        if d > 0 && self.budget > 0 && self.t.chance(1, 4) {
            let fs: Vec<VarInfo> = self.vars_of(&|t| matches!(t, Ty::Fn(s) if s.ret == *ty && s.this.is_none()));
            if !fs.is_empty() {
                let f = fs[self.t.pick(fs.len())].clone();
                if let Ty::Fn(sig) = &f.ty {
                    return self.call_of(var(&f.name), sig, d - 1);
                }
            }
        }
        match ty {
            Ty::Null => null(),
            Ty::Int => self.int_expr(d),
            Ty::Bool => self.bool_expr(d),
            Ty::Str => self.str_expr(d),
            Ty::List(e, n) => self.list_expr(e, *n, d),
            Ty::Obj(fields) => self.obj_expr(fields, d),
            Ty::Fn(sig) => self.fn_expr(sig),
            Ty::Opaque => null(),
        }
    }

    fn int_expr(&mut self, d: usize) -> Expr {
        if d == 0 {
            return self.int_lit();
        }
        match self.t.weighted(&[4, 6, 2, 1, 1, 1]) {
            0 => self.int_lit(),
            1 => {
                let op = [Op::Sum, Op::Sub, Op::Mul][self.t.pick(3)];
                let l = self.expr(&Ty::Int, d - 1);
                let r = self.expr(&Ty::Int, d - 1);
                bin(op, l, r)
            },
            2 => {
                let op = [Op::Div, Op::Mod][self.t.pick(2)];
                let l = self.expr(&Ty::Int, d - 1);
                let r = if self.t.chance(1, 10) { self.expr(&Ty::Int, d - 1) } else { int([1, 2, 3, 7, -2][self.t.pick(5)]) };
                bin(op, l, r)
            },
            3 => {
                let s = self.expr(&Ty::Str, d - 1);
                call(tprop(s, "len"), vec![])
            },
            4 => {
                // Element of a fresh range.
                let a = self.t.range(0, 3);
                let n = self.t.range(1, 4);
                let i = self.t.pick(n as usize) as i64;
                index(paren_if_needed(range(int(a), int(a + n))), int(i))
            },
            _ => paren(self.int_lit()),
        }
    }

    fn bool_expr(&mut self, d: usize) -> Expr {
        if d == 0 {
            return boolean(self.t.chance(1, 2));
        }
        match self.t.weighted(&[3, 5, 3, 3, 1]) {
            0 => boolean(self.t.chance(1, 2)),
            1 => {
                let op = [Op::Lt, Op::Lte, Op::Gt, Op::Gte, Op::Eq, Op::Ne][self.t.pick(6)];
                let l = self.expr(&Ty::Int, d - 1);
                let r = self.expr(&Ty::Int, d - 1);
                bin(op, l, r)
            },
            2 => {
                let op = [Op::And, Op::Or][self.t.pick(2)];
                let l = self.expr(&Ty::Bool, d - 1);
                let r = self.expr(&Ty::Bool, d - 1);
                bin(op, l, r)
            },
            3 => {
                let ty = self.small_ty(1);
                let op = [Op::Eq, Op::Ne][self.t.pick(2)];
                let l = self.expr(&ty, d - 1);
                let r = self.expr(&ty, d - 1);
                bin(op, l, r)
            },
            _ => {
                // Identity of containers in scope.
                let cs = self.vars_of(&|t| matches!(t, Ty::List(..) | Ty::Obj(_)));
                if cs.len() >= 1 {
                    let a = cs[self.t.pick(cs.len())].clone();
                    let same: Vec<&VarInfo> = cs.iter().filter(|c| std::mem::discriminant(&c.ty) == std::mem::discriminant(&a.ty)).collect();
                    let b = same[self.t.pick(same.len())].clone();
                    let op = [Op::RefEq, Op::RefNe][self.t.pick(2)];
                    bin(op, var(&a.name), var(&b.name))
                } else {
                    boolean(false)
                }
            },
        }
    }

    fn str_expr(&mut self, d: usize) -> Expr {
        if d == 0 {
            return self.str_lit();
        }
        match self.t.weighted(&[4, 4, 2, 2, 2, 1]) {
            0 => self.str_lit(),
            1 => {
                let l = self.expr(&Ty::Str, d - 1);
                let r = self.expr(&Ty::Str, d - 1);
                bin(Op::Sum, l, r)
            },
            2 if self.cfg.interp => {
                let n = 1 + self.t.pick(2);
                let mut parts = vec![];
                for _ in 0..n {
                    let w = WORDS[self.t.pick(if self.cfg.unicode { WORDS.len() } else { 6 })];
                    parts.push(StrPart::Text(w.chars().map(|c| (c, natural_spell(c))).collect()));
                    let mut e = self.expr(&Ty::Str, d - 1);
                    strip_braces_from_strings(&mut e);
                    parts.push(StrPart::Slot(Box::new(e)));
                }
                let w = WORDS[self.t.pick(6)];
                parts.push(StrPart::Text(w.chars().map(|c| (c, natural_spell(c))).collect()));
                let mut e = ex(EK::Interp(parts));
                self.respell(&mut e);
                e
            },
            3 => {
                let ty = self.small_ty(1);
                let e = self.expr(&ty, d - 1);
                call(tprop(paren_if_needed(e), "type"), vec![])
            },
            4 => {
                // Slice / index of an ASCII literal.
                let w = ["abcdef", "hello", "xyz"][self.t.pick(3)];
                let len = w.len();
                let a = self.t.pick(len + 1);
                let b = a + self.t.pick(len + 1 - a);
                match self.t.pick(4) {
                    0 => range_index(string(w), Some(int(a as i64)), Some(int(b as i64))),
                    1 => range_index(string(w), None, Some(int(b as i64))),
                    2 => range_index(string(w), Some(int(a as i64)), None),
                    _ => index(string(w), int(self.t.pick(len) as i64)),
                }
            },
            _ => self.str_lit(),
        }
    }

    fn list_expr(&mut self, e: &Ty, n: usize, d: usize) -> Expr {
        // Building forms that keep the static length `n`.
        if d > 0 && self.t.chance(1, 3) {
            // Split as a + b or spread.
            let k = self.t.pick(n + 1);
            let l = self.expr(&Ty::List(Box::new(e.clone()), k), d - 1);
            let r = self.expr(&Ty::List(Box::new(e.clone()), n - k), d - 1);
            return match self.t.pick(3) {
                0 => bin(Op::Sum, l, r),
                1 => list_items(vec![spread(l), spread(r)], false),
                _ => {
                    let whole = bin(Op::Sum, l, r);
                    range_index(paren_if_needed(whole), None, None)
                },
            };
        }
        if *e == Ty::Int && n > 0 && self.t.chance(1, 5) {
            let a = self.t.range(-2, 5);
            return range(int(a), int(a + n as i64));
        }
        let mut items = vec![];
        for _ in 0..n {
            items.push(self.expr(e, d.saturating_sub(1)));
        }
        list(items)
    }

    fn obj_expr(&mut self, fields: &[(String, Ty)], d: usize) -> Expr {
        let mut props = vec![];
        // Start from a spread of an object in scope that has exactly these
        // fields; the explicit entries after it replace the inlined ones.
        if !fields.is_empty() && self.t.chance(1, 6) {
            let want = Ty::Obj(fields.to_vec());
            let cands: Vec<VarInfo> = self.vars_of(&|t| *t == want);
            if !cands.is_empty() {
                let c = cands[self.t.pick(cands.len())].clone();
                props.push(Prop::Single{e: var(&c.name), spread: true, collect: false});
                let keep = self.t.pick(fields.len() + 1);
                for (k, ty) in fields.iter().take(keep) {
                    let v = self.expr(ty, d.saturating_sub(1));
                    props.push(Prop::Pair(string(k), v));
                }
                return obj(props);
            }
        }
        // Optionally start from a spread of an object with a subset of keys.
        for (k, ty) in fields {
            let v = self.expr(ty, d.saturating_sub(1));
            match self.t.pick(6) {
                0 => props.push(Prop::Pair(bin(Op::Sum, string(""), string(k)), v)),
                _ => props.push(Prop::Pair(string(k), v)),
            }
        }
        if self.t.chance(1, 6) && !fields.is_empty() {
            // A duplicate earlier entry that the later one replaces.
            let (k, _) = &fields[0];
            props.insert(0, Prop::Pair(string(k), null()));
        }
        obj(props)
    }

    fn fn_expr(&mut self, sig: &Rc<FnSig>) -> Expr {
        let (params, collect, body) = self.fn_parts(sig);
        func(params, collect, body)
    }

    fn call_of(&mut self, callee: Expr, sig: &Rc<FnSig>, d: usize) -> Expr {
        let mut args: Vec<Item> = vec![];
        let mut i = 0;
        while i < sig.params.len() {
            // Sometimes pass two consecutive same-typed parameters by spread.
            if i + 1 < sig.params.len() && sig.params[i] == sig.params[i + 1] && self.t.chance(1, 6) {
                let l = self.expr(&Ty::List(Box::new(sig.params[i].clone()), 2), d);
                args.push(spread(l));
                i += 2;
                continue;
            }
            let a = self.expr(&sig.params[i].clone(), d);
            args.push(item(a));
            i += 1;
        }
        if let Some(r) = &sig.rest {
            let n = self.t.pick(3);
            for _ in 0..n {
                let a = self.expr(&r.clone(), d);
                args.push(item(a));
            }
        }
        if self.sloppy() {
            args.pop();
        }
        call_items(callee, args)
    }

    // ---------------------------------------------------------- functions

    fn new_sig(&mut self, this: Option<Vec<(String, Ty)>>) -> Rc<FnSig> {
        let n = self.t.pick(3);
        let mut params = vec![];
        for _ in 0..n {
            params.push(self.small_ty(1));
        }
        let rest = if self.t.chance(1, 5) { Some(self.small_ty(0)) } else { None };
        let ret = if self.t.chance(1, 5) { Ty::Null } else { self.small_ty(1) };
        Rc::new(FnSig{params, rest, ret, this})
    }

    fn fn_parts(&mut self, sig: &Rc<FnSig>) -> (Vec<Expr>, bool, Vec<Stmt>) {
        self.scopes.push(vec![]);
        self.fn_depth += 1;
        let saved_loop = self.loop_depth;
        self.loop_depth = 0;
        self.ret_ty.push(sig.ret.clone());
        self.this_ty.push(sig.this.clone());
        let mut params = vec![];
        for ty in &sig.params {
            // Sometimes destructure a list / object parameter.
            match ty {
                Ty::List(e, n) if *n > 0 && *n <= 3 && self.t.chance(1, 4) => {
                    let mut names = vec![];
                    for _ in 0..*n {
                        let nm = self.fresh("p");
                        self.declare(&nm, (**e).clone(), true);
                        names.push(var(&nm));
                    }
                    params.push(list(names));
                },
                Ty::Obj(fields) if !fields.is_empty() && self.t.chance(1, 4) => {
                    let mut props = vec![];
                    for (k, fty) in fields {
                        let nm = self.fresh("p");
                        self.declare(&nm, fty.clone(), true);
                        props.push(Prop::Pair(string(k), var(&nm)));
                    }
                    params.push(obj(props));
                },
                _ => {
                    let nm = self.fresh("p");
                    self.declare(&nm, ty.clone(), true);
                    params.push(var(&nm));
                },
            }
        }
        let collect = sig.rest.is_some();
        if let Some(_r) = &sig.rest {
            let nm = self.fresh("r");
            // Length unknown: not registered as a typed variable; printed.
            params.push(var(&nm));
            self.scopes.last_mut().unwrap().push(VarInfo{name: nm, ty: Ty::Opaque, assignable: false});
        }
        let mut body = vec![];
        if collect {
            let nm = match &params.last().unwrap().k { EK::Var(n) => n.clone(), _ => unreachable!() };
            if sig.rest.as_ref().map(printable).unwrap_or(false) {
                body.push(print(var(&nm)));
            }
        }
        let n = self.t.pick(self.cfg.max_block + 1);
        self.depth += 1;
        for _ in 0..n {
            self.stmt(&mut body);
        }
        self.depth -= 1;
        // Final return of the declared type (Null = run off the end or
        // return null).
        if sig.ret != Ty::Null || self.t.chance(1, 3) {
            let r = self.expr(&sig.ret.clone(), self.cfg.expr_depth.saturating_sub(1));
            body.push(ret(r));
        }
        self.this_ty.pop();
        self.ret_ty.pop();
        self.loop_depth = saved_loop;
        self.fn_depth -= 1;
        self.scopes.pop();
        (params, collect, body)
    }

    // ---------------------------------------------------------- statements

    // Statements generated into the current generator scope (for bodies
    // whose run-time frame is the one that already holds the loop target /
    // body-level declarations).
    fn stmts_here(&mut self, out: &mut Vec<Stmt>, min: usize) {
        self.depth += 1;
        let n = min + self.t.pick(self.cfg.max_block);
        for _ in 0..n {
            self.stmt(out);
        }
        self.depth -= 1;
    }

    fn block(&mut self, out: &mut Vec<Stmt>, min: usize) {
        self.scopes.push(vec![]);
        self.depth += 1;
        let n = min + self.t.pick(self.cfg.max_block);
        for _ in 0..n {
            self.stmt(out);
        }
        self.depth -= 1;
        self.scopes.pop();
    }

    fn printable_expr(&mut self) -> Expr {
        let d = self.cfg.expr_depth;
        // Prefer printing something in scope.
        let vs: Vec<VarInfo> = self.vars_of(&printable);
        if !vs.is_empty() && self.t.chance(1, 2) {
            let v = vs[self.t.pick(vs.len())].clone();
            return var(&v.name);
        }
        let ty = self.small_ty(2);
        self.expr(&ty, d)
    }

    // Compositions that individual statement kinds rarely produce by chance.
    fn idiom(&mut self, out: &mut Vec<Stmt>) {
        let d = self.cfg.expr_depth;
        match self.t.pick(18) {
            16 | 17 => {
                // The tagged-record idiom: a key of an object pattern that
                // reads a name bound by an earlier item of the same pattern;
                // in every binding position, with or without a rest, with
                // or without an outer variable of the same name.
                let kind = self.fresh("kind");
                let payload = self.fresh("payload");
                let meta = self.fresh("meta");
                let tags = ["text", "code", "id"];
                let tag = tags[self.t.pick(3)];
                let msg = obj(vec![pair("kind", string(tag)), pair("text", string("hello")), pair("code", list(vec![int(1), int(2)])), pair("id", int(self.t.range(0, 9)))]);
                let with_rest = self.t.chance(1, 2);
                let mut props = vec![Prop::Pair(string("kind"), var(&kind)), Prop::Pair(if self.t.chance(1, 3) { bin(Op::Sum, var(&kind), string("")) } else { var(&kind) }, var(&payload))];
                if with_rest {
                    props.push(Prop::Single{e: var(&meta), spread: false, collect: true});
                }
                let pat = obj(props);
                let mut show = vec![print(var(&kind)), print(var(&payload))];
                if with_rest {
                    show.push(print(var(&meta)));
                }
                let outer = self.t.chance(1, 2);
                let mut body = vec![];
                match self.t.pick(4) {
                    0 => {
                        body.push(declare(pat, msg));
                        body.extend(show);
                    },
                    1 => {
                        body.push(declare(var(&kind), string("id")));
                        body.push(declare(var(&payload), null()));
                        if with_rest {
                            body.push(declare(var(&meta), null()));
                        }
                        body.push(assign(pat, msg));
                        body.extend(show);
                    },
                    2 => body.push(for_(list(vec![var("_"), pat]), list(vec![msg.clone(), msg]), show)),
                    _ => {
                        let f = self.fresh("unpack");
                        show.push(ret(var(&payload)));
                        body.push(fn_decl(&f, vec![pat], false, show));
                        body.push(print(call(var(&f), vec![msg])));
                    },
                }
                if outer {
                    // An outer variable of the same name whose value is a key
                    // of the record too: a key resolved too early finds it.
                    out.push(block(vec![declare(var(&kind), string("id")), block(body)]));
                } else {
                    out.push(block(body));
                }
            },
            14 | 15 => {
                // A value that travels a route of 2..6 hops (stored in a
                // container, spread, destructured, captured, passed, returned,
                // iterated, kept in a property) before it is used: identity,
                // aliasing and the `this` of a method must survive every hop.
                let kind = self.t.pick(4);
                let src = self.fresh("src");
                let host = self.fresh("host");
                let idf = self.fresh("idf");
                let pickf = self.fresh("pick");
                out.push(fn_decl(&idf, vec![var("x")], false, vec![ret(var("x"))]));
                out.push(fn_decl(&pickf, vec![var("i"), var("r")], true, vec![ret(index(var("r"), var("i")))]));
                out.push(declare(var(&host), obj(vec![pair("tag", string("H")), pair("tmp", null())])));
                self.declare(&idf, Ty::Opaque, false);
                self.declare(&pickf, Ty::Opaque, false);
                self.declare(&host, Ty::Opaque, false);
                let owner = self.fresh("own");
                let init = match kind {
                    0 => list(vec![int(1), int(2), int(3)]),
                    1 => obj(vec![pair("k", int(1)), pair("l", list(vec![int(2)]))]),
                    2 => {
                        // A counter closure: calls through any alias advance one state.
                        let c = self.fresh("cnt");
                        out.push(declare(var(&c), int(0)));
                        self.declare(&c, Ty::Int, false);
                        func(vec![], false, vec![op_assign(var(&c), Op::Sum, int(1)), ret(var(&c))])
                    },
                    _ => {
                        out.push(declare(var(&owner), obj(vec![pair("tag", string("O")), pair("who", func(vec![], false, vec![ret(prop(var("this"), "tag"))]))])));
                        self.declare(&owner, Ty::Opaque, false);
                        prop(var(&owner), "who")
                    },
                };
                out.push(declare(var(&src), init));
                self.declare(&src, Ty::Opaque, false);
                let mut cur = src.clone();
                let hops = 2 + self.t.pick(5);
                for _ in 0..hops {
                    let nxt = self.fresh("hop");
                    let c = var(&cur);
                    match self.t.pick(12) {
                        0 => out.push(declare(var(&nxt), index(list(vec![c]), int(0)))),
                        1 => out.push(declare(var(&nxt), prop(paren(obj(vec![pair("k", c)])), "k"))),
                        2 => out.push(declare(list(vec![var(&nxt)]), list(vec![c]))),
                        3 => out.push(declare(obj(vec![Prop::Pair(string("k"), var(&nxt))]), obj(vec![pair("k", c)]))),
                        4 => {
                            let r = self.fresh("rest");
                            out.push(declare(list_items(vec![item(var("_")), item(var(&r))], true), list(vec![int(0), c])));
                            self.declare(&r, Ty::Opaque, false);
                            out.push(declare(var(&nxt), index(var(&r), int(0))));
                        },
                        5 => out.push(declare(var(&nxt), call(var(&idf), vec![c]))),
                        6 => out.push(declare(var(&nxt), call(func(vec![], false, vec![ret(c)]), vec![]))),
                        7 => out.push(declare(var(&nxt), index(list_items(vec![spread(list(vec![c]))], false), int(0)))),
                        8 => {
                            out.push(declare(var(&nxt), null()));
                            out.push(for_(list(vec![var("_"), var("e")]), list(vec![c]), vec![assign(var(&nxt), var("e"))]));
                        },
                        9 => out.push(declare(var(&nxt), call_items(var(&pickf), vec![item(int(1)), spread(list(vec![int(0), c]))]))),
                        10 => {
                            // Kept in a property and read back: for a function
                            // this re-homes its `this`.
                            out.push(assign(prop(var(&host), "tmp"), c));
                            out.push(declare(var(&nxt), prop(var(&host), "tmp")));
                        },
                        _ => {
                            out.push(assign(index(var(&host), string("tmp")), c));
                            out.push(declare(var(&nxt), index(var(&host), bin(Op::Sum, string("t"), string("mp")))));
                        },
                    }
                    self.declare(&nxt, Ty::Opaque, false);
                    cur = nxt;
                }
                let end = var(&cur);
                match kind {
                    0 => {
                        out.push(op_assign(index(end.clone(), int(0)), Op::Sum, int(10)));
                        out.push(assign(range_index(end.clone(), Some(int(1)), Some(int(2))), list(vec![int(7)])));
                        out.push(print(var(&src)));
                        out.push(print(bin(Op::RefEq, end.clone(), var(&src))));
                        out.push(op_assign(end.clone(), Op::Sum, list(vec![int(4)])));
                        out.push(print(bin(Op::RefEq, end, var(&src))));
                        out.push(print(var(&src)));
                    },
                    1 => {
                        out.push(assign(prop(end.clone(), "k"), int(5)));
                        out.push(op_assign(index(prop(end.clone(), "l"), int(0)), Op::Mul, int(3)));
                        out.push(assign(index(end.clone(), string("n")), int(9)));
                        out.push(print(var(&src)));
                        out.push(print(bin(Op::RefEq, end, var(&src))));
                    },
                    2 => {
                        out.push(print(call(end.clone(), vec![])));
                        out.push(print(call(var(&src), vec![])));
                        out.push(print(call(end.clone(), vec![])));
                        out.push(print(bin(Op::RefEq, end, var(&src))));
                    },
                    _ => {
                        out.push(print(call(end, vec![])));
                        out.push(print(call(var(&src), vec![])));
                        out.push(print(call(prop(var(&owner), "who"), vec![])));
                    },
                }
            },
            12 => {
                // Arithmetic on operands away from the classic boundaries.
                let (a, b) = arith_pair(self.t);
                // The minimum has no literal; it is written as an expression.
                let int = |v: i64| if v == i64::MIN { paren(bin(Op::Sub, int(-i64::MAX), int(1))) } else { int(v) };
                let op = [Op::Mul, Op::Mul, Op::Mul, Op::Sum, Op::Sub, Op::Div, Op::Mod][self.t.pick(7)];
                let v = self.fresh("n");
                match self.t.pick(3) {
                    0 => {
                        out.push(print(bin(op, int(a), int(b))));
                    },
                    1 => {
                        out.push(declare(var(&v), int(a)));
                        self.declare(&v, Ty::Int, true);
                        out.push(print(bin(op, var(&v), int(b))));
                    },
                    _ => {
                        out.push(declare(var(&v), int(a)));
                        self.declare(&v, Ty::Int, true);
                        out.push(op_assign(var(&v), op, int(b)));
                        out.push(print(var(&v)));
                    },
                }
            },
            13 => {
                // Methods read off their objects, kept in lists that are then
                // concatenated, sliced and copied before the calls.
                let o1 = self.fresh("ob");
                let o2 = self.fresh("ob");
                let ms = self.fresh("ms");
                let who = func(vec![], false, vec![ret(prop(var("this"), "tag"))]);
                out.push(declare(var(&o1), obj(vec![pair("tag", string("p")), pair("who", who.clone())])));
                out.push(declare(var(&o2), obj(vec![pair("tag", string("q")), pair("who", who)])));
                self.declare(&o1, Ty::Opaque, false);
                self.declare(&o2, Ty::Opaque, false);
                let l1 = list(vec![prop(var(&o1), "who")]);
                let l2 = list(vec![prop(var(&o2), "who"), prop(var(&o1), "who")]);
                let built = match self.t.pick(5) {
                    0 => bin(Op::Sum, l1, l2),
                    1 => list_items(vec![spread(l1), spread(l2)], false),
                    2 => range_index(bin(Op::Sum, l1, l2), Some(int(0)), None),
                    3 => bin(Op::Sum, bin(Op::Sum, list(vec![]), l1), l2),
                    _ => bin(Op::Sum, l2, l1),
                };
                out.push(declare(var(&ms), built));
                self.declare(&ms, Ty::Opaque, false);
                if self.t.chance(1, 2) {
                    out.push(op_assign(var(&ms), Op::Sum, list(vec![prop(var(&o2), "who")])));
                }
                for i in 0..3 {
                    out.push(print(call(index(var(&ms), int(i)), vec![])));
                }
            },
            0 | 1 => {
                // Closures created in a loop body over a body-level variable,
                // kept outside the loop and called afterwards.
                let fs = self.fresh("fs");
                out.push(declare(var(&fs), list(vec![])));
                self.declare(&fs, Ty::Opaque, false);
                let n = if self.cfg.big && self.t.chance(1, 2) { [17, 20, 33, 34, 64, 65, 70, 100][self.t.pick(8)] } else { self.t.range(2, 3) };
                let v = self.fresh("w");
                let k = self.t.range(1, 9);
                let step = self.t.range(1, 3);
                let mk = func(vec![], false, vec![op_assign(var(&v), Op::Sum, int(step)), ret(var(&v))]);
                let use_for = self.t.chance(1, 2);
                let cv = self.fresh("i");
                let mut body = vec![];
                if !use_for {
                    body.push(op_assign(var(&cv), Op::Sum, int(1)));
                }
                body.push(declare(var(&v), bin(Op::Mul, var(&cv), int(k))));
                body.push(assign(var(&fs), bin(Op::Sum, var(&fs), list(vec![mk]))));
                self.scopes.push(vec![]);
                self.declare(&cv, Ty::Int, false);
                self.declare(&v, Ty::Int, true);
                self.loop_depth += 1;
                self.stmts_here(&mut body, 0);
                self.loop_depth -= 1;
                self.scopes.pop();
                if use_for {
                    out.push(for_(list(vec![var("_"), var(&cv)]), range(int(1), int(1 + n)), body));
                } else {
                    out.push(declare(var(&cv), int(0)));
                    self.declare(&cv, Ty::Int, false);
                    out.push(while_(bin(Op::Lt, var(&cv), int(n)), body));
                }
                let calls = 2 + self.t.pick(3);
                for _ in 0..calls {
                    let i = self.t.pick(n as usize) as i64;
                    out.push(print(call(index(var(&fs), int(i)), vec![])));
                }
            },
            2 => {
                // `+=` on an aliased list, observed through the other name.
                let a = self.fresh("a");
                let b = self.fresh("b");
                let e = self.small_ty(0);
                let n = self.t.pick(3);
                let init = self.expr(&Ty::List(Box::new(e.clone()), n), d);
                out.push(declare(var(&a), init));
                out.push(declare(var(&b), var(&a)));
                let m = self.t.pick(3);
                let extra = self.expr(&Ty::List(Box::new(e.clone()), m), d - 1);
                out.push(op_assign(var(&b), Op::Sum, extra));
                self.declare(&a, Ty::List(Box::new(e.clone()), n), true);
                self.declare(&b, Ty::List(Box::new(e.clone()), n + m), true);
                out.push(print(var(&a)));
                out.push(print(bin(Op::RefEq, var(&a), var(&b))));
                if n > 0 {
                    let x = self.expr(&e, 0);
                    out.push(assign(index(var(&b), int(0)), x));
                    out.push(print(var(&a)));
                }
            },
            3 => {
                // `+=` with a list on an element / property that has another
                // reference.
                let o = self.fresh("o");
                let before = self.fresh("q");
                let via_list = self.t.chance(1, 2);
                let inner = list(vec![int(self.t.range(0, 9))]);
                if via_list {
                    out.push(declare(var(&o), list(vec![inner])));
                    out.push(declare(var(&before), index(var(&o), int(0))));
                    out.push(op_assign(index(var(&o), int(0)), Op::Sum, list(vec![int(7)])));
                    out.push(print(var(&before)));
                    out.push(print(bin(Op::RefEq, var(&before), index(var(&o), int(0)))));
                } else {
                    out.push(declare(var(&o), obj(vec![pair("k", inner)])));
                    out.push(declare(var(&before), prop(var(&o), "k")));
                    let target = if self.t.chance(1, 2) { prop(var(&o), "k") } else { index(var(&o), string("k")) };
                    out.push(op_assign(target, Op::Sum, list(vec![int(7)])));
                    out.push(print(var(&before)));
                    out.push(print(bin(Op::RefEq, var(&before), prop(var(&o), "k"))));
                }
                self.declare(&o, Ty::Opaque, false);
                self.declare(&before, Ty::Opaque, false);
                out.push(print(var(&o)));
            },
            4 => {
                // Shadowing plus operation-assignment in an inner scope.
                let outer: Vec<VarInfo> = self.vars_of(&|t| matches!(t, Ty::Int | Ty::Str));
                if outer.is_empty() {
                    out.push(print(string("noshadow")));
                    return;
                }
                let v = outer[self.t.pick(outer.len())].clone();
                let init = self.expr(&v.ty.clone(), d - 1);
                let delta = self.expr(&v.ty.clone(), d - 1);
                let op = if v.ty == Ty::Int { [Op::Sum, Op::Sub, Op::Mul][self.t.pick(3)] } else { Op::Sum };
                let inner = vec![declare(var(&v.name), init), op_assign(var(&v.name), op, delta), print(var(&v.name))];
                match self.t.pick(3) {
                    0 => out.push(block(inner)),
                    1 => out.push(if_(boolean(true), inner, None)),
                    _ => {
                        let f = self.fresh("f");
                        out.push(fn_decl(&f, vec![], false, inner));
                        self.declare(&f, Ty::Opaque, false);
                        out.push(expr_stmt(call(var(&f), vec![])));
                    },
                }
                out.push(print(var(&v.name)));
            },
            5 => {
                // A `for` whose body writes to the container it iterates.
                let xs = self.fresh("xs");
                let n = self.t.range(2, 4) as usize;
                let mut items = vec![];
                for _ in 0..n {
                    items.push(int(self.t.range(1, 9)));
                }
                let as_obj = self.t.chance(1, 3);
                let acc = self.fresh("acc");
                out.push(declare(var(&acc), int(0)));
                self.declare(&acc, Ty::Int, true);
                let k = self.fresh("k");
                let e = self.fresh("e");
                if as_obj {
                    let keys = ["a", "b", "c", "d"];
                    let props = items.into_iter().enumerate().map(|(i, v)| pair(keys[i], v)).collect();
                    out.push(declare(var(&xs), obj(props)));
                    let j = self.t.pick(n);
                    let body = vec![
                        assign(index(var(&xs), string(keys[j])), bin(Op::Mul, var(&e), int(10))),
                        op_assign(var(&acc), Op::Sum, var(&e)),
                    ];
                    out.push(for_(list(vec![var(&k), var(&e)]), var(&xs), body));
                } else {
                    out.push(declare(var(&xs), list(items)));
                    let j = self.t.pick(n) as i64;
                    let mut body =
                        if self.t.chance(1, 2) {
                            // The write happens inside a called function:
                            // the loop body itself contains no assignment.
                            let poke = self.fresh("poke");
                            out.push(fn_decl(&poke, vec![var("pi"), var("pv")], false, vec![assign(index(var(&xs), var("pi")), var("pv"))]));
                            self.declare(&poke, Ty::Opaque, false);
                            vec![
                                expr_stmt(call(var(&poke), vec![int(j), bin(Op::Mul, var(&e), int(10))])),
                                print(var(&e)),
                            ]
                        } else {
                            vec![
                                assign(index(var(&xs), int(j)), bin(Op::Mul, var(&e), int(10))),
                                op_assign(var(&acc), Op::Sum, var(&e)),
                            ]
                        };
                    if self.t.chance(1, 3) {
                        body.push(assign(var(&xs), list(vec![int(0)])));
                    }
                    out.push(for_(list(vec![var(&k), var(&e)]), var(&xs), body));
                }
                self.declare(&xs, Ty::Opaque, false);
                out.push(print(var(&acc)));
                out.push(print(var(&xs)));
            },
            6 if self.t.chance(1, 2) => {
                // A closure created before a later declaration in the same
                // scope: it sees the outer variable first, the inner one once
                // it has been declared.
                let outer: Vec<VarInfo> = self.vars_of(&|t| matches!(t, Ty::Int | Ty::Str));
                if outer.is_empty() {
                    out.push(print(string("nocapture")));
                    return;
                }
                let v = outer[self.t.pick(outer.len())].clone();
                let g = self.fresh("g");
                let init = self.expr(&v.ty.clone(), d - 1);
                let delta = self.expr(&v.ty.clone(), 0);
                let mut inner = vec![];
                if self.t.chance(1, 2) {
                    inner.push(print(var(&v.name)));
                }
                inner.push(declare(var(&g), func(vec![], false, vec![ret(var(&v.name))])));
                inner.push(print(call(var(&g), vec![])));
                inner.push(declare(var(&v.name), init));
                inner.push(print(call(var(&g), vec![])));
                inner.push(op_assign(var(&v.name), Op::Sum, delta));
                inner.push(print(call(var(&g), vec![])));
                match self.t.pick(3) {
                    0 => out.push(block(inner)),
                    1 => out.push(if_(boolean(true), inner, None)),
                    _ => {
                        let f = self.fresh("f");
                        out.push(fn_decl(&f, vec![], false, inner));
                        self.declare(&f, Ty::Opaque, false);
                        out.push(expr_stmt(call(var(&f), vec![])));
                    },
                }
                out.push(print(var(&v.name)));
            },
            6 => {
                // Recursion with fuel.
                let f = self.fresh("rec");
                let p = self.fresh("n");
                let k = self.t.range(1, 3);
                let body = vec![
                    if_(bin(Op::Lte, var(&p), int(0)), vec![ret(int(self.t.range(0, 3)))], None),
                    ret(bin(Op::Sum, bin(Op::Mul, var(&p), int(k)), call(var(&f), vec![bin(Op::Sub, var(&p), int(1))]))),
                ];
                out.push(fn_decl(&f, vec![var(&p)], false, body));
                self.declare(&f, Ty::Opaque, false);
                let fuel = if self.cfg.big && self.fn_depth == 0 { self.t.range(8, 15) } else { self.t.range(0, 5) };
                out.push(print(call(var(&f), vec![int(fuel)])));
            },
            8 => {
                // Object shorthand: `{a, "k": v, c}` from variables in scope,
                // then read back through both access paths.
                let a = self.fresh("sa");
                let c = self.fresh("sc");
                let ta = self.small_ty(1);
                let ea = self.expr(&ta, d - 1);
                let ec = self.expr(&Ty::Int, d - 1);
                out.push(declare(var(&a), ea));
                out.push(declare(var(&c), ec));
                self.declare(&a, ta.clone(), true);
                self.declare(&c, Ty::Int, true);
                let o = self.fresh("sh");
                let mid = self.expr(&Ty::Str, 0);
                out.push(declare(var(&o), obj(vec![
                    Prop::Single{e: var(&c), spread: false, collect: false},
                    Prop::Pair(string("k"), mid),
                    Prop::Single{e: var(&a), spread: false, collect: false},
                ])));
                self.declare(&o, Ty::Obj(vec![(a.clone(), ta), ("k".to_string(), Ty::Str), (c.clone(), Ty::Int)]), false);
                out.push(print(var(&o)));
                out.push(op_assign(var(&c), Op::Sum, int(1)));
                out.push(print(prop(var(&o), &c)));
            },
            9 => {
                // Functions are values: alias a function variable, pass a
                // callback, call through both.
                let f = self.fresh("hf");
                let g = self.fresh("hg");
                let ap = self.fresh("apply");
                let k = self.t.range(1, 9);
                out.push(fn_decl(&f, vec![var("hx")], false, vec![ret(bin(Op::Mul, var("hx"), int(k)))]));
                out.push(declare(var(&g), var(&f)));
                out.push(fn_decl(&ap, vec![var("cb"), var("cx")], false, vec![ret(call(var("cb"), vec![call(var("cb"), vec![var("cx")])]))]));
                self.declare(&f, Ty::Opaque, false);
                self.declare(&g, Ty::Opaque, false);
                self.declare(&ap, Ty::Opaque, false);
                let x = self.expr(&Ty::Int, d - 1);
                out.push(print(call(var(&g), vec![x])));
                out.push(print(bin(Op::RefEq, var(&f), var(&g))));
                let y = self.t.range(0, 5);
                out.push(print(call(var(&ap), vec![var(&g), int(y)])));
                out.push(print(call(var(&ap), vec![func(vec![var("ax")], false, vec![ret(bin(Op::Sum, var("ax"), int(k)))]), int(y)])));
            },
            10 => {
                // An object (and a list) grown well beyond the small scope,
                // then read, iterated, compared and destructured.
                let o = self.fresh("many");
                let xs = self.fresh("longl");
                let n = if self.cfg.big { [17, 21, 33, 40, 64][self.t.pick(5)] } else { 6 };
                let abc = "qwertyuiopasdfghjklzxcvbnmQWERTYUIOPASDFGHJKLZXCVBNM0123456789_-+";
                out.push(declare(var(&o), obj(vec![])));
                out.push(declare(var(&xs), list(vec![])));
                let i = self.fresh("gi");
                out.push(for_(list(vec![var("_"), var(&i)]), range(int(0), int(n)), vec![
                    assign(index(var(&o), range_index(string(abc), Some(var(&i)), Some(bin(Op::Sum, var(&i), int(2))))), bin(Op::Mul, var(&i), var(&i))),
                    op_assign(var(&xs), Op::Sum, list(vec![bin(Op::Sub, int(n), var(&i))])),
                ]));
                self.declare(&o, Ty::Opaque, false);
                self.declare(&xs, Ty::List(Box::new(Ty::Int), n as usize), true);
                out.push(print(var(&o)));
                let k = self.t.pick(n as usize) as i64;
                out.push(print(index(var(&o), string(&abc[k as usize..k as usize + 2]))));
                out.push(print(index(var(&xs), int(n - 1))));
                out.push(print(range_index(var(&xs), Some(int(n - 3)), None)));
                out.push(declare(list_items(vec![item(var("_")), item(var("_")), item(var(&format!("{xs}_rest")))], true), var(&xs)));
                self.declare(&format!("{xs}_rest"), Ty::List(Box::new(Ty::Int), n as usize - 2), true);
                out.push(print(bin(Op::Eq, bin(Op::Sum, range_index(var(&xs), None, Some(int(2))), var(&format!("{xs}_rest"))), var(&xs))));
                out.push(print(bin(Op::Eq, obj(vec![Prop::Single{e: var(&o), spread: true, collect: false}]), var(&o))));
                let cnt = self.fresh("cnt");
                out.push(declare(var(&cnt), int(0)));
                self.declare(&cnt, Ty::Int, true);
                out.push(for_(list(vec![var("_"), var("_")]), var(&o), vec![op_assign(var(&cnt), Op::Sum, int(1))]));
                out.push(print(var(&cnt)));
            },
            _ => {
                // A function that assigns to its parameter and mutates the
                // container it was passed.
                let f = self.fresh("mut");
                let p = self.fresh("p");
                let q = self.fresh("q");
                let xs = self.fresh("ys");
                let nn = self.fresh("m");
                out.push(declare(var(&xs), list(vec![int(1), int(2)])));
                out.push(declare(var(&nn), int(self.t.range(1, 9))));
                let body = vec![
                    assign(index(var(&p), int(0)), bin(Op::Sum, index(var(&p), int(0)), var(&q))),
                    assign(var(&q), bin(Op::Mul, var(&q), int(2))),
                    assign(var(&p), list(vec![int(0), int(0)])),
                    ret(var(&q)),
                ];
                out.push(fn_decl(&f, vec![var(&p), var(&q)], false, body));
                self.declare(&f, Ty::Opaque, false);
                self.declare(&xs, Ty::List(Box::new(Ty::Int), 2), true);
                self.declare(&nn, Ty::Int, true);
                out.push(print(call(var(&f), vec![var(&xs), var(&nn)])));
                out.push(print(var(&xs)));
                out.push(print(var(&nn)));
            },
        }
    }

    pub fn stmt(&mut self, out: &mut Vec<Stmt>) {
        self.budget -= 1;
        if self.budget <= 0 {
            out.push(print(int(0)));
            return;
        }
        let c = self.cfg.clone();
        let deep = self.depth >= c.max_depth;
        let in_loop = self.loop_depth > 0;
        let in_fn = self.fn_depth > 0;
        let w = [
            c.w_print,
            c.w_decl,
            c.w_assign,
            if deep { 0 } else { c.w_if },
            if deep { 0 } else { c.w_while },
            if deep { 0 } else { c.w_for },
            if deep { 0 } else { c.w_block },
            if deep || self.fn_depth >= 2 { 0 } else { c.w_fn },
            c.w_call,
            c.w_destructure,
            c.w_elem_assign,
            if in_loop || in_fn { c.w_jump } else { 0 },
            if deep || self.fn_depth >= 2 { 0 } else { c.w_method },
            if deep || self.fn_depth >= 2 { 0 } else { c.w_closure },
            if deep || self.fn_depth >= 2 { 0 } else { c.w_idiom },
        ];
        let d = c.expr_depth;
        match self.t.weighted(&w) {
            0 => {
                let e = self.printable_expr();
                out.push(print(e));
            },
            1 => {
                let ty = self.small_ty(2);
                let e = self.expr(&ty, d);
                let mut nm = self.fresh("v");
                if self.scopes.len() > 1 && self.t.chance(c.shadow, 100) {
                    // Shadow an outer variable (not one of the current scope).
                    let cur: Vec<String> = self.scopes.last().unwrap().iter().map(|v| v.name.clone()).collect();
                    let outer: Vec<VarInfo> = self.visible().into_iter().filter(|v| !cur.contains(&v.name) && v.name != "this" && !matches!(v.ty, Ty::Fn(_))).collect();
                    if !outer.is_empty() {
                        nm = outer[self.t.pick(outer.len())].name.clone();
                    }
                }
                // Aliasing: declare a second name for a container in scope.
                if c.aliasing && self.t.chance(1, 6) {
                    let cs = self.vars_of(&|t| matches!(t, Ty::List(..) | Ty::Obj(_)));
                    if !cs.is_empty() {
                        let a = cs[self.t.pick(cs.len())].clone();
                        out.push(declare(var(&nm), var(&a.name)));
                        self.declare(&nm, a.ty, true);
                        return;
                    }
                }
                out.push(declare(var(&nm), e));
                self.declare(&nm, ty, true);
            },
            2 => {
                let vs: Vec<VarInfo> = self.visible().into_iter().filter(|v| v.assignable && !matches!(v.ty, Ty::Fn(_) | Ty::Null | Ty::Opaque)).collect();
                if vs.is_empty() {
                    out.push(print(string("none")));
                    return;
                }
                let v = vs[self.t.pick(vs.len())].clone();
                let op_ok = matches!(v.ty, Ty::Int | Ty::Str) || matches!(v.ty, Ty::List(_, 0));
                if op_ok && self.t.chance(1, 2) {
                    match &v.ty {
                        Ty::Int => {
                            let op = [Op::Sum, Op::Sub, Op::Mul, Op::Div, Op::Mod][self.t.weighted(&[4, 3, 2, 1, 1])];
                            let r = if matches!(op, Op::Div | Op::Mod) { int([1, 2, 3, -3][self.t.pick(4)]) } else { self.expr(&Ty::Int, d - 1) };
                            out.push(op_assign(var(&v.name), op, r));
                        },
                        Ty::Str => {
                            let r = self.expr(&Ty::Str, d - 1);
                            out.push(op_assign(var(&v.name), Op::Sum, r));
                        },
                        _ => {
                            let r = self.expr(&v.ty.clone(), d - 1);
                            out.push(op_assign(var(&v.name), Op::Sum, r));
                        },
                    }
                } else {
                    let e = self.expr(&v.ty.clone(), d);
                    out.push(assign(var(&v.name), e));
                }
            },
            3 => {
                let nb = 1 + self.t.pick(3);
                let mut branches = vec![];
                for _ in 0..nb {
                    let cnd = self.expr(&Ty::Bool, d);
                    let mut b = vec![];
                    self.block(&mut b, 0);
                    branches.push((cnd, b));
                }
                let els = if self.t.chance(1, 2) {
                    let mut b = vec![];
                    self.block(&mut b, 0);
                    Some(b)
                } else {
                    None
                };
                out.push(st(SK::If(branches, els)));
            },
            4 => {
                // Counter loop; the counter is advanced first so that
                // `continue` cannot skip it, and the body cannot assign it.
                let i = self.fresh("i");
                let mut n = self.t.range(0, 4);
                if self.cfg.big && self.loop_depth == 0 && self.t.chance(1, 3) {
                    n = [17, 23, 33, 40, 64, 65, 100][self.t.pick(7)];
                }
                out.push(declare(var(&i), int(0)));
                self.declare(&i, Ty::Int, false);
                let mut b = vec![op_assign(var(&i), Op::Sum, int(1))];
                self.loop_depth += 1;
                self.block(&mut b, 0);
                self.loop_depth -= 1;
                out.push(while_(bin(Op::Lt, var(&i), int(n)), b));
            },
            5 => {
                let which = self.t.pick(3);
                let (iter, kty, vty) = match which {
                    0 => {
                        let e = self.small_ty(1);
                        let n = self.t.pick(4);
                        let ty = Ty::List(Box::new(e.clone()), n);
                        (self.expr(&ty, d), Ty::Int, e)
                    },
                    1 => (self.expr(&Ty::Str, d - 1), Ty::Int, Ty::Str),
                    _ => {
                        let e = self.small_ty(0);
                        let n = 1 + self.t.pick(3);
                        let mut fields = vec![];
                        for j in 0..n {
                            fields.push((KEYS[(j * 3 + self.t.pick(2)) % KEYS.len()].to_string(), e.clone()));
                        }
                        fields.dedup_by(|a, b| a.0 == b.0);
                        (self.expr(&Ty::Obj(fields), d), Ty::Str, e)
                    },
                };
                self.scopes.push(vec![]);
                let target = match self.t.pick(4) {
                    0 => {
                        let p = self.fresh("kv");
                        self.declare(&p, Ty::Opaque, false);
                        var(&p)
                    },
                    1 => {
                        let v = self.fresh("e");
                        self.declare(&v, vty, false);
                        list(vec![var("_"), var(&v)])
                    },
                    _ => {
                        let k = self.fresh("k");
                        let v = self.fresh("e");
                        self.declare(&k, kty, false);
                        self.declare(&v, vty, false);
                        list(vec![var(&k), var(&v)])
                    },
                };
                let mut b = vec![];
                if let EK::Var(p) = &target.k {
                    b.push(print(index(var(p), int(0))));
                }
                self.loop_depth += 1;
                self.stmts_here(&mut b, 0);
                self.loop_depth -= 1;
                self.scopes.pop();
                out.push(for_(target, iter, b));
            },
            6 => {
                let mut b = vec![];
                self.block(&mut b, 1);
                if b.is_empty() {
                    b.push(print(int(1)));
                }
                out.push(block(b));
            },
            7 => {
                let sig = self.new_sig(None);
                let nm = self.fresh("f");
                // Declared before the body is generated so that the function
                // can call itself? No: recursion needs fuel; see `w_closure`.
                let (params, collect, body) = self.fn_parts(&sig);
                out.push(fn_decl(&nm, params, collect, body));
                self.declare(&nm, Ty::Fn(sig), false);
            },
            8 => {
                let fs: Vec<VarInfo> = self.vars_of(&|t| matches!(t, Ty::Fn(s) if s.this.is_none()));
                if fs.is_empty() {
                    out.push(print(string("nofn")));
                    return;
                }
                let f = fs[self.t.pick(fs.len())].clone();
                if let Ty::Fn(sig) = &f.ty {
                    let cexpr = self.call_of(var(&f.name), sig, d - 1);
                    if printable(&sig.ret) && self.t.chance(2, 3) {
                        out.push(print(cexpr));
                    } else {
                        out.push(expr_stmt(cexpr));
                    }
                }
            },
            9 => {
                // Destructuring declaration from a fresh or existing value.
                if self.t.chance(1, 2) {
                    let e = self.small_ty(1);
                    let n = self.t.pick(4);
                    let collect = self.t.chance(1, 3);
                    let src_n = if collect { n + self.t.pick(3) } else { n };
                    let src = self.expr(&Ty::List(Box::new(e.clone()), src_n), d);
                    let mut items = vec![];
                    for _ in 0..n {
                        if self.t.chance(1, 5) {
                            items.push(item(var("_")));
                        } else {
                            let nm = self.fresh("d");
                            self.declare(&nm, e.clone(), true);
                            items.push(item(var(&nm)));
                        }
                    }
                    if collect {
                        let nm = self.fresh("rest");
                        self.declare(&nm, Ty::List(Box::new(e.clone()), src_n - n), true);
                        items.push(item(var(&nm)));
                    }
                    out.push(declare(list_items(items, collect), src));
                } else {
                    let ty = self.small_ty(2);
                    let fields = match &ty { Ty::Obj(f) => f.clone(), _ => vec![("k".to_string(), ty.clone())] };
                    let src = self.expr(&Ty::Obj(fields.clone()), d);
                    let collect = self.t.chance(1, 3);
                    let take = if collect { self.t.pick(fields.len() + 1) } else { fields.len() };
                    let mut props = vec![];
                    for (k, fty) in fields.iter().take(take) {
                        if collect && self.t.chance(1, 5) {
                            props.push(Prop::Pair(string(k), var("_")));
                            continue;
                        }
                        let nm = self.fresh("d");
                        self.declare(&nm, fty.clone(), true);
                        props.push(Prop::Pair(string(k), var(&nm)));
                    }
                    if collect {
                        let nm = self.fresh("rest");
                        self.declare(&nm, Ty::Obj(fields[take..].to_vec()), true);
                        props.push(Prop::Single{e: var(&nm), spread: false, collect: true});
                    }
                    out.push(declare(obj(props), src));
                }
            },
            10 => {
                // Element / property / range assignment through a name.
                let cs = self.vars_of(&|t| matches!(t, Ty::List(_, n) if *n > 0) || matches!(t, Ty::Obj(f) if !f.is_empty()));
                if cs.is_empty() {
                    out.push(print(string("nocont")));
                    return;
                }
                let v = cs[self.t.pick(cs.len())].clone();
                match &v.ty {
                    Ty::List(e, n) => {
                        let i = self.t.pick(*n);
                        match self.t.pick(3) {
                            0 if **e == Ty::Int => {
                                let r = self.expr(&Ty::Int, d - 1);
                                out.push(op_assign(index(var(&v.name), int(i as i64)), Op::Sum, r));
                            },
                            1 => {
                                let a = self.t.pick(*n);
                                let b = a + 1 + self.t.pick(*n - a);
                                let r = if **e == Ty::Str && self.t.chance(1, 3) {
                                    // A string on the right: taken byte-wise.
                                    string(&"abcdefgh"[..b - a])
                                } else {
                                    self.expr(&Ty::List(e.clone(), b - a), d - 1)
                                };
                                let (ea, eb) = (if a == 0 && self.t.chance(1, 2) { None } else { Some(int(a as i64)) }, if b == *n && self.t.chance(1, 2) { None } else { Some(int(b as i64)) });
                                out.push(assign(range_index(var(&v.name), ea, eb), r));
                            },
                            _ => {
                                let r = self.expr(&(**e).clone(), d - 1);
                                out.push(assign(index(var(&v.name), int(i as i64)), r));
                            },
                        }
                    },
                    Ty::Obj(fields) => {
                        let (k, fty) = fields[self.t.pick(fields.len())].clone();
                        if matches!(fty, Ty::Fn(_)) {
                            out.push(print(string("fnfield")));
                            return;
                        }
                        if self.t.chance(1, 5) && printable(&v.ty) {
                            // A key the object does not have yet.
                            let nk = ["extra", "Z", "a b", "", "k2"][self.t.pick(5)];
                            let val = self.expr(&Ty::Int, d - 1);
                            let target = if is_ident(nk) && self.t.chance(1, 2) { prop(var(&v.name), nk) } else { index(var(&v.name), string(nk)) };
                            out.push(assign(target, val));
                            out.push(print(var(&v.name)));
                            return;
                        }
                        let r = self.expr(&fty, d - 1);
                        let target = if is_ident(&k) && self.t.chance(1, 2) { prop(var(&v.name), &k) } else { index(var(&v.name), string(&k)) };
                        if fty == Ty::Int && self.t.chance(1, 3) {
                            out.push(op_assign(target, Op::Sub, r));
                        } else {
                            out.push(assign(target, r));
                        }
                    },
                    _ => {},
                }
            },
            11 => {
                // A jump under an `if` (so that the rest of the body is
                // reachable on other paths).
                let cnd = self.expr(&Ty::Bool, d);
                let j = if in_loop && (!in_fn || self.t.chance(2, 3)) {
                    if self.t.chance(1, 2) { st(SK::Break) } else { st(SK::Continue) }
                } else if in_fn {
                    let rt = self.ret_ty.last().cloned().unwrap_or(Ty::Null);
                    let r = self.expr(&rt, d - 1);
                    ret(r)
                } else {
                    st(SK::Break)
                };
                let body = if self.t.chance(1, 4) { vec![block(vec![j])] } else { vec![j] };
                out.push(if_(cnd, body, None));
            },
            12 => {
                // An object with a method using `this`, called through
                // various routes.
                let tag_ty = Ty::Int;
                let fields = vec![("tag".to_string(), tag_ty.clone()), ("n".to_string(), Ty::Int)];
                let msig = Rc::new(FnSig{params: vec![], rest: None, ret: Ty::Int, this: Some(fields.clone())});
                let o = self.fresh("o");
                let (params, collect, mut body) = self.fn_parts(&msig);
                body.insert(0, print(prop(var("this"), "tag")));
                let tagv = self.t.range(10, 99);
                let lit = obj(vec![pair("tag", int(tagv)), pair("n", int(1)), pair("m", func(params, collect, body))]);
                out.push(declare(var(&o), lit));
                let mut ofields = fields.clone();
                ofields.push(("m".to_string(), Ty::Fn(msig.clone())));
                self.declare(&o, Ty::Obj(ofields), false);
                match self.t.pick(5) {
                    0 => out.push(print(call(prop(var(&o), "m"), vec![]))),
                    1 => out.push(print(call(index(var(&o), string("m")), vec![]))),
                    2 => {
                        let g = self.fresh("g");
                        out.push(declare(var(&g), prop(var(&o), "m")));
                        self.declare(&g, Ty::Opaque, false);
                        out.push(print(call(var(&g), vec![])));
                    },
                    3 => {
                        let o2 = self.fresh("o");
                        let t2 = self.t.range(100, 199);
                        out.push(declare(var(&o2), obj(vec![pair("tag", int(t2)), pair("n", int(2)), pair("m", prop(var(&o), "m"))])));
                        self.declare(&o2, Ty::Opaque, false);
                        out.push(print(call(prop(var(&o2), "m"), vec![])));
                        out.push(print(call(prop(var(&o), "m"), vec![])));
                    },
                    _ => {
                        let l = self.fresh("ms");
                        out.push(declare(var(&l), list(vec![prop(var(&o), "m")])));
                        self.declare(&l, Ty::Opaque, false);
                        out.push(print(call(index(var(&l), int(0)), vec![])));
                    },
                }
            },
            14 => self.idiom(out),
            _ => {
                // A counter closure: captured variable updated across calls.
                let mk = self.fresh("mk");
                let c0 = self.fresh("c");
                let step = self.t.range(1, 3);
                let inner = func(vec![], false, vec![
                    op_assign(var(&c0), Op::Sum, int(step)),
                    ret(var(&c0)),
                ]);
                out.push(fn_decl(&mk, vec![var(&c0)], false, vec![ret(inner)]));
                self.declare(&mk, Ty::Opaque, false);
                let g = self.fresh("g");
                out.push(declare(var(&g), call(var(&mk), vec![int(self.t.range(0, 5))])));
                let sig = Rc::new(FnSig{params: vec![], rest: None, ret: Ty::Int, this: None});
                self.declare(&g, Ty::Fn(sig), false);
                out.push(print(call(var(&g), vec![])));
            },
        }
    }
}

pub fn printable(t: &Ty) -> bool {
    match t {
        Ty::Fn(_) | Ty::Opaque => false,
        Ty::List(e, _) => printable(e),
        Ty::Obj(f) => f.iter().all(|(_, t)| printable(t)),
        _ => true,
    }
}

pub fn is_ident(s: &str) -> bool {
    let mut cs = s.chars();
    match cs.next() {
        Some(c) if c.is_ascii_alphabetic() || c == '_' => {},
        _ => return false,
    }
    let kw = ["break", "continue", "else", "false", "fn", "for", "if", "in", "null", "return", "true", "while"];
    cs.all(|c| c.is_ascii_alphanumeric() || c == '_') && !kw.contains(&s)
}

// The printer parenthesises by tier; this is only for readability of
// range-in-index forms, where the tier rule already applies.
fn paren_if_needed(e: Expr) -> Expr { e }

// String literals inside interpolation slots must not contain braces (the
// outer scanner counts them); replace them.
pub fn strip_braces_from_strings(e: &mut Expr) {
    match &mut e.k {
        EK::Str(cs) => {
            for c in cs.iter_mut() {
                if c.0 == '{' || c.0 == '}' {
                    c.0 = '|';
                }
            }
        },
        EK::Interp(parts) => {
            for p in parts {
                match p {
                    StrPart::Text(cs) => for c in cs.iter_mut() {
                        if c.0 == '{' || c.0 == '}' {
                            c.0 = '|';
                        }
                    },
                    StrPart::Slot(e) => strip_braces_from_strings(e),
                }
            }
        },
        EK::Bin(_, l, r) | EK::Range(l, r) | EK::Index(l, r) => {
            strip_braces_from_strings(l);
            strip_braces_from_strings(r);
        },
        EK::List(items, _) => for it in items { strip_braces_from_strings(&mut it.e); },
        EK::Obj(props) => for p in props {
            match p {
                Prop::Pair(k, v) => { strip_braces_from_strings(k); strip_braces_from_strings(v); },
                Prop::Single{e, ..} => strip_braces_from_strings(e),
            }
        },
        EK::RangeIndex(s, a, b) => {
            strip_braces_from_strings(s);
            if let Some(a) = a { strip_braces_from_strings(a); }
            if let Some(b) = b { strip_braces_from_strings(b); }
        },
        EK::Prop(s, _, _) => strip_braces_from_strings(s),
        EK::Call(f, args) => {
            strip_braces_from_strings(f);
            for a in args { strip_braces_from_strings(&mut a.e); }
        },
        EK::Func(..) | EK::Null | EK::Bool(_) | EK::Int{..} | EK::Var(_) => {},
    }
}
