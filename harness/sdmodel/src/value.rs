// Values, heap identity, environments and the abstract error model of the
// reference interpreter.

use std::cell::RefCell;
use std::collections::BTreeMap;
use std::rc::Rc;

use crate::ast::*;

#[derive(Clone, Copy, Debug, PartialEq, Eq, PartialOrd, Ord, Hash)]
pub enum Kind { Null, Bool, Int, Str, List, Object, Func, Builtin }

impl Kind {
    // The name `v->type()` returns and diagnostics use.
    pub fn type_name(self) -> &'static str {
        match self {
            Kind::Null => "null", Kind::Bool => "bool", Kind::Int => "int",
            Kind::Str => "string", Kind::List => "list", Kind::Object => "object",
            Kind::Func | Kind::Builtin => "func",
        }
    }
}

#[derive(Clone, Copy, Debug, PartialEq, Eq)]
pub enum BuiltinFn { Print, Type, Len }

pub struct FuncV {
    pub name: Option<String>,
    pub params: Vec<Expr>,
    pub collect: bool,
    pub body: Vec<Stmt>,
    pub env: Env,
    // Variant "capture by value": a frozen copy of the environment.
    pub node: Id,
}

pub type ListRef = Rc<RefCell<Vec<SV>>>;
pub type ObjRef = Rc<RefCell<BTreeMap<Vec<u8>, SV>>>;

#[derive(Clone)]
pub enum Val {
    Null,
    Bool(bool),
    Int(i64),
    Str(Rc<Vec<u8>>),
    List(ListRef),
    Obj(ObjRef),
    Func(Rc<FuncV>),
    Builtin(BuiltinFn),
}

impl Val {
    pub fn kind(&self) -> Kind {
        match self {
            Val::Null => Kind::Null, Val::Bool(_) => Kind::Bool, Val::Int(_) => Kind::Int,
            Val::Str(_) => Kind::Str, Val::List(_) => Kind::List, Val::Obj(_) => Kind::Object,
            Val::Func(_) => Kind::Func, Val::Builtin(_) => Kind::Builtin,
        }
    }
    pub fn str(b: &[u8]) -> Val { Val::Str(Rc::new(b.to_vec())) }
    pub fn list(v: Vec<SV>) -> Val { Val::List(Rc::new(RefCell::new(v))) }
    pub fn obj(m: BTreeMap<Vec<u8>, SV>) -> Val { Val::Obj(Rc::new(RefCell::new(m))) }
    pub fn same_ref(&self, o: &Val) -> Option<bool> {
        match (self, o) {
            (Val::List(a), Val::List(b)) => Some(Rc::ptr_eq(a, b)),
            (Val::Obj(a), Val::Obj(b)) => Some(Rc::ptr_eq(a, b)),
            (Val::Func(a), Val::Func(b)) => Some(Rc::ptr_eq(a, b)),
            _ => None,
        }
    }
}

// A value together with the object it was last read from (its `this` when it
// is a function that gets called).
#[derive(Clone)]
pub struct SV {
    pub v: Val,
    pub origin: Option<Val>,
    // The value left an object by a route the documentation does not cover
    // (object destructuring, `for` over an object); its origin is whatever
    // was stored, and a call that uses `this` then leaves the domain.
    pub uncertain: bool,
}

impl SV {
    pub fn plain(v: Val) -> SV { SV{v, origin: None, uncertain: false} }
    pub fn null() -> SV { SV::plain(Val::Null) }
    pub fn int(n: i64) -> SV { SV::plain(Val::Int(n)) }
    pub fn boolean(b: bool) -> SV { SV::plain(Val::Bool(b)) }
}

pub struct Binding {
    pub v: SV,
    // Node whose first token is the declaration's position.
    pub decl: Id,
    pub decl_is_op: bool,
}

pub struct Frame {
    pub vars: RefCell<BTreeMap<String, Binding>>,
    pub parent: Option<Env>,
}

pub type Env = Rc<Frame>;

thread_local! {
    // Every frame made on this thread since the last `release_frames`. A
    // function value stored in the frame it closes over is an Rc cycle; the
    // interpreter empties all surviving frames when a run ends so that runs
    // do not accumulate memory.
    static FRAMES: RefCell<Vec<std::rc::Weak<Frame>>> = const { RefCell::new(Vec::new()) };
}

pub fn new_frame(parent: Option<Env>) -> Env {
    let f = Rc::new(Frame{vars: RefCell::new(BTreeMap::new()), parent});
    FRAMES.with(|fs| fs.borrow_mut().push(Rc::downgrade(&f)));
    f
}

pub fn release_frames() {
    let frames = FRAMES.with(|fs| std::mem::take(&mut *fs.borrow_mut()));
    for w in frames {
        if let Some(f) = w.upgrade() {
            let taken = std::mem::take(&mut *f.vars.borrow_mut());
            drop(taken);
        }
    }
}

pub fn lookup(env: &Env, name: &str) -> Option<SV> {
    let mut cur = Some(env.clone());
    while let Some(f) = cur {
        if let Some(b) = f.vars.borrow().get(name) {
            return Some(b.v.clone());
        }
        cur = f.parent.clone();
    }
    None
}

pub fn assign_var(env: &Env, name: &str, v: SV) -> bool {
    let mut cur = Some(env.clone());
    while let Some(f) = cur {
        if let Some(b) = f.vars.borrow_mut().get_mut(name) {
            b.v = v;
            return true;
        }
        cur = f.parent.clone();
    }
    false
}

// ------------------------------------------------------------------ errors

#[derive(Clone, Debug, PartialEq, Eq, PartialOrd, Ord, Hash)]
pub enum EKind {
    Undefined{name: String},
    AlreadyDeclared{name: String, prev: Id, prev_is_op: bool},
    DupInPattern{name: String},
    OpTypes{op: Op, l: Kind, r: Kind},
    EqTypes{op: Op, l: Kind, r: Kind},
    Overflow{op: Op, a: i64, b: i64},
    NotCallable{k: Kind},
    ArgCount,
    BuiltinArgs,
    IndexType{got: Kind},
    IndexNegative,
    IndexOutOfBounds,
    NotIndexable,
    NotIndexAssignable,
    RangeBounds,
    NotRangeIndexable,
    NotRangeAssignable,
    RangeAssignSource{got: Kind},
    RangeAssignMismatch,
    RangeOperand{got: Kind},
    PropMissing{name: Vec<u8>},
    PropOnNonObject{got: Kind},
    PropNameType{got: Kind},
    TypeFnOnNull,
    TypeFnMissing,
    AssignTypeProp,
    NotIterable,
    CondType{got: Kind},
    SpreadType{got: Kind},
    CollectOutsidePattern,
    CollectNotLast,
    SpreadInPattern,
    DestructureSource{got: Kind},
    DestructureLength,
    ShorthandNotVar,
    BadBindTarget,
    OpOnPattern,
    OpOnMissing,
    JumpOutside{which: &'static str},
    SlotNotString{got: Kind},
    InvalidUtf8,
}

#[derive(Clone, Copy, Debug, PartialEq, Eq, PartialOrd, Ord, Hash)]
pub enum PosRule {
    // First token of `node` (the documented rule for names and calls).
    First,
    // Operator token of `node`.
    Op,
    // Some token of the failing construct: only the line range is asserted.
    Loose,
}

#[derive(Clone, Debug)]
pub struct CallFrame {
    // The call expression.
    pub call: Id,
    // Name of the function that was called (None = anonymous).
    pub callee: Option<String>,
    // The call expression stands inside an interpolation slot.
    pub from_slot: bool,
}

#[derive(Clone, Debug)]
pub struct RErr {
    pub kind: EKind,
    pub node: Id,
    pub rule: PosRule,
    // Active user-function calls, outermost first.
    pub stack: Vec<CallFrame>,
    // The failure was raised inside an interpolation slot (positions then
    // follow the slot rule, not the C18 rules).
    pub in_slot: bool,
    // ... and the failing node stands in the slot text itself (no call
    // entered since the innermost slot began).
    pub in_slot_direct: bool,
}

pub enum Abort {
    Err(Box<RErr>),
    // The program left the domain in which the reference is authoritative.
    Discard(&'static str),
}
