// A tape of choices. All randomness of every generator and of the layout
// policy is read from one of these, so that proptest (or libFuzzer bytes)
// owns it: shrinking the tape shrinks the case, and an exhausted tape yields
// the smallest choice everywhere.

#[derive(Clone, Debug)]
pub struct Tape {
    pub data: Vec<u16>,
    pub pos: usize,
}

impl Tape {
    pub fn new(data: Vec<u16>) -> Tape { Tape{data, pos: 0} }

    pub fn empty() -> Tape { Tape{data: vec![], pos: 0} }

    pub fn from_bytes(b: &[u8]) -> Tape {
        let mut data = Vec::with_capacity(b.len() / 2);
        for ch in b.chunks(2) {
            let lo = ch[0] as u16;
            let hi = if ch.len() > 1 { ch[1] as u16 } else { 0 };
            data.push(lo | (hi << 8));
        }
        Tape::new(data)
    }

    pub fn exhausted(&self) -> bool { self.pos >= self.data.len() }

    pub fn raw(&mut self) -> u16 {
        let v = self.data.get(self.pos).copied().unwrap_or(0);
        self.pos += 1;
        v
    }

    // A value in 0..n, monotone in the tape cell (so that shrinking the cell
    // shrinks the choice); 0 when the tape is exhausted.
    pub fn pick(&mut self, n: usize) -> usize {
        if n <= 1 {
            return 0;
        }
        ((self.raw() as usize) * n) >> 16
    }

    // True with probability about num/den; false when exhausted.
    pub fn chance(&mut self, num: usize, den: usize) -> bool {
        self.pick(den) >= den - num
    }

    // Picks an index by weight; index 0 when exhausted (so put the simplest
    // alternative first).
    pub fn weighted(&mut self, weights: &[u32]) -> usize {
        let total: u32 = weights.iter().sum();
        if total == 0 {
            return 0;
        }
        let mut x = self.pick(total as usize) as u32;
        for (i, w) in weights.iter().enumerate() {
            if x < *w {
                return i;
            }
            x -= *w;
        }
        weights.len() - 1
    }

    pub fn range(&mut self, lo: i64, hi: i64) -> i64 {
        lo + self.pick((hi - lo + 1) as usize) as i64
    }
}

// SplitMix64: used only to expand a (seed, index) pair into tape cells for the
// non-proptest drivers (enumerators that need a stratified sample).
pub fn splitmix(seed: &mut u64) -> u64 {
    *seed = seed.wrapping_add(0x9E37_79B9_7F4A_7C15);
    let mut z = *seed;
    z = (z ^ (z >> 30)).wrapping_mul(0xBF58_476D_1CE4_E5B9);
    z = (z ^ (z >> 27)).wrapping_mul(0x94D0_49BB_1331_11EB);
    z ^ (z >> 31)
}

pub fn tape_from_seed(seed: u64, len: usize) -> Tape {
    let mut s = seed;
    let mut data = Vec::with_capacity(len);
    while data.len() < len {
        let x = splitmix(&mut s);
        data.push(x as u16);
        data.push((x >> 16) as u16);
        data.push((x >> 32) as u16);
        data.push((x >> 48) as u16);
    }
    data.truncate(len);
    Tape::new(data)
}
