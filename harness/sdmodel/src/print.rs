// Pretty-printer from the model AST to Seed source, with a layout policy read
// from a tape and a record of the line/column of every token it writes.
//
// Position rule (documented): line = 1 + number of '\n' before the token,
// column = 1 + number of characters since the last '\n'; tab, CR and any
// multi-byte character count as one column.

use crate::ast::*;
use crate::tape::Tape;

#[derive(Clone, Copy, Debug, PartialEq, Eq, PartialOrd, Ord, Hash)]
pub struct Pos {
    pub line: u32,
    pub col: u32,
}

#[derive(Clone, Debug)]
pub struct Tok {
    pub text: String,
    pub pos: Pos,
    pub off: usize,
}

#[derive(Clone, Debug, Default)]
pub struct LayoutStats {
    pub cont_breaks: Vec<(String, u32)>,
    pub comments: u32,
    pub semis: u32,
    pub odd_ws: u32,
    pub blank_lines: u32,
}

#[derive(Clone, Debug)]
pub struct Printed {
    pub src: String,
    pub toks: Vec<Tok>,
    // By node id: first token of the node (including wrapping parentheses).
    pub first: Vec<Option<Pos>>,
    // By node id: operator token of Bin / OpAssign, keyword of
    // break / continue / return, name token of `fn name`, `..` of Range.
    pub op: Vec<Option<Pos>>,
    pub stats: LayoutStats,
}

impl Printed {
    pub fn first_of(&self, id: Id) -> Pos { self.first[id as usize].expect("node printed") }
    pub fn op_of(&self, id: Id) -> Pos { self.op[id as usize].expect("node has op token") }
    pub fn n_lines(&self) -> u32 { 1 + self.src.bytes().filter(|b| *b == b'\n').count() as u32 }
}

// The tokens after which a line break continues the statement (C09).
pub const CONT_TOKENS: [&str; 25] = [
    "+", "-", "*", "/", "%", "==", "!=", "<", "<=", ">", ">=", "&&", "||",
    "=", ":=", "+=", "-=", "*=", "/=", "%=", ",", ".", "(", "[", "{",
];

#[derive(Clone, Debug)]
pub struct Style {
    // Allow line breaks after continuation tokens.
    pub breaks: bool,
    pub comments: bool,
    // Tabs, CR, form feeds, multiple blanks between tokens.
    pub odd_ws: bool,
    // `;`-style and repeated terminators, blank lines.
    pub terminators: bool,
    pub trailing_commas: bool,
    // Write CR LF instead of LF at statement ends.
    pub crlf: bool,
    // Probability weight (0..=100) of taking a non-canonical choice at a gap.
    pub density: usize,
}

impl Style {
    pub fn canonical() -> Style {
        Style{breaks: false, comments: false, odd_ws: false, terminators: false, trailing_commas: false, crlf: false, density: 0}
    }
    pub fn wild(density: usize) -> Style {
        Style{breaks: true, comments: true, odd_ws: true, terminators: true, trailing_commas: true, crlf: false, density}
    }
}

const COMMENT_TEXTS: [&str; 10] = [
    "", " c", " é ü", " \"quoted\" $x ${y}", " 日本語 text", " 🙂", "#", " a;b{", "\t\ttabs", " \\n \\x",
];

pub struct Printer<'a> {
    out: String,
    line: u32,
    col: u32, // column of the last written character (0 at line start)
    toks: Vec<Tok>,
    first: Vec<Option<Pos>>,
    op: Vec<Option<Pos>>,
    style: Style,
    tape: Option<&'a mut Tape>,
    indent: usize,
    in_slot: u32,
    stats: LayoutStats,
    // Pending request: a space is wanted before the next token in the
    // canonical layout.
    want_space: bool,
    // Set when the next token starts a line in the canonical layout.
    at_line_start: bool,
    // Set by a terminator that stayed on the same line.
    same_line_next: bool,
}

pub fn print_prog(p: &Prog, style: &Style, tape: Option<&mut Tape>) -> Printed {
    let mut pr = Printer::new(p.n_ids as usize, style.clone(), tape);
    pr.stmts_top(&p.stmts);
    pr.finish()
}

pub fn print_canonical(p: &Prog) -> Printed {
    print_prog(p, &Style::canonical(), None)
}

// Prints one expression on one line in the canonical layout (no terminator).
pub fn print_expr_canonical(e: &Expr, n_ids: usize) -> Printed {
    let mut pr = Printer::new(n_ids, Style::canonical(), None);
    pr.in_slot = 1;
    pr.expr(e, 1);
    pr.finish()
}

fn is_word_char(c: char) -> bool { c.is_ascii_alphanumeric() || c == '_' }

fn merges(prev: &str, next: &str) -> bool {
    let a = match prev.chars().last() { Some(c) => c, None => return false };
    let b = match next.chars().next() { Some(c) => c, None => return false };
    if is_word_char(a) && is_word_char(b) {
        return true;
    }
    // A word directly before a string literal is fine; `$"` after a word too.
    matches!(
        (a, b),
        ('-', '>') | ('-', '=') | ('+', '=') | ('*', '=') | ('/', '=') | ('%', '=')
            | ('=', '=') | ('!', '=') | ('<', '=') | ('>', '=') | (':', '=')
            | ('.', '.') | ('&', '&') | ('|', '|')
    )
}

impl<'a> Printer<'a> {
    pub fn new(n_ids: usize, style: Style, tape: Option<&'a mut Tape>) -> Printer<'a> {
        Printer{
            out: String::new(), line: 1, col: 0, toks: vec![],
            first: vec![None; n_ids + 1], op: vec![None; n_ids + 1],
            style, tape, indent: 0, in_slot: 0, stats: LayoutStats::default(),
            want_space: false, at_line_start: true, same_line_next: false,
        }
    }

    pub fn finish(self) -> Printed {
        Printed{src: self.out, toks: self.toks, first: self.first, op: self.op, stats: self.stats}
    }

    fn pick(&mut self, n: usize) -> usize {
        match &mut self.tape {
            Some(t) => t.pick(n),
            None => 0,
        }
    }

    // True when a non-canonical choice should be taken at this gap.
    fn deviate(&mut self) -> bool {
        if self.style.density == 0 || self.tape.is_none() {
            return false;
        }
        let d = self.style.density;
        self.pick(100) >= 100 - d
    }

    fn raw(&mut self, s: &str) {
        for c in s.chars() {
            if c == '\n' {
                self.line += 1;
                self.col = 0;
            } else {
                self.col += 1;
            }
        }
        self.out.push_str(s);
    }

    fn comment_text(&mut self) -> String {
        let i = self.pick(COMMENT_TEXTS.len());
        format!("#{}", COMMENT_TEXTS[i])
    }

    fn newline(&mut self) {
        if self.style.crlf {
            self.raw("\r\n");
        } else {
            self.raw("\n");
        }
    }

    fn write_indent(&mut self) {
        let n = self.indent * 4;
        let odd = self.style.odd_ws && self.deviate();
        if odd {
            match self.pick(4) {
                0 => { let s = "\t".repeat(self.indent); self.raw(&s); },
                1 => {},
                2 => { let s = " ".repeat(n + 3); self.raw(&s); },
                _ => { let s = format!("{}\t ", " ".repeat(n / 2)); self.raw(&s); },
            }
            self.stats.odd_ws += 1;
        } else {
            let s = " ".repeat(n);
            self.raw(&s);
        }
    }

    // Emits one token, first filling the gap since the previous one.
    fn tok(&mut self, text: &str) {
        let prev = self.toks.last().map(|t| t.text.clone());
        let mut sep = String::new();
        let mut broke = false;
        if self.at_line_start {
            // Indentation was (or is) written by the statement printer.
            self.at_line_start = false;
        } else if let Some(prev) = &prev {
            let is_cont = CONT_TOKENS.contains(&prev.as_str());
            if self.in_slot == 0 && is_cont && self.style.breaks && self.deviate() {
                // Continuation break, optionally with a comment before it.
                if self.style.comments && self.pick(3) == 2 {
                    let c = self.comment_text();
                    sep.push(' ');
                    sep.push_str(&c);
                    self.stats.comments += 1;
                }
                sep.push('\n');
                if self.pick(4) == 3 {
                    sep.push('\n');
                    self.stats.blank_lines += 1;
                }
                broke = true;
                match self.stats.cont_breaks.iter_mut().find(|(t, _)| t == prev) {
                    Some((_, n)) => *n += 1,
                    None => self.stats.cont_breaks.push((prev.clone(), 1)),
                }
            } else if self.in_slot == 0 && self.style.odd_ws && self.deviate() {
                let alts = ["", " ", "  ", "\t", " \t ", "\r", " \x0c"];
                let i = self.pick(alts.len());
                sep.push_str(alts[i]);
                self.stats.odd_ws += 1;
            } else if self.want_space {
                sep.push(' ');
            }
            if !broke && sep.is_empty() && merges(prev, text) {
                sep.push(' ');
            }
        }
        self.raw(&sep);
        if broke {
            self.indent += 1;
            self.write_indent();
            self.indent -= 1;
        }
        self.want_space = false;
        let pos = Pos{line: self.line, col: self.col + 1};
        let off = self.out.len();
        self.raw(text);
        self.toks.push(Tok{text: text.to_string(), pos, off});
    }

    fn sp(&mut self) { self.want_space = true; }

    // ------------------------------------------------------------ statements

    fn stmts_top(&mut self, stmts: &[Stmt]) {
        // Optional leading blank lines / comment.
        if self.style.terminators && self.deviate() {
            match self.pick(3) {
                0 => { self.newline(); self.stats.blank_lines += 1; },
                1 => { let c = self.comment_text(); self.raw(&c); self.newline(); self.stats.comments += 1; },
                _ => { self.raw("  "); self.newline(); },
            }
        }
        for s in stmts {
            if self.same_line_next {
                self.same_line_next = false;
            } else {
                self.write_indent();
            }
            self.at_line_start = true;
            self.stmt(s);
            self.terminator(true);
        }
    }

    // Ends a statement. `own_line`: the next statement (or closing brace)
    // starts on a fresh line in the canonical layout.
    fn terminator(&mut self, own_line: bool) {
        if self.in_slot > 0 {
            self.raw(";");
            self.want_space = true;
            return;
        }
        if self.style.terminators && self.deviate() {
            match self.pick(6) {
                0 => { self.raw(";"); self.newline(); self.stats.semis += 1; },
                1 => { self.raw(" ;;"); self.newline(); self.stats.semis += 1; },
                2 => { self.newline(); self.newline(); self.stats.blank_lines += 1; },
                3 => {
                    let c = self.comment_text();
                    self.raw(" ");
                    self.raw(&c);
                    self.newline();
                    self.stats.comments += 1;
                },
                4 => {
                    let c = self.comment_text();
                    self.raw("; ");
                    self.raw(&c);
                    self.newline();
                    self.raw("   ");
                    self.newline();
                    self.stats.comments += 1;
                    self.stats.semis += 1;
                },
                _ => {
                    // Stay on the same line.
                    self.raw(";");
                    self.stats.semis += 1;
                    if own_line {
                        self.raw(" ");
                        self.same_line_next = true;
                    }
                    return;
                },
            }
        } else {
            self.newline();
        }
    }

    fn block_body(&mut self, b: &[Stmt]) {
        self.tok("{");
        if b.is_empty() {
            self.tok("}");
            return;
        }
        if self.in_slot > 0 {
            self.want_space = true;
            for s in b {
                self.stmt(s);
                self.raw(";");
                self.want_space = true;
            }
            self.tok("}");
            return;
        }
        let one_line = self.style.terminators && self.deviate() && self.pick(2) == 1;
        if one_line {
            for s in b {
                self.sp();
                self.stmt(s);
                self.raw(";");
                self.stats.semis += 1;
            }
            self.sp();
            self.tok("}");
            return;
        }
        self.newline();
        self.indent += 1;
        self.same_line_next = false;
        for s in b {
            if self.same_line_next {
                self.same_line_next = false;
            } else {
                self.write_indent();
            }
            self.at_line_start = true;
            self.stmt(s);
            self.terminator(true);
        }
        self.indent -= 1;
        if self.same_line_next {
            self.same_line_next = false;
        } else {
            self.write_indent();
        }
        self.at_line_start = true;
        self.tok("}");
    }

    fn params(&mut self, params: &[Expr], collect: bool) {
        self.tok("(");
        let n = params.len();
        for (i, p) in params.iter().enumerate() {
            if i > 0 {
                self.sp();
            }
            if collect && i == n - 1 {
                self.tok("..");
            }
            self.expr(p, 1);
            if i + 1 < n {
                self.tok(",");
            } else if !collect && self.style.trailing_commas && self.deviate() {
                self.tok(",");
            }
        }
        self.tok(")");
    }

    fn stmt(&mut self, s: &Stmt) {
        let start = self.toks.len();
        match &s.k {
            SK::Block(b) => self.block_body(b),
            SK::Expr(e) => self.expr(e, 1),
            SK::Declare(l, r) => {
                self.expr(l, 1);
                self.sp();
                self.tok(":=");
                self.sp();
                self.expr(r, 1);
            },
            SK::Assign(l, r) => {
                self.expr(l, 1);
                self.sp();
                self.tok("=");
                self.sp();
                self.expr(r, 1);
            },
            SK::OpAssign(l, op, r) => {
                self.expr(l, 1);
                self.sp();
                let t = format!("{}=", op.sym());
                self.tok(&t);
                self.op[s.id as usize] = Some(self.toks.last().unwrap().pos);
                self.sp();
                self.expr(r, 1);
            },
            SK::If(branches, els) => {
                for (i, (c, b)) in branches.iter().enumerate() {
                    if i > 0 {
                        self.sp();
                        self.tok("else");
                        self.sp();
                    }
                    self.tok("if");
                    self.sp();
                    self.expr(c, 1);
                    self.sp();
                    self.block_body(b);
                }
                if let Some(b) = els {
                    self.sp();
                    self.tok("else");
                    self.sp();
                    self.block_body(b);
                }
            },
            SK::While(c, b) => {
                self.tok("while");
                self.sp();
                self.expr(c, 1);
                self.sp();
                self.block_body(b);
            },
            SK::For(t, it, b) => {
                self.tok("for");
                self.sp();
                self.expr(t, 1);
                self.sp();
                self.tok("in");
                self.sp();
                self.expr(it, 1);
                self.sp();
                self.block_body(b);
            },
            SK::Break => {
                self.tok("break");
                self.op[s.id as usize] = Some(self.toks.last().unwrap().pos);
            },
            SK::Continue => {
                self.tok("continue");
                self.op[s.id as usize] = Some(self.toks.last().unwrap().pos);
            },
            SK::FuncDecl(name, params, collect, body) => {
                self.tok("fn");
                self.sp();
                self.tok(name);
                self.op[s.id as usize] = Some(self.toks.last().unwrap().pos);
                self.params(params, *collect);
                self.sp();
                self.block_body(body);
            },
            SK::Return(e) => {
                self.tok("return");
                self.op[s.id as usize] = Some(self.toks.last().unwrap().pos);
                self.sp();
                self.expr(e, 1);
            },
        }
        self.first[s.id as usize] = Some(self.toks[start].pos);
    }

    // ----------------------------------------------------------- expressions

    pub fn tier(e: &Expr) -> u8 {
        match &e.k {
            EK::Range(..) => 1,
            EK::Bin(op, ..) => op.tier(),
            EK::Call(..) | EK::Index(..) | EK::RangeIndex(..) | EK::Prop(..) => 5,
            EK::Int{v, ..} if *v == i64::MIN => 6, // printed parenthesised
            _ => 6,
        }
    }

    // Prints `e` in a position that requires at least tier `min`.
    pub fn expr(&mut self, e: &Expr, min: u8) {
        let start = self.toks.len();
        let need = Self::tier(e) < min;
        let layers = e.parens as usize + usize::from(need);
        for _ in 0..layers {
            self.tok("(");
        }
        self.expr_bare(e);
        for _ in 0..layers {
            self.tok(")");
        }
        self.first[e.id as usize] = Some(self.toks[start].pos);
    }

    fn items(&mut self, items: &[Item], collect: bool, allow_trailing: bool) {
        let n = items.len();
        for (i, it) in items.iter().enumerate() {
            if i > 0 {
                self.sp();
            }
            if collect && i == n - 1 {
                self.tok("..");
            }
            self.expr(&it.e, 1);
            if it.spread {
                self.tok("..");
            }
            if i + 1 < n {
                self.tok(",");
            } else if allow_trailing && !collect && self.style.trailing_commas && self.deviate() {
                self.tok(",");
            }
        }
    }

    fn str_text(&self, t: &[(char, Spell)], out: &mut String) {
        for (c, sp) in t {
            let c = *c;
            let sp = match c {
                '\\' | '"' | '$' => if *sp == Spell::Hex { Spell::Hex } else { Spell::Esc },
                _ => *sp,
            };
            match sp {
                Spell::Raw => out.push(c),
                Spell::Esc => match c {
                    '\\' => out.push_str("\\\\"),
                    '"' => out.push_str("\\\""),
                    '$' => out.push_str("\\$"),
                    '\n' => out.push_str("\\n"),
                    '\r' => out.push_str("\\r"),
                    _ => out.push(c),
                },
                Spell::Hex => {
                    if (c as u32) < 0x80 {
                        out.push_str(&format!("\\x{:02x}", c as u32));
                    } else {
                        out.push(c);
                    }
                },
                Spell::HexLatin => {
                    if (c as u32) < 0x100 {
                        out.push_str(&format!("\\x{:02x}", c as u32));
                    } else {
                        out.push(c);
                    }
                },
            }
        }
    }

    fn expr_bare(&mut self, e: &Expr) {
        match &e.k {
            EK::Null => self.tok("null"),
            EK::Bool(b) => self.tok(if *b { "true" } else { "false" }),
            EK::Int{v, text} => {
                if *v == i64::MIN {
                    self.tok("(");
                    self.tok("-");
                    self.tok("9223372036854775807");
                    self.sp();
                    self.tok("-");
                    self.sp();
                    self.tok("1");
                    self.tok(")");
                } else {
                    if *v < 0 {
                        self.tok("-");
                    }
                    let mag = match text {
                        Some(t) => t.clone(),
                        None => v.unsigned_abs().to_string(),
                    };
                    self.tok(&mag);
                }
            },
            EK::Str(t) => {
                let mut s = String::from("\"");
                self.str_text(t, &mut s);
                s.push('"');
                self.tok(&s);
            },
            EK::Interp(parts) => {
                let mut s = String::from("$\"");
                // Per slot: where its text starts inside the token (lines
                // down, characters into that line) and the positions of its
                // nodes relative to the slot text.
                let mut subs: Vec<(u32, u32, Printed)> = vec![];
                for p in parts {
                    match p {
                        StrPart::Text(t) => self.str_text(t, &mut s),
                        StrPart::Slot(e) => {
                            let sub = print_expr_canonical(e, self.first.len());
                            s.push_str("${");
                            let dl = s.matches('\n').count() as u32;
                            let dc = s.rsplit('\n').next().unwrap_or("").chars().count() as u32;
                            s.push_str(&sub.src);
                            s.push('}');
                            subs.push((dl, dc, sub));
                        },
                    }
                }
                s.push('"');
                self.tok(&s);
                // True positions of the nodes inside the slots.
                let start = self.toks.last().unwrap().pos;
                for (dl, dc, sub) in subs {
                    let (sl, sc) = if dl == 0 { (start.line, start.col + dc) } else { (start.line + dl, dc + 1) };
                    let map = |p: Pos| if p.line == 1 { Pos{line: sl, col: sc + p.col - 1} } else { Pos{line: sl + p.line - 1, col: p.col} };
                    for (id, p) in sub.first.iter().enumerate() {
                        if id < self.first.len() && self.first[id].is_none() {
                            if let Some(p) = p {
                                self.first[id] = Some(map(*p));
                            }
                        }
                    }
                    for (id, p) in sub.op.iter().enumerate() {
                        if id < self.op.len() && self.op[id].is_none() {
                            if let Some(p) = p {
                                self.op[id] = Some(map(*p));
                            }
                        }
                    }
                }
            },
            EK::Var(n) => self.tok(n),
            EK::Bin(op, l, r) => {
                let t = op.tier();
                self.expr(l, t);
                self.sp();
                self.tok(op.sym());
                self.op[e.id as usize] = Some(self.toks.last().unwrap().pos);
                self.sp();
                self.expr(r, t + 1);
            },
            EK::Range(l, r) => {
                self.expr(l, 1);
                self.sp();
                self.tok("..");
                self.op[e.id as usize] = Some(self.toks.last().unwrap().pos);
                self.sp();
                self.expr(r, 2);
            },
            EK::List(items, collect) => {
                self.tok("[");
                self.items(items, *collect, true);
                self.tok("]");
            },
            EK::Obj(props) => {
                self.tok("{");
                let n = props.len();
                for (i, p) in props.iter().enumerate() {
                    if i > 0 {
                        self.sp();
                    }
                    match p {
                        Prop::Pair(k, v) => {
                            self.expr(k, 1);
                            self.tok(":");
                            self.sp();
                            self.expr(v, 1);
                        },
                        Prop::Single{e, spread, collect} => {
                            if *collect {
                                self.tok("..");
                            }
                            self.expr(e, 1);
                            if *spread {
                                self.tok("..");
                            }
                        },
                    }
                    if i + 1 < n {
                        self.tok(",");
                    } else if self.style.trailing_commas && self.deviate() {
                        self.tok(",");
                    }
                }
                self.tok("}");
            },
            EK::Index(s, i) => {
                self.expr(s, 5);
                self.tok("[");
                self.expr(i, 1);
                self.tok("]");
            },
            EK::RangeIndex(s, a, b) => {
                self.expr(s, 5);
                self.tok("[");
                if let Some(a) = a {
                    self.expr(a, 1);
                }
                self.tok(":");
                if let Some(b) = b {
                    self.expr(b, 1);
                }
                self.tok("]");
            },
            EK::Prop(s, name, type_prop) => {
                self.expr(s, 5);
                self.tok(if *type_prop { "->" } else { "." });
                self.tok(name);
            },
            EK::Func(params, collect, body) => {
                self.tok("fn");
                self.sp();
                self.params(params, *collect);
                self.sp();
                self.block_body(body);
            },
            EK::Call(f, args) => {
                self.expr(f, 5);
                self.tok("(");
                self.items(args, false, true);
                self.tok(")");
            },
        }
    }
}
