pub mod ast;
pub mod tape;
pub mod print;
pub mod value;
pub mod interp;
pub mod dbgtree;
pub mod gen;
