// Replayable cases: one or more source texts plus a predicate over what the
// interpreter does with them. Checks build these, the engine evaluates them,
// and a failing one is written out verbatim as the replay file.

use serde_json::json;
use serde_json::Value;

use crate::backend::*;
use crate::diag::*;

#[derive(Clone, Copy, Debug, PartialEq, Eq)]
pub enum StatusClass {
    Ok,
    Err,
    // Exit 0 or 103 (no crash); which one is not prescribed.
    NoCrash,
}

#[derive(Clone, Debug, PartialEq, Eq)]
pub enum DiagPred {
    // One well-formed first line, line within 1..=max_line, col >= 1, no
    // internal identifier, nothing after it except a well-formed trace.
    WellFormed{max_line: u32},
    // The same for front-end errors, whose unexpected token may be a newline
    // or the end of input (reported as column 0 of the next line).
    WellFormedFront{max_line: u32},
    Pos{line: u32, col: u32},
    // The failing token stands inside an interpolation slot: the reported
    // position is that of the slot text and the message starts with the
    // position inside it (`L:C: l:c: ...`, nested slots nest); composed they
    // must give this true position.
    SlotPos{line: u32, col: u32},
    InFunc(Option<String>),
    Trace(Vec<TraceLine>),
    NoTrace,
    // The message contains all of these, in this order.
    MsgContains(Vec<String>),
}

#[derive(Clone, Debug)]
pub struct Expect {
    pub stdout: Option<Vec<u8>>,
    pub status: StatusClass,
    pub diag: Vec<DiagPred>,
}

impl Expect {
    pub fn ok(stdout: Vec<u8>) -> Expect { Expect{stdout: Some(stdout), status: StatusClass::Ok, diag: vec![]} }
    pub fn err(stdout: Vec<u8>) -> Expect { Expect{stdout: Some(stdout), status: StatusClass::Err, diag: vec![]} }
    pub fn nocrash() -> Expect { Expect{stdout: None, status: StatusClass::NoCrash, diag: vec![]} }
}

#[derive(Clone, Debug)]
pub enum Pred {
    // srcs[0] must behave as described.
    Expect(Expect),
    // All sources must give the same stdout and status class; with
    // `same_msg`, failing ones must also give the same message after the
    // position; with `positions`, source i must report exactly positions[i]
    // ((0, 0) = the position variant 0 reports).
    Same{same_msg: bool, positions: Option<Vec<(u32, u32)>>},
    // In-process: the real parser's tree for srcs[0], printed with `{:?}`,
    // must equal `expected` (generic Debug-tree syntax); positions are
    // ignored when `strip` is set.
    Tree{expected: String, strip: bool},
    // In-process and CLI: the front end must reject srcs[0] (`accept` false)
    // or accept it (`accept` true).
    Front{accept: bool},
    // Property-specific predicate, dispatched by the owning module.
    Custom(Value),
}

#[derive(Clone, Debug)]
pub struct Case {
    pub property: String,
    pub kind: String,
    pub srcs: Vec<Vec<u8>>,
    pub pred: Pred,
    pub note: String,
}

#[derive(Clone, Debug, PartialEq, Eq)]
pub enum Verdict {
    Pass,
    Fail(String),
    // The harness could not decide (e.g. in-process back-end unavailable).
    Skip(String),
}

fn status_matches(o: &Obs, c: StatusClass) -> bool {
    match c {
        StatusClass::Ok => o.ok(),
        StatusClass::Err => o.reported(),
        StatusClass::NoCrash => o.ok() || o.reported(),
    }
}

pub fn check_diag(stderr: &str, path: &str, preds: &[DiagPred]) -> Result<(), String> {
    let d = parse_stderr(stderr, path)?;
    for p in preds {
        match p {
            DiagPred::WellFormedFront{max_line} => {
                if d.line < 1 || d.line > *max_line {
                    return Err(format!("reported line {} is outside 1..={}", d.line, max_line));
                }
                if let Some(w) = internal_identifier(&d.msg) {
                    return Err(format!("message contains an internal identifier ({w}): {:?}", d.msg));
                }
                if d.trace.is_some() {
                    return Err("front-end error with a stack trace".to_string());
                }
            },
            DiagPred::WellFormed{max_line} => {
                if d.line < 1 || d.line > *max_line {
                    return Err(format!("reported line {} is outside 1..={}", d.line, max_line));
                }
                if d.col < 1 {
                    return Err(format!("reported column {} is < 1", d.col));
                }
                if let Some(w) = internal_identifier(&d.msg) {
                    return Err(format!("message contains an internal identifier ({w}): {:?}", d.msg));
                }
                if !d.extra.is_empty() {
                    return Err(format!("unexpected extra stderr lines: {:?}", d.extra));
                }
                if let Some(t) = &d.trace {
                    if t.is_empty() {
                        return Err("empty Stacktrace".to_string());
                    }
                }
            },
            DiagPred::Pos{line, col} => {
                if (d.line, d.col) != (*line, *col) {
                    return Err(format!("reported position {}:{} but the offending token is at {}:{}", d.line, d.col, line, col));
                }
            },
            DiagPred::SlotPos{line, col} => {
                let (mut l, mut c) = (d.line, d.col);
                let mut rest = d.msg.as_str();
                let mut trail = format!("{l}:{c}");
                loop {
                    if let Some(r) = rest.strip_prefix("in '") {
                        if let Some(i) = r.find("': ") {
                            rest = &r[i + 3..];
                            continue;
                        }
                    }
                    let d1 = rest.bytes().take_while(|b| b.is_ascii_digit()).count();
                    if d1 > 0 && d1 < 10 && rest[d1..].starts_with(':') {
                        let r2 = &rest[d1 + 1..];
                        let d2 = r2.bytes().take_while(|b| b.is_ascii_digit()).count();
                        if d2 > 0 && d2 < 10 && r2[d2..].starts_with(": ") {
                            let (il, ic): (u32, u32) = (rest[..d1].parse().unwrap_or(0), r2[..d2].parse().unwrap_or(0));
                            trail.push_str(&format!(" + {il}:{ic}"));
                            if il <= 1 { c = c + ic.max(1) - 1; } else { l = l + il - 1; c = ic; }
                            rest = &r2[d2 + 2..];
                            continue;
                        }
                    }
                    break;
                }
                if (l, c) != (*line, *col) {
                    return Err(format!("reported position {trail} = {l}:{c} but the offending token (inside an interpolation slot) is at {line}:{col}"));
                }
            },
            DiagPred::InFunc(f) => {
                if &d.in_func != f {
                    return Err(format!("diagnostic names function {:?}, expected {:?}", d.in_func, f));
                }
            },
            DiagPred::Trace(t) => {
                match &d.trace {
                    Some(got) if got == t => {},
                    other => return Err(format!("stack trace {other:?}, expected {t:?}")),
                }
            },
            DiagPred::NoTrace => {
                if d.trace.is_some() {
                    return Err(format!("unexpected stack trace {:?}", d.trace));
                }
            },
            DiagPred::MsgContains(parts) => {
                let mut from = 0usize;
                for part in parts {
                    match d.msg[from..].find(part.as_str()) {
                        Some(i) => from += i + part.len(),
                        None => return Err(format!("message {:?} does not contain {:?} (in order {:?})", d.msg, part, parts)),
                    }
                }
            },
        }
    }
    Ok(())
}

pub fn check_expect(o: &Obs, e: &Expect, path: &str) -> Result<(), String> {
    if o.status == Status::Timeout {
        return Err("no termination within the time limit on a program the reference finishes at once".to_string());
    }
    if o.crashed() {
        return Err(format!("crash: {}", o.brief()));
    }
    if !status_matches(o, e.status) {
        return Err(format!("expected status class {:?}: {}", e.status, o.brief()));
    }
    if let Some(out) = &e.stdout {
        if &o.out != out {
            return Err(format!("stdout differs: expected {:?}, got {:?}", clip(&String::from_utf8_lossy(out), 600), clip(&o.out_s(), 600)));
        }
    }
    if o.ok() {
        if !o.err.is_empty() {
            return Err(format!("successful run wrote to stderr: {:?}", clip(&o.err_s(), 300)));
        }
    } else if !e.diag.is_empty() {
        let s = match String::from_utf8(o.err.clone()) {
            Ok(s) => s,
            Err(_) => return Err("stderr is not UTF-8".to_string()),
        };
        check_diag(&s, path, &e.diag)?;
    }
    Ok(())
}

// Message after `path:line:col: `, with the position removed. A failure
// below a call made from an interpolation slot carries further `l:c: `
// prefixes inside the message (DESIGN.md §3.7); they are removed as well.
fn msg_of(o: &Obs) -> Option<(u32, u32, String)> {
    let s = String::from_utf8_lossy(&o.err).to_string();
    let first = s.lines().next()?;
    let (l, c, rest) = take_loc(first, "case.sd")?;
    Some((l, c, strip_inner_positions(rest)))
}

fn strip_inner_positions(msg: &str) -> String {
    let mut out = String::new();
    let mut rest = msg;
    loop {
        // `in '<name>': ` is kept.
        if let Some(r) = rest.strip_prefix("in '") {
            if let Some(i) = r.find("': ") {
                out.push_str(&rest[..4 + i + 3]);
                rest = &r[i + 3..];
                continue;
            }
        }
        // `<digits>:<digits>: ` is dropped.
        let d1 = rest.bytes().take_while(|b| b.is_ascii_digit()).count();
        if d1 > 0 && rest[d1..].starts_with(':') {
            let r2 = &rest[d1 + 1..];
            let d2 = r2.bytes().take_while(|b| b.is_ascii_digit()).count();
            if d2 > 0 && r2[d2..].starts_with(": ") {
                rest = &r2[d2 + 2..];
                continue;
            }
        }
        break;
    }
    out.push_str(rest);
    out
}

#[derive(Clone, Copy, Debug, PartialEq, Eq)]
pub enum Via {
    Cli,
    // In-process first; anything but a pass is re-judged through the CLI.
    Fast,
}

pub type CustomFn<'a> = &'a (dyn Fn(&Case, &Value, Via) -> Verdict + Sync);

pub fn eval_case(case: &Case, via: Via, custom: Option<CustomFn>) -> Verdict {
    if via == Via::Fast && worker_available() {
        let v = eval_with(case, &|s| run_fast(s), Via::Fast, custom);
        if v == Verdict::Pass {
            return v;
        }
    }
    eval_with(case, &|s| run_cli(s), Via::Cli, custom)
}

fn eval_with(case: &Case, run: &dyn Fn(&[u8]) -> Obs, via: Via, custom: Option<CustomFn>) -> Verdict {
    match &case.pred {
        Pred::Expect(e) => {
            let o = run(&case.srcs[0]);
            match check_expect(&o, e, "case.sd") {
                Ok(()) => Verdict::Pass,
                Err(m) => Verdict::Fail(m),
            }
        },
        Pred::Same{same_msg, positions} => {
            let obs: Vec<Obs> = case.srcs.iter().map(|s| run(s)).collect();
            for (i, o) in obs.iter().enumerate() {
                if o.status == Status::Timeout {
                    return Verdict::Fail(format!("no termination within the time limit (variant {i})"));
                }
                if o.crashed() {
                    return Verdict::Fail(format!("variant {i} crashed: {}", o.brief()));
                }
            }
            let o0 = &obs[0];
            for (i, o) in obs.iter().enumerate().skip(1) {
                if o.out != o0.out || o.status != o0.status {
                    return Verdict::Fail(format!("variant {i} behaves differently from variant 0: {} vs {}", o.brief(), o0.brief()));
                }
                if *same_msg && !o0.ok() {
                    let (a, b) = (msg_of(o0), msg_of(o));
                    match (a, b) {
                        (Some(a), Some(b)) => {
                            if a.2 != b.2 {
                                return Verdict::Fail(format!("variant {i} fails with a different message: {:?} vs {:?}", b.2, a.2));
                            }
                        },
                        _ => return Verdict::Fail(format!("diagnostic without position: {} / {}", o0.brief(), o.brief())),
                    }
                }
            }
            if let Some(ps) = positions {
                if !o0.ok() {
                    for (i, o) in obs.iter().enumerate() {
                        match msg_of(o) {
                            Some((l, c, _)) => {
                                // (0, 0) stands for "where variant 0 reports it".
                                let want = if ps[i] == (0, 0) { msg_of(o0).map(|m| (m.0, m.1)).unwrap_or((0, 0)) } else { ps[i] };
                                if ps[i] == (0, 0) {
                                    // ... and with the same positions inside slots.
                                    let line = |x: &Obs| String::from_utf8_lossy(&x.err).lines().next().unwrap_or("").to_string();
                                    if line(o) != line(o0) {
                                        return Verdict::Fail(format!("variant {i} reports {:?}, variant 0 {:?}", line(o), line(o0)));
                                    }
                                }
                                if (l, c) != want {
                                    return Verdict::Fail(format!("variant {i} reports {l}:{c}, the token is at {}:{}", want.0, want.1));
                                }
                            },
                            None => return Verdict::Fail(format!("diagnostic without position: {}", o.brief())),
                        }
                    }
                }
            }
            Verdict::Pass
        },
        Pred::Tree{expected, strip} => {
            let src = match std::str::from_utf8(&case.srcs[0]) {
                Ok(s) => s,
                Err(_) => return Verdict::Skip("not UTF-8".to_string()),
            };
            match inproc_parse(src) {
                Err(e) => Verdict::Skip(format!("in-process back-end: {e:?}")),
                Ok(ParseRes::Rejected{line, col, msg}) => Verdict::Fail(format!("the parser rejects the printed program at {line}:{col}: {msg}")),
                Ok(ParseRes::Tree(t)) => {
                    let got = match sdmodel::dbgtree::parse_debug(&t) {
                        Ok(d) => d,
                        Err(e) => return Verdict::Skip(format!("cannot read the tree dump: {e}")),
                    };
                    let exp = match sdmodel::dbgtree::parse_debug(expected) {
                        Ok(d) => d,
                        Err(e) => return Verdict::Skip(format!("cannot read the expected tree: {e}")),
                    };
                    let (got, exp) =
                        if *strip {
                            (sdmodel::dbgtree::strip_locs(&got), sdmodel::dbgtree::strip_locs(&exp))
                        } else {
                            (got, exp)
                        };
                    match sdmodel::dbgtree::first_diff(&exp, &got, "") {
                        None => Verdict::Pass,
                        Some(d) => Verdict::Fail(format!("parsed tree differs from the written tree (expected vs parsed) at {d}")),
                    }
                },
            }
        },
        Pred::Front{accept} => {
            let o = run(&case.srcs[0]);
            if o.status == Status::Timeout || o.crashed() {
                return Verdict::Fail(format!("front end crashed: {}", o.brief()));
            }
            let rejected = o.reported() && o.out.is_empty() && {
                let s = o.err_s();
                s.contains("unexpected") || s.contains("expected") || s.contains("invalid") || s.contains("is not a valid") || s.contains("must be escaped") || s.contains("too high") || s.contains("interpolation slots start")
            };
            let _ = via;
            if *accept && rejected && is_front_error(&o) {
                return Verdict::Fail(format!("front end rejects a program it must accept: {}", o.brief()));
            }
            if !*accept && !is_front_error(&o) {
                return Verdict::Fail(format!("front end accepts a program it must reject: {}", o.brief()));
            }
            Verdict::Pass
        },
        Pred::Custom(v) => {
            match custom {
                Some(f) => f(case, v, via),
                None => Verdict::Skip("no custom evaluator".to_string()),
            }
        },
    }
}

// A front-end (lexical / syntax) rejection, recognised by its message.
pub fn is_front_error(o: &Obs) -> bool {
    if !o.reported() {
        return false;
    }
    let s = o.err_s();
    let first = s.lines().next().unwrap_or("");
    match take_loc(first, "case.sd") {
        Some((_, _, rest)) => {
            rest.starts_with("unexpected ") || rest.starts_with("invalid token") || rest.starts_with("encountered extra token")
                || (rest.starts_with('\'') && (rest.ends_with("is not a valid escape character") || rest.ends_with("is not a valid hex character") || rest.ends_with("is too high for an int") || rest.ends_with("must be escaped")))
                || rest.starts_with("interpolation slots start with")
        },
        None => false,
    }
}

// ------------------------------------------------------------------ JSON

pub fn bytes_json(b: &[u8]) -> Value {
    match std::str::from_utf8(b) {
        Ok(s) => json!({"text": s}),
        Err(_) => json!({"hex": b.iter().map(|x| format!("{x:02x}")).collect::<String>()}),
    }
}

pub fn bytes_from(v: &Value) -> Option<Vec<u8>> {
    if let Some(s) = v.get("text").and_then(|x| x.as_str()) {
        return Some(s.as_bytes().to_vec());
    }
    let h = v.get("hex")?.as_str()?;
    let mut out = vec![];
    let hb = h.as_bytes();
    for i in (0..hb.len()).step_by(2) {
        out.push(u8::from_str_radix(std::str::from_utf8(&hb[i..i + 2]).ok()?, 16).ok()?);
    }
    Some(out)
}

fn diag_json(d: &DiagPred) -> Value {
    match d {
        DiagPred::WellFormed{max_line} => json!({"well_formed": {"max_line": max_line}}),
        DiagPred::WellFormedFront{max_line} => json!({"well_formed_front": {"max_line": max_line}}),
        DiagPred::Pos{line, col} => json!({"pos": [line, col]}),
        DiagPred::SlotPos{line, col} => json!({"slot_pos": [line, col]}),
        DiagPred::InFunc(f) => json!({"in_func": f}),
        DiagPred::Trace(t) => json!({"trace": t.iter().map(|x| json!([x.line, x.col, x.func])).collect::<Vec<_>>()}),
        DiagPred::NoTrace => json!({"no_trace": true}),
        DiagPred::MsgContains(p) => json!({"msg_contains": p}),
    }
}

fn diag_from(v: &Value) -> Option<DiagPred> {
    if let Some(w) = v.get("well_formed") {
        return Some(DiagPred::WellFormed{max_line: w.get("max_line")?.as_u64()? as u32});
    }
    if let Some(w) = v.get("well_formed_front") {
        return Some(DiagPred::WellFormedFront{max_line: w.get("max_line")?.as_u64()? as u32});
    }
    if let Some(p) = v.get("slot_pos") {
        return Some(DiagPred::SlotPos{line: p.get(0)?.as_u64()? as u32, col: p.get(1)?.as_u64()? as u32});
    }
    if let Some(p) = v.get("pos") {
        return Some(DiagPred::Pos{line: p.get(0)?.as_u64()? as u32, col: p.get(1)?.as_u64()? as u32});
    }
    if let Some(f) = v.get("in_func") {
        return Some(DiagPred::InFunc(f.as_str().map(|s| s.to_string())));
    }
    if let Some(t) = v.get("trace") {
        let mut out = vec![];
        for x in t.as_array()? {
            out.push(TraceLine{line: x.get(0)?.as_u64()? as u32, col: x.get(1)?.as_u64()? as u32, func: x.get(2)?.as_str()?.to_string()});
        }
        return Some(DiagPred::Trace(out));
    }
    if v.get("no_trace").is_some() {
        return Some(DiagPred::NoTrace);
    }
    if let Some(p) = v.get("msg_contains") {
        return Some(DiagPred::MsgContains(p.as_array()?.iter().filter_map(|x| x.as_str().map(|s| s.to_string())).collect()));
    }
    None
}

impl Case {
    pub fn to_json(&self) -> Value {
        let pred = match &self.pred {
            Pred::Expect(e) => json!({"expect": {
                "stdout": e.stdout.as_ref().map(|b| bytes_json(b)),
                "status": match e.status { StatusClass::Ok => "ok", StatusClass::Err => "err", StatusClass::NoCrash => "nocrash" },
                "diag": e.diag.iter().map(diag_json).collect::<Vec<_>>(),
            }}),
            Pred::Same{same_msg, positions} => json!({"same": {"same_msg": same_msg, "positions": positions}}),
            Pred::Tree{expected, strip} => json!({"tree": {"expected": expected, "strip": strip}}),
            Pred::Front{accept} => json!({"front": {"accept": accept}}),
            Pred::Custom(v) => json!({"custom": v}),
        };
        json!({
            "property": self.property,
            "kind": self.kind,
            "sources": self.srcs.iter().map(|s| bytes_json(s)).collect::<Vec<_>>(),
            "pred": pred,
            "note": self.note,
        })
    }

    pub fn from_json(v: &Value) -> Option<Case> {
        let property = v.get("property")?.as_str()?.to_string();
        let kind = v.get("kind")?.as_str()?.to_string();
        let srcs = v.get("sources")?.as_array()?.iter().map(bytes_from).collect::<Option<Vec<_>>>()?;
        let note = v.get("note").and_then(|x| x.as_str()).unwrap_or("").to_string();
        let p = v.get("pred")?;
        let pred =
            if let Some(e) = p.get("expect") {
                let stdout = match e.get("stdout") { Some(Value::Null) | None => None, Some(b) => Some(bytes_from(b)?) };
                let status = match e.get("status")?.as_str()? { "ok" => StatusClass::Ok, "err" => StatusClass::Err, _ => StatusClass::NoCrash };
                let diag = e.get("diag")?.as_array()?.iter().map(diag_from).collect::<Option<Vec<_>>>()?;
                Pred::Expect(Expect{stdout, status, diag})
            } else if let Some(s) = p.get("same") {
                let positions = match s.get("positions") {
                    Some(Value::Array(a)) => Some(a.iter().map(|x| Some((x.get(0)?.as_u64()? as u32, x.get(1)?.as_u64()? as u32))).collect::<Option<Vec<_>>>()?),
                    _ => None,
                };
                Pred::Same{same_msg: s.get("same_msg")?.as_bool()?, positions}
            } else if let Some(t) = p.get("tree") {
                Pred::Tree{expected: t.get("expected")?.as_str()?.to_string(), strip: t.get("strip")?.as_bool()?}
            } else if let Some(f) = p.get("front") {
                Pred::Front{accept: f.get("accept")?.as_bool()?}
            } else {
                Pred::Custom(p.get("custom")?.clone())
            };
        Some(Case{property, kind, srcs, pred, note})
    }
}
