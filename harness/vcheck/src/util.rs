// Helpers shared by the property modules.

use sdmodel::ast::*;
use sdmodel::dbgtree;
use sdmodel::dbgtree::D;

use crate::backend::*;

// Parses Seed source with the real front end (in-process) into the model AST.
pub fn model_from_source(src: &str) -> Result<Prog, String> {
    match inproc_parse(src).map_err(|e| format!("{e:?}"))? {
        ParseRes::Rejected{line, col, msg} => Err(format!("rejected at {line}:{col}: {msg}")),
        ParseRes::Tree(t) => {
            let d = dbgtree::parse_debug(&t)?;
            let mut sp = |slot: &str| -> Option<D> {
                match inproc_parse_expr(slot) {
                    Ok(ParseRes::Tree(t)) => dbgtree::parse_debug(&t).ok(),
                    _ => None,
                }
            };
            dbgtree::prog_from_debug(&d, &mut sp)
        },
    }
}
