// vcheck <property> quick|thorough        run a check
// vcheck <property> --replay <file>       re-run one saved case
// vcheck conformance                      reference interpreter vs. the repository's own tests
mod backend;
mod diag;
mod engine;
mod fuzzdrive;
mod pred;
mod repotests;
mod util;
mod props;

use std::process::exit;

use backend::*;
use engine::*;

fn prepare() {
    if let Err(e) = build_cli() {
        eprintln!("{e}");
        eprintln!("cannot build the system under test from {}: exit 2", repo_dir());
        exit(2);
    }
    if std::env::var("VERIF_NO_INPROC").is_ok() {
        eprintln!("note: in-process back-end disabled by VERIF_NO_INPROC");
        set_worker_available(false);
        return;
    }
    match build_worker() {
        Ok(caps) => {
            set_worker_available(true);
            set_worker_can_run(caps.contains("run"));
            if caps != "run,perr" {
                eprintln!("note: in-process back-end built with reduced capabilities [{caps}]: the repository's main.rs no longer matches the harness's copy of its diagnostic formatting; runs go through the CLI");
            }
        },
        Err(e) => {
            eprintln!("note: in-process back-end unavailable, falling back to the CLI only:\n{e}");
            set_worker_available(false);
        },
    }
}

fn main() {
    let args: Vec<String> = std::env::args().collect();
    if args.len() < 2 {
        eprintln!("usage: vcheck <property|conformance> [quick|thorough|--replay <file>]");
        exit(2);
    }
    let seed: u64 = std::env::var("VERIF_SEED").ok().and_then(|s| s.parse::<i64>().ok()).map(|v| v as u64).unwrap_or(20260930);
    let threads = std::env::var("VERIF_THREADS").ok().and_then(|s| s.parse().ok()).unwrap_or(16usize);
    rayon::ThreadPoolBuilder::new().num_threads(threads).stack_size(64 << 20).build_global().unwrap();
    prepare();
    let code = std::thread::Builder::new().stack_size(256 << 20).spawn(move || run(args, seed)).unwrap().join().unwrap_or(2);
    cleanup_scratch();
    exit(code);
}

fn run(args: Vec<String>, seed: u64) -> i32 {
    let what = args[1].as_str();
    if what == "conformance" {
        return props::conformance::run();
    }
    if args.len() >= 4 && args[2] == "--replay" {
        return props::replay(what, &args[3]);
    }
    let tier = match args.get(2).map(|s| s.as_str()) {
        Some("thorough") => Tier::Thorough,
        _ => match std::env::var("VERIF_TIER").as_deref() { Ok("thorough") => Tier::Thorough, _ => Tier::Quick },
    };
    let ctx = Ctx::new(what, tier, seed);
    if !props::dispatch(&ctx) {
        eprintln!("unknown property {what}");
        return 2;
    }
    ctx.finish()
}
