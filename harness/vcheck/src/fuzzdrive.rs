// Drives the cargo-fuzz (libFuzzer) targets of harness/fuzz for the thorough
// tiers: fixed -runs per round, fresh corpus directories, several processes
// in parallel. A crash artifact is handed back to the caller, which decodes
// it with the same decoder and re-judges it through the real binary; oom /
// timeout artifacts are resource events of the fuzzing process (the
// interpreters leak reference cycles) and are only counted.

use std::fs;
use std::path::PathBuf;
use std::process::Command;
use std::process::Stdio;

use rayon::prelude::*;

use crate::backend::*;
use crate::engine::Ctx;

fn fuzz_dir() -> String { format!("{VERIF}/harness/fuzz") }
fn fuzz_target_dir() -> String { format!("{VERIF}/.cache/fuzz-target") }

pub fn build(ctx: &Ctx) -> bool {
    let out = Command::new("cargo")
        .arg("+nightly").arg("fuzz").arg("build").arg("-s").arg("none")
        .arg("--target-dir").arg(fuzz_target_dir())
        .current_dir(fuzz_dir())
        .env("CARGO_NET_OFFLINE", "true").env("SEED_REPO", repo_dir()).env("RUST_BACKTRACE", "0")
        .stdin(Stdio::null())
        .output();
    match out {
        Ok(o) if o.status.success() => true,
        Ok(o) => {
            let e = String::from_utf8_lossy(&o.stderr);
            let tail: Vec<&str> = e.lines().rev().take(15).collect();
            ctx.note(&format!("libFuzzer targets could not be built; coverage-guided part skipped: {}", tail.into_iter().rev().collect::<Vec<_>>().join(" | ")));
            false
        },
        Err(e) => {
            ctx.note(&format!("cargo fuzz not runnable ({e}); coverage-guided part skipped"));
            false
        },
    }
}

pub struct CampaignResult {
    pub executions: u64,
    pub crashes: Vec<Vec<u8>>,
    pub resource_events: u64,
}

// `procs` parallel processes x `rounds` rounds x `runs` executions each.
pub fn campaign(ctx: &Ctx, target: &str, procs: usize, rounds: usize, runs: u64, max_len: usize, seeds: &[Vec<u8>]) -> CampaignResult {
    let base = PathBuf::from(format!("{VERIF}/.cache/fuzz/{}-{}-{}", target, ctx.seed, std::process::id()));
    let _ = fs::remove_dir_all(&base);
    let bin = format!("{}/x86_64-unknown-linux-gnu/release/{target}", fuzz_target_dir());
    let results: Vec<(u64, Vec<Vec<u8>>, u64)> = (0..procs).into_par_iter().map(|p| {
        let corpus = base.join(format!("corpus{p}"));
        let arts = base.join(format!("artifacts{p}"));
        let _ = fs::create_dir_all(&corpus);
        let _ = fs::create_dir_all(&arts);
        for (i, s) in seeds.iter().enumerate() {
            if i % procs == p {
                let _ = fs::write(corpus.join(format!("seed{i}")), s);
            }
        }
        let mut execs = 0u64;
        let mut crashes = vec![];
        let mut resource = 0u64;
        for r in 0..rounds {
            if ctx.stopped() {
                break;
            }
            let seed = (ctx.sub_seed(target, (p * 1000 + r) as u64) % 0x7fff_fffe) + 1;
            let out = Command::new(&bin)
                .arg(&corpus)
                .arg(format!("-runs={runs}")).arg(format!("-seed={seed}")).arg(format!("-max_len={max_len}"))
                .arg("-len_control=0").arg("-rss_limit_mb=6000").arg("-timeout=20").arg("-print_final_stats=1")
                .arg(format!("-artifact_prefix={}/", arts.display()))
                .current_dir(&base)
                .env_clear().env("RUST_BACKTRACE", "0")
                .stdin(Stdio::null()).stdout(Stdio::null()).stderr(Stdio::piped())
                .output();
            if let Ok(o) = out {
                let e = String::from_utf8_lossy(&o.stderr);
                for l in e.lines() {
                    if let Some(v) = l.strip_prefix("stat::number_of_executed_units:") {
                        execs += v.trim().parse::<u64>().unwrap_or(0);
                    }
                }
            }
            if let Ok(rd) = fs::read_dir(&arts) {
                for ent in rd.filter_map(|e| e.ok()) {
                    let name = ent.file_name().to_string_lossy().to_string();
                    if name.starts_with("crash-") {
                        if let Ok(b) = fs::read(ent.path()) {
                            crashes.push(b);
                        }
                    } else {
                        resource += 1;
                    }
                    let _ = fs::remove_file(ent.path());
                }
            }
            if !crashes.is_empty() {
                break;
            }
        }
        (execs, crashes, resource)
    }).collect();
    let _ = fs::remove_dir_all(&base);
    let mut res = CampaignResult{executions: 0, crashes: vec![], resource_events: 0};
    for (e, c, r) in results {
        res.executions += e;
        res.crashes.extend(c);
        res.resource_events += r;
    }
    ctx.set_extra(&format!("libfuzzer_{target}"), serde_json::json!({"executions": res.executions, "crash_artifacts": res.crashes.len(), "oom_or_timeout_artifacts": res.resource_events, "processes": procs, "rounds": rounds, "runs_per_round": runs}));
    res
}
