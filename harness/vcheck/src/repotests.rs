// Reader of the repository's own `tests/stdout/*.test` / `*.xtest` scripts.
// They serve as a conformance suite for the reference interpreter and as a
// starting corpus for front-end mutation.

use std::fs;

use crate::backend::repo_dir;

#[derive(Clone, Debug)]
pub struct RepoTest {
    pub name: String,
    pub src: String,
    pub code: i32,
    pub stdout: String,
    pub stderr: String,
}

pub fn load() -> Vec<RepoTest> {
    let dir = format!("{}/tests/stdout", repo_dir());
    let mut out = vec![];
    let mut paths: Vec<_> = match fs::read_dir(&dir) {
        Ok(rd) => rd.filter_map(|e| e.ok()).map(|e| e.path()).collect(),
        Err(_) => return out,
    };
    paths.sort();
    for p in paths {
        let ext = p.extension().and_then(|e| e.to_str()).unwrap_or("").to_string();
        if ext != "test" && ext != "xtest" {
            continue;
        }
        let extended = ext == "xtest";
        let stem = p.file_stem().and_then(|s| s.to_str()).unwrap_or("").to_string();
        let text = match fs::read_to_string(&p) { Ok(t) => t, Err(_) => continue };
        let mut cur: Option<RepoTest> = None;
        let mut section = 0;
        for line in text.lines() {
            if let Some(suf) = line.strip_prefix("==================================================") {
                if let Some(t) = cur.take() {
                    out.push(t);
                }
                if suf.is_empty() {
                    break;
                }
                cur = Some(RepoTest{name: format!("{stem}::{}", suf.trim()), src: String::new(), code: 0, stdout: String::new(), stderr: String::new()});
                section = 0;
                continue;
            }
            if line == "--------------------------------------------------" {
                section += 1;
                continue;
            }
            if let Some(t) = cur.as_mut() {
                let l = format!("{line}\n");
                match (extended, section) {
                    (true, 0) => t.code = line.strip_prefix("exit_code: ").and_then(|v| v.parse().ok()).unwrap_or(0),
                    (true, 1) | (false, 0) => t.src += &l,
                    (true, 2) | (false, 1) => t.stdout += &l,
                    (true, 3) => t.stderr += &l,
                    _ => {},
                }
            }
        }
    }
    out
}
