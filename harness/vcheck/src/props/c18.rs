// C18 — reported positions are the true line and column of the offending
// token. (a) failing programs with a documented position rule under random
// layouts of the text before the token; (b) the same program in two layouts;
// (c) in-process: every token start the real lexer reports and every position
// stored in the real syntax tree equals what the printer recorded.

use serde_json::json;
use serde_json::Value;

use sdmodel::ast::*;
use sdmodel::dbgtree;
use sdmodel::gen;
use sdmodel::interp;
use sdmodel::print;
use sdmodel::tape::Tape;

use crate::backend::*;
use crate::engine::*;
use crate::pred::*;
use crate::props::common::*;
use crate::props::c17;
use crate::props::faults;

// Statements that stretch over several lines and contain multi-byte text,
// placed before the offending token.
fn preambles(t: &mut Tape) -> Vec<Stmt> {
    let mut out = vec![];
    let n = t.pick(4);
    for k in 0..n {
        match t.pick(8) {
            5 => {
                // A long help text over several lines whose closing quote
                // stands at the start of its own line.
                let reps = [1usize, 3, 7, 12][t.pick(4)];
                let line = ["usage: tool [options] <input> <output>\n", "  --verbose   say more about what is going on, é\n", "\n", "日本語の行\n"];
                let mut s = String::new();
                for r in 0..reps {
                    s.push_str(line[(r + k) % line.len()]);
                }
                let text: Vec<(char, Spell)> = s.chars().map(|c| (c, Spell::Raw)).collect();
                out.push(declare(var(&format!("pre{k}")), ex(EK::Str(text))));
            },
            6 => {
                // An interpolated literal with multi-byte text in the literal
                // part and inside the slots.
                let parts = vec![
                    StrPart::Text("é日 ".chars().map(|c| (c, Spell::Raw)).collect()),
                    StrPart::Slot(Box::new(index(obj(vec![pair("Zoë", string("ü"))]), string("Zoë")))),
                    StrPart::Text(" — \n".chars().map(|c| (c, Spell::Raw)).collect()),
                    StrPart::Slot(Box::new(bin(Op::Sum, string("🙂"), string("x")))),
                ];
                out.push(declare(var(&format!("pre{k}")), ex(EK::Interp(parts))));
            },
            7 => {
                // One very long line.
                let items: Vec<Expr> = (0..[40i64, 90, 200][t.pick(3)]).map(|v| if v % 7 == 0 { string("é") } else { int(v) }).collect();
                out.push(declare(var(&format!("pre{k}")), list(items)));
            },
            0 => {
                // A multi-line string literal with multi-byte characters.
                let text: Vec<(char, Spell)> = "é日本\n🙂 two\n\tthree".chars().map(|c| (c, Spell::Raw)).collect();
                out.push(declare(var(&format!("pre{k}")), ex(EK::Str(text))));
            },
            1 => out.push(declare(var(&format!("pre{k}")), list(vec![string("ü"), int(1), list(vec![string("日"), int(2)])]))),
            2 => out.push(declare(var(&format!("pre{k}")), obj(vec![pair("é", int(1)), pair("k", string("🙂🙂"))]))),
            3 => out.push(sdmodel::ast::print(string("ünï"))),
            _ => out.push(if_(boolean(true), vec![sdmodel::ast::print(string("in\nner"))], Some(vec![]))),
        }
    }
    out
}

fn with_preamble(prog: &Prog, pre: Vec<Stmt>) -> Prog {
    let mut stmts = pre;
    stmts.extend(prog.stmts.iter().cloned());
    Prog::new(stmts)
}

// Extra slots that put multi-byte text on the same line before the token.
fn same_line_slots(f: &Expr) -> Vec<(&'static str, Vec<Stmt>)> {
    vec![
        ("after a multi-byte string in a list", vec![sdmodel::ast::print(list(vec![string("日本🙂é"), f.clone()]))]),
        ("after a multi-byte key", vec![sdmodel::ast::print(obj(vec![pair("ключ", int(1)), pair("k", f.clone())]))]),
        ("after a multi-byte argument", vec![sdmodel::ast::print(call(var("usr"), vec![call(tprop(string("🙂é"), "len"), vec![]), f.clone()]))]),
        ("second operand after a multi-byte string", vec![sdmodel::ast::print(bin(Op::Sum, call(tprop(string("tab\there é"), "len"), vec![]), f.clone()))]),
        ("second slot after a slot with multi-byte text", vec![sdmodel::ast::print(ex(EK::Interp(vec![
            StrPart::Text("é ".chars().map(|c| (c, Spell::Raw)).collect()),
            StrPart::Slot(Box::new(index(obj(vec![pair("Zoë", string("ü"))]), string("Zoë")))),
            StrPart::Text(" 日 ".chars().map(|c| (c, Spell::Raw)).collect()),
            StrPart::Slot(Box::new(f.clone())),
        ])))]),
        ("third slot after two slots with multi-byte literals", vec![sdmodel::ast::print(ex(EK::Interp(vec![
            StrPart::Slot(Box::new(string("🙂🙂"))),
            StrPart::Slot(Box::new(bin(Op::Sum, string("日本"), string("é")))),
            StrPart::Text("-".chars().map(|c| (c, Spell::Raw)).collect()),
            StrPart::Slot(Box::new(f.clone())),
            StrPart::Text("é".chars().map(|c| (c, Spell::Raw)).collect()),
        ])))]),
        ("slot after escapes and a multi-byte slot", vec![sdmodel::ast::print(ex(EK::Interp(vec![
            StrPart::Text(vec![('\\', Spell::Esc), ('$', Spell::Esc), ('"', Spell::Esc), ('A', Spell::Hex), ('ß', Spell::Raw)]),
            StrPart::Slot(Box::new(call(tprop(string("ключ"), "type"), vec![]))),
            StrPart::Slot(Box::new(f.clone())),
        ])))]),
        ("slot holding braces before and after the fault", vec![sdmodel::ast::print(ex(EK::Interp(vec![
            StrPart::Text("é ".chars().map(|c| (c, Spell::Raw)).collect()),
            StrPart::Slot(Box::new(bin(Op::Sum, prop(paren(obj(vec![pair("k", string("v"))])), "k"), bin(Op::Sum, f.clone(), call(func(vec![], false, vec![ret(string("z"))]), vec![]))))),
            StrPart::Text("!".chars().map(|c| (c, Spell::Raw)).collect()),
        ])))]),
        ("fault as a property value inside a slot", vec![sdmodel::ast::print(ex(EK::Interp(vec![
            StrPart::Slot(Box::new(call(var("usr"), vec![prop(paren(obj(vec![pair("a", string("x")), pair("k", f.clone())])), "a"), string("y")]))),
        ])))]),
        ("chain of three operators", vec![sdmodel::ast::print(bin(Op::Sum, bin(Op::Sum, int(1), int(2)), f.clone()))]),
        ("chain with the fault first", vec![sdmodel::ast::print(bin(Op::Sub, bin(Op::Sum, f.clone(), int(2)), int(3)))]),
        ("chain with the fault in the middle", vec![sdmodel::ast::print(bin(Op::Mul, bin(Op::Mul, bin(Op::Mul, int(2), f.clone()), int(3)), int(4)))]),
    ]
}

fn token_case(printed: &print::Printed) -> Case {
    let exp: Vec<Value> = printed.toks.iter().map(|t| json!([t.pos.line, t.pos.col, t.text])).collect();
    Case{
        property: "C18".into(), kind: "token_positions".into(), srcs: vec![printed.src.clone().into_bytes()],
        pred: Pred::Custom(json!({"tokens": exp})), note: "every token start reported by the lexer".into(),
    }
}

pub fn custom(case: &Case, v: &Value, _via: Via) -> Verdict {
    let exp = match v.get("tokens").and_then(|x| x.as_array()) {
        Some(e) => e,
        None => return Verdict::Skip("unknown custom predicate".into()),
    };
    let src = match std::str::from_utf8(&case.srcs[0]) { Ok(s) => s, Err(_) => return Verdict::Skip("not UTF-8".into()) };
    let (toks, err) = match inproc_lex(src) {
        Ok(x) => x,
        Err(e) => return Verdict::Skip(format!("in-process back-end: {e:?}")),
    };
    if let Some(e) = err {
        return Verdict::Fail(format!("the lexer rejects a printed program: {e}"));
    }
    let real: Vec<&TokRec> = toks.iter().filter(|t| t.dbg != "StmtEnd").collect();
    if real.len() != exp.len() {
        return Verdict::Fail(format!("the lexer sees {} tokens, {} were written", real.len(), exp.len()));
    }
    for (r, e) in real.iter().zip(exp.iter()) {
        let (l, c) = (e[0].as_u64().unwrap_or(0) as u32, e[1].as_u64().unwrap_or(0) as u32);
        if (r.sl, r.sc) != (l, c) {
            return Verdict::Fail(format!("token {} was written at {l}:{c} but the lexer reports {}:{} ({})", e[2].as_str().unwrap_or(""), r.sl, r.sc, r.dbg));
        }
    }
    Verdict::Pass
}

fn has_pos(e: &Expect) -> bool { e.diag.iter().any(|d| matches!(d, DiagPred::Pos{..} | DiagPred::SlotPos{..})) }

fn precedes(printed: &print::Printed, e: &Expect) -> Vec<&'static str> {
    // What kinds of text lie before the responsible token.
    let mut out = vec![];
    if let Some(DiagPred::Pos{line, col}) = e.diag.iter().find(|d| matches!(d, DiagPred::Pos{..})) {
        let mut cur_line = 1u32;
        let mut cur_col = 0u32;
        let mut in_comment = false;
        for ch in printed.src.chars() {
            if cur_line > *line || (cur_line == *line && cur_col + 1 >= *col) {
                break;
            }
            if ch == '\n' {
                cur_line += 1;
                cur_col = 0;
                in_comment = false;
                continue;
            }
            cur_col += 1;
            if ch == '#' { in_comment = true; }
            if ch == '\t' && !out.contains(&"tab") { out.push("tab"); }
            if ch == '\r' && !out.contains(&"CR") { out.push("CR"); }
            if in_comment && !out.contains(&"comment") { out.push("comment"); }
            if !ch.is_ascii() {
                if cur_line == *line {
                    if !out.contains(&"multi-byte character on the same line") { out.push("multi-byte character on the same line"); }
                } else if !out.contains(&"multi-byte character on an earlier line") {
                    out.push("multi-byte character on an earlier line");
                }
            }
        }
    }
    out
}

pub fn run(ctx: &Ctx) {
    ctx.set_rule("(a) the C17 fault catalogue restricted to the errors with a documented position rule (undefined name -> the name, operator type / overflow error -> the operator, call errors -> first token of the call, every stack-trace line -> the call), plus slots that put multi-byte text and operator chains on the same line, each under a canonical and a random layout with multi-line / multi-byte statements before it; lexical and parse errors at known tokens; (c) for random programs in random layouts: every token start reported by the real lexer and every position in the real syntax tree equals the printer's record; positions up to line 1000 / column 1000; faults inside the 2nd / 3rd interpolation slot (position composed from the reported `L:C: l:c:` chain); multi-line help texts, interpolated and 200-item one-line preambles. Non-trivial = the responsible token is preceded by a tab, CR, comment, multi-byte character, multi-line literal or continuation break; distinct = distinct source texts");
    ctx.replay_corpus(Some(&custom));
    let hist = crate::props::faults::history_cases("C18", &["runtime"]);
    ctx.label_n("literal evaluated after similar literals: independent of the history", hist.len() as u64);
    ctx.judge_all(hist, Via::Cli, None);
    // (a) + (b)
    let mut built = c17::catalogue(ctx.tier == Tier::Thorough);
    for (fname, f) in faults::fault_exprs() {
        for (sname, body) in same_line_slots(&f) {
            for depth in [0usize, 1] {
                let mut stmts = faults::prelude();
                stmts.extend(faults::wrap_calls(body.clone(), depth, 0));
                built.push(c17::Built{prog: Prog::new(stmts), label: format!("{fname} {sname} @ depth {depth}"), depth});
            }
        }
    }
    let mut cases = vec![];
    let mut t = sdmodel::tape::tape_from_seed(ctx.sub_seed("layouts", 0), built.len() * 400);
    for b in &built {
        let pre = preambles(&mut t);
        let prog = with_preamble(&b.prog, pre);
        let b2 = c17::Built{prog, label: b.label.clone(), depth: b.depth};
        let canon = print::print_canonical(&b2.prog);
        let wild = print::print_prog(&b2.prog, &print::Style::wild(20), Some(&mut t));
        for (printed, lay) in [(&canon, "canonical"), (&wild, "random layout")] {
            if let Some((mut c, _)) = c17::case_of(ctx, "C18", &b2, printed, DiagLevel::Position) {
                let e = match &c.pred { Pred::Expect(e) => e.clone(), _ => continue };
                let has_trace = e.diag.iter().any(|d| matches!(d, DiagPred::Trace(_)));
                if !has_pos(&e) && !has_trace {
                    ctx.exclude("no documented position rule for this error class");
                    continue;
                }
                c.kind = "position".into();
                c.note = format!("{} [{lay}]", c.note);
                let pr = precedes(printed, &e);
                for p in &pr {
                    ctx.label(&format!("preceded by {p}"));
                }
                ctx.label(if has_pos(&e) { "exact position asserted" } else { "trace positions only" });
                cases.push((c, !pr.is_empty() || has_trace));
            }
        }
    }
    ctx.judge_all(cases, Via::Cli, None);
    // Lexical / parse errors at a known token, after layout-heavy text.
    let mut cases = vec![];
    let heads = ["", "# é comment\n", "x := \"é\n日\"\n", "\t\tprint(1); ", "ys := [1,\n  2,\n]\n\n", "s := \"🙂🙂\"; "];
    // `§` marks the offending character / token (removed from the source).
    let tails: [(&str, &str); 10] = [
        ("y := §@", "lexical"), ("y := \"ab\\§qc\"", "lexical"), ("y := \"\\x§Z1\"", "lexical"), ("y := \"a§$b\"", "lexical"),
        ("y := $\"é$§x\"", "lexical"), ("y := §99999999999999999999", "lexical"), ("y := 1 §2", "parse"), ("y := §)", "parse"),
        ("print(1) §else", "parse"), ("\"é🙂\" §\"b\"", "parse"),
    ];
    for h in heads {
        for (marked, class) in tails {
            let col = marked.chars().take_while(|c| *c != '§').count() as u32 + 1;
            let tail = marked.replace('§', "");
            let src = format!("{h}{tail}\n");
            let line = 1 + h.matches('\n').count() as u32;
            let base: u32 = match h.rfind('\n') { Some(i) => h[i + 1..].chars().count() as u32, None => h.chars().count() as u32 };
            let mut e = Expect::err(vec![]);
            e.diag = vec![DiagPred::WellFormedFront{max_line: line + 1}, DiagPred::Pos{line, col: base + col}];
            ctx.label(&format!("{class} error position"));
            cases.push((Case{property: "C18".into(), kind: "front_position".into(), srcs: vec![src.into_bytes()], pred: Pred::Expect(e), note: format!("{class} error at a known token")}, !h.is_empty()));
        }
    }
    ctx.judge_all(cases, Via::Cli, None);
    // Far positions: three-digit lines and columns.
    let mut cases = vec![];
    for lines_before in [99usize, 100, 255, 256, 1000] {
        for width in [99usize, 100, 255, 256, 300, 1000] {
            let mut src = String::new();
            for k in 0..lines_before {
                if k % 3 == 0 { src.push_str("# é comment\n") } else if k % 3 == 1 { src.push('\n') } else { src.push_str(&format!("pad{k} := \"日本\"; pad{k} = pad{k}\n")) }
            }
            // A string literal of `width` characters, then the failing operator.
            let text: String = std::iter::repeat("é1").take(width / 2 + 1).collect::<String>().chars().take(width).collect();
            let line_no = src.matches('\n').count() as u32 + 1;
            src.push_str(&format!("wide := \"{text}\" + 1\n"));
            let mut e = Expect::err(vec![]);
            e.stdout = None;
            e.diag = vec![DiagPred::WellFormed{max_line: line_no + 1}, DiagPred::Pos{line: line_no, col: 9 + width as u32 + 3}];
            ctx.label("far position");
            cases.push((Case{property: "C18".into(), kind: "far_position".into(), srcs: vec![src.into_bytes()], pred: Pred::Expect(e), note: format!("operator at line {line_no}, after a {width}-character multi-byte literal")}, true));
        }
    }
    ctx.judge_all(cases, Via::Cli, None);
    // (c) structural: tokens and tree positions.
    if !worker_available() {
        ctx.note("in-process back-end unavailable: token / tree position checks skipped");
        return;
    }
    let cfg = gen::GenCfg::balanced();
    let n = ctx.n(50_000, 800_000);
    ctx.proptest_tapes("structure", n, 900, Via::Cli, Some(&custom), |t| {
        let prog = gen::gen_prog(t, &cfg);
        let style = print::Style::wild(20);
        let printed = print::print_prog(&prog, &style, Some(t));
        let tc = token_case(&printed);
        // Judge the token positions here, return the tree case.
        if !ctx.judge(&tc, printed.stats.odd_ws > 0 || printed.stats.comments > 0, Via::Cli, Some(&custom)) {
            return None;
        }
        let img = dbgtree::Image{printed: Some(&printed), n_ids: prog.n_ids as usize}.prog(&prog);
        let nt = !printed.stats.cont_breaks.is_empty() || printed.stats.comments > 0 || printed.stats.odd_ws > 0 || !printed.src.is_ascii();
        if !printed.src.is_ascii() { ctx.label("structure: multi-byte text"); }
        if printed.stats.odd_ws > 0 { ctx.label("structure: tabs / CR"); }
        if !printed.stats.cont_breaks.is_empty() { ctx.label("structure: continuation breaks"); }
        Some((Case{
            property: "C18".into(), kind: "tree_positions".into(), srcs: vec![printed.src.clone().into_bytes()],
            pred: Pred::Tree{expected: dbgtree::fmt_d(&img), strip: false}, note: "every position stored in the syntax tree".into(),
        }, nt))
    });
    let _ = interp::run;
}
