// C12 — objects behave as string-keyed maps with deterministic key order.
// Exhaustive short histories over a key alphabet, all insertion orders,
// literal forms, and the `.k` <-> `["k"]` rewriting; oracle: reference map
// model (byte-ordered) and the metamorphic relation.

use std::collections::HashSet;
use std::sync::Mutex;

use rayon::prelude::*;

use sdmodel::ast::*;
use sdmodel::gen::is_ident;
use sdmodel::interp;
use sdmodel::print;

use crate::engine::*;
use crate::pred::*;
use crate::props::common::*;

const KEYS: [&str; 8] = ["a", "b", "A", "a b", "", "1", "é", "aa"];
const IDENT_KEYS: [&str; 4] = ["a", "b", "A", "aa"];

fn pv(e: Expr) -> Stmt { sdmodel::ast::print(e) }

// The operation alphabet: index -> statements.
fn n_ops() -> usize { 8 + 4 + 8 + 4 + 8 + 4 + 8 + 8 + 1 + 8 }

fn op(code: usize, step: i64) -> (Vec<Stmt>, &'static str) {
    let v = int(10 + step);
    let mut c = code;
    if c < 8 { return (vec![assign(index(var("o"), string(KEYS[c])), v)], "insert/overwrite by [k]"); }
    c -= 8;
    if c < 4 { return (vec![assign(prop(var("o"), IDENT_KEYS[c]), v)], "insert/overwrite by .k"); }
    c -= 4;
    if c < 8 { return (vec![op_assign(index(var("o"), string(KEYS[c])), Op::Sum, int(1))], "op-assign by [k]"); }
    c -= 8;
    if c < 4 { return (vec![op_assign(prop(var("o"), IDENT_KEYS[c]), Op::Mul, int(2))], "op-assign by .k"); }
    c -= 4;
    if c < 8 { return (vec![pv(index(var("o"), string(KEYS[c])))], "read by [k]"); }
    c -= 8;
    if c < 4 { return (vec![pv(prop(var("o"), IDENT_KEYS[c]))], "read by .k"); }
    c -= 4;
    if c < 8 { return (vec![assign(var("p"), obj(vec![Prop::Single{e: var("o"), spread: true, collect: false}, Prop::Pair(string(KEYS[c]), v)]))], "spread then pair"); }
    c -= 8;
    if c < 8 { return (vec![assign(var("p"), obj(vec![Prop::Pair(string(KEYS[c]), v), Prop::Single{e: var("o"), spread: true, collect: false}]))], "pair then spread"); }
    c -= 8;
    if c < 1 { return (vec![assign(var("o"), obj(vec![Prop::Single{e: var("o"), spread: true, collect: false}, Prop::Single{e: var("p"), spread: true, collect: false}]))], "merge two spreads"); }
    c -= 1;
    // Remove-free maps: a computed key.
    (vec![assign(index(var("o"), bin(Op::Sum, string(KEYS[c % 8]), string(""))), v)], "insert by computed key")
}

fn observe() -> Vec<Stmt> {
    vec![
        pv(var("o")),
        for_(list(vec![var("k"), var("v")]), var("o"), vec![pv(var("k")), pv(var("v"))]),
        pv(var("p")),
        pv(bin(Op::Eq, var("o"), var("p"))),
        pv(bin(Op::Eq, var("o"), obj(vec![Prop::Single{e: var("o"), spread: true, collect: false}]))),
    ]
}

fn history(digits: &[usize], start: usize) -> (Prog, Vec<&'static str>) {
    let mut stmts = vec![
        declare(var("o"), if start == 0 { obj(vec![]) } else { obj(vec![pair("b", int(1)), pair("é", int(2))]) }),
        declare(var("p"), obj(vec![pair("aa", int(0)), pair("b", int(7))])),
    ];
    let mut labels = vec![];
    for (i, d) in digits.iter().enumerate() {
        let (s, l) = op(*d, i as i64);
        stmts.extend(s);
        labels.push(l);
    }
    stmts.extend(observe());
    (Prog::new(stmts), labels)
}

// `.k` <-> `["k"]` rewriting of every access whose key is an identifier.
fn flip_expr(e: &mut Expr) {
    match &mut e.k {
        EK::Prop(s, name, false) => {
            flip_expr(s);
            let src = std::mem::replace(&mut **s, null());
            e.k = EK::Index(Box::new(src), Box::new(string(name)));
        },
        EK::Index(s, i) => {
            flip_expr(s);
            flip_expr(i);
            let key = match &i.k { EK::Str(cs) if cs.iter().all(|c| c.1 == Spell::Raw) => Some(cs.iter().map(|c| c.0).collect::<String>()), _ => None };
            if let Some(k) = key {
                if is_ident(&k) && k != "_" {
                    let src = std::mem::replace(&mut **s, null());
                    e.k = EK::Prop(Box::new(src), k, false);
                }
            }
        },
        EK::Prop(s, _, true) => flip_expr(s),
        EK::Bin(_, l, r) | EK::Range(l, r) => { flip_expr(l); flip_expr(r); },
        EK::List(items, _) => for it in items { flip_expr(&mut it.e); },
        EK::Obj(props) => for p in props {
            match p {
                Prop::Pair(k, v) => { flip_expr(k); flip_expr(v); },
                Prop::Single{e, ..} => flip_expr(e),
            }
        },
        EK::RangeIndex(s, a, b) => {
            flip_expr(s);
            if let Some(a) = a { flip_expr(a); }
            if let Some(b) = b { flip_expr(b); }
        },
        EK::Func(_, _, body) => flip_block(body),
        EK::Call(f, args) => { flip_expr(f); for a in args { flip_expr(&mut a.e); } },
        _ => {},
    }
}

fn flip_block(b: &mut [Stmt]) {
    for s in b {
        match &mut s.k {
            SK::Block(b) => flip_block(b),
            SK::Expr(e) | SK::Return(e) => flip_expr(e),
            SK::Declare(l, r) | SK::Assign(l, r) | SK::OpAssign(l, _, r) => { flip_expr(l); flip_expr(r); },
            SK::If(br, els) => {
                for (c, b) in br { flip_expr(c); flip_block(b); }
                if let Some(b) = els { flip_block(b); }
            },
            SK::While(c, b) => { flip_expr(c); flip_block(b); },
            SK::For(_, i, b) => { flip_expr(i); flip_block(b); },
            SK::FuncDecl(_, _, _, b) => flip_block(b),
            SK::Break | SK::Continue => {},
        }
    }
}

fn enumerate(ctx: &Ctx, len: usize, sample_every: u64) {
    let base = n_ops() as u64;
    let total = base.pow(len as u32) * 2;
    let seen: Mutex<HashSet<u64>> = Mutex::new(HashSet::new());
    (0..total).into_par_iter().for_each(|code0| {
        if ctx.stopped() {
            return;
        }
        if sample_every > 1 && (code0.wrapping_mul(0x9E3779B97F4A7C15) >> 20) % sample_every != ctx.seed % sample_every {
            return;
        }
        let start = (code0 % 2) as usize;
        let mut c = code0 / 2;
        let mut digits = vec![];
        for _ in 0..len {
            digits.push((c % base) as usize);
            c /= base;
        }
        let (prog, labels) = history(&digits, start);
        let printed = print::print_canonical(&prog);
        if !seen.lock().unwrap().insert(fnv(printed.src.as_bytes())) {
            return;
        }
        let rr = interp::run(&prog);
        let expect = match ref_expect(&printed, &rr, DiagLevel::None) { Some(e) => e, None => return };
        for l in &labels {
            ctx.label(l);
        }
        label_outcome(ctx, &rr);
        let nt = digits.len() >= 2;
        let case = Case{property: "C12".into(), kind: "history".into(), srcs: vec![printed.src.clone().into_bytes()], pred: Pred::Expect(expect), note: format!("history {digits:?} from start {start}")};
        let via = if code0 % 8 == 0 { Via::Cli } else { Via::Fast };
        if !ctx.judge(&case, nt, via, None) {
            return;
        }
        // The rewritten program must behave identically.
        let mut q = prog.clone();
        flip_block(&mut q.stmts);
        q.number();
        let flipped = print::print_canonical(&q).src;
        if flipped != printed.src {
            let c2 = Case{property: "C12".into(), kind: "dot_vs_bracket".into(), srcs: vec![printed.src.into_bytes(), flipped.into_bytes()], pred: Pred::Same{same_msg: true, positions: None}, note: ".k <-> [\"k\"] rewriting".into()};
            ctx.judge(&c2, true, via, None);
            ctx.label(".k <-> [\"k\"] rewriting");
        }
    });
}

fn permutations(n: usize) -> Vec<Vec<usize>> {
    if n == 0 {
        return vec![vec![]];
    }
    let mut out = vec![];
    for p in permutations(n - 1) {
        for i in 0..=p.len() {
            let mut q = p.clone();
            q.insert(i, n - 1);
            out.push(q);
        }
    }
    out
}

fn insertion_orders(ctx: &Ctx) -> Vec<(Case, bool)> {
    let mut out = vec![];
    let keysets: [&[&str]; 4] = [&["a", "b", "A", "a b", ""], &["1", "é", "aa", "a", "Z"], &["b", "ab", "a", "abc", "B"], &["10", "9", "1", "2", "é"]];
    for keys in keysets {
        for n in 1..=keys.len() {
            for perm in permutations(n) {
                let mut stmts = vec![declare(var("o"), obj(vec![]))];
                for (i, k) in perm.iter().enumerate() {
                    let key = keys[*k];
                    let target = if is_ident(key) && i % 2 == 0 { prop(var("o"), key) } else { index(var("o"), string(key)) };
                    stmts.push(assign(target, int(*k as i64)));
                }
                let lit = obj((0..n).map(|k| pair(keys[k], int(k as i64))).collect());
                stmts.push(pv(var("o")));
                stmts.push(for_(list(vec![var("k"), var("_")]), var("o"), vec![pv(var("k"))]));
                stmts.push(pv(bin(Op::Eq, var("o"), lit.clone())));
                stmts.push(pv(bin(Op::Eq, lit, var("o"))));
                let prog = Prog::new(stmts);
                let rr = interp::run(&prog);
                let printed = print::print_canonical(&prog);
                if let Some(e) = ref_expect(&printed, &rr, DiagLevel::None) {
                    ctx.label("insertion order permutation");
                    out.push((Case{property: "C12".into(), kind: "insertion_order".into(), srcs: vec![printed.src.into_bytes()], pred: Pred::Expect(e), note: format!("keys {:?} inserted in order {perm:?}", &keys[..n])}, n >= 2));
                }
            }
        }
    }
    out
}

fn literal_cases(ctx: &Ctx) -> Vec<(Case, bool)> {
    let mut out = vec![];
    let o = || var("o");
    let progs: Vec<(&str, Vec<Stmt>)> = vec![
        ("later entry replaces earlier", vec![pv(obj(vec![pair("a", int(1)), pair("b", int(2)), pair("a", int(3))]))]),
        ("shorthand", vec![declare(var("a"), int(1)), declare(var("zz"), list(vec![int(2)])), pv(obj(vec![Prop::Single{e: var("zz"), spread: false, collect: false}, Prop::Single{e: var("a"), spread: false, collect: false}, pair("m", int(0))]))]),
        ("shorthand shares the container", vec![declare(var("xs"), list(vec![int(1)])), declare(o(), obj(vec![Prop::Single{e: var("xs"), spread: false, collect: false}])), assign(index(var("xs"), int(0)), int(9)), pv(o())]),
        ("computed names", vec![declare(var("n"), string("k")), declare(var("ns"), list(vec![string("b")])), pv(obj(vec![Prop::Pair(var("n"), int(1)), Prop::Pair(index(var("ns"), int(0)), int(2)), Prop::Pair(bin(Op::Sum, var("n"), string("2")), int(3))]))]),
        ("computed name must be a string", vec![pv(string("before")), pv(obj(vec![Prop::Pair(int(1), int(2))]))]),
        ("computed name null", vec![pv(obj(vec![Prop::Pair(null(), int(2))]))]),
        ("entries evaluated in source order, name before value", vec![
            fn_decl("t", vec![var("x")], false, vec![pv(var("x")), ret(var("x"))]),
            pv(obj(vec![Prop::Pair(call(var("t"), vec![string("k1")]), call(var("t"), vec![int(1)])), Prop::Pair(call(var("t"), vec![string("k0")]), call(var("t"), vec![int(2)]))])),
        ]),
        ("spread overlapping, later wins", vec![
            declare(var("d"), obj(vec![pair("a", int(1)), pair("b", int(2)), pair("c", int(3))])), declare(var("e"), obj(vec![pair("b", int(9))])),
            pv(obj(vec![Prop::Single{e: var("d"), spread: true, collect: false}, Prop::Single{e: var("e"), spread: true, collect: false}])),
            pv(obj(vec![Prop::Single{e: var("e"), spread: true, collect: false}, Prop::Single{e: var("d"), spread: true, collect: false}])),
            pv(obj(vec![pair("a", int(0)), pair("b", int(0)), pair("c", int(0)), pair("dd", int(0)), Prop::Single{e: var("e"), spread: true, collect: false}])),
            pv(obj(vec![Prop::Single{e: var("e"), spread: true, collect: false}, pair("b", int(5))])),
        ]),
        ("spread is a copy", vec![declare(var("d"), obj(vec![pair("a", int(1))])), declare(var("e"), obj(vec![Prop::Single{e: var("d"), spread: true, collect: false}])), assign(prop(var("e"), "a"), int(2)), pv(var("d")), pv(var("e"))]),
        ("missing property read", vec![declare(o(), obj(vec![pair("a", int(1))])), pv(prop(o(), "a")), pv(prop(o(), "b"))]),
        ("missing key read", vec![declare(o(), obj(vec![pair("a", int(1))])), pv(index(o(), string("a "))) ]),
        ("case matters", vec![declare(o(), obj(vec![pair("a", int(1)), pair("A", int(2))])), pv(prop(o(), "A")), pv(index(o(), string("a"))), pv(o())]),
        ("op-assign on missing", vec![declare(o(), obj(vec![pair("a", int(1))])), op_assign(prop(o(), "a"), Op::Sum, int(1)), pv(o()), op_assign(index(o(), string("b")), Op::Sum, int(1)), pv(o())]),
        ("assignment to absent key between existing ones", vec![
            declare(o(), obj(vec![pair("k", int(1)), pair("z", int(2))])), assign(index(o(), string("m")), int(3)), assign(index(o(), string("")), int(4)), assign(index(o(), string("K")), int(5)), assign(index(o(), string("a b")), int(6)), pv(o()),
            op_assign(index(o(), string("l")), Op::Sum, int(1)),
        ]),
        ("two objects with the same pairs", vec![
            declare(var("x"), obj(vec![])), assign(prop(var("x"), "b"), int(2)), assign(prop(var("x"), "a"), int(1)),
            declare(var("y"), obj(vec![pair("a", int(1)), pair("b", int(2))])),
            pv(bin(Op::Eq, var("x"), var("y"))), pv(var("x")), pv(var("y")),
            for_(list(vec![var("k"), var("v")]), var("x"), vec![pv(list(vec![var("k"), var("v")]))]),
        ]),
    ];
    // Sizes beyond any small-collection fast path: literals of 21..40
    // entries with duplicated keys at several positions, large spreads with
    // overrides, and `for` directly over an out-of-order literal.
    let mut progs = progs;
    for n in [20usize, 21, 22, 30, 40] {
        for dup_at in [0usize, 1, n / 2, n - 1] {
            for dup_of in [0usize, n / 3, n - 2] {
                let mut props: Vec<Prop> = (0..n).map(|i| pair(&format!("k{i:02}"), int(i as i64))).collect();
                props.insert(dup_at.min(props.len()), pair(&format!("k{dup_of:02}"), int(1000 + dup_at as i64)));
                props.reverse();
                let lit = obj(props);
                progs.push(("large literal with a duplicated key", vec![declare(o(), lit), pv(index(o(), string(&format!("k{dup_of:02}")))), pv(o())]));
            }
        }
        let base: Vec<Prop> = (0..n).rev().map(|i| pair(&format!("k{i:02}"), int(i as i64))).collect();
        progs.push(("large spread with overrides before and after", vec![
            declare(var("big"), obj(base)),
            pv(obj(vec![pair("k00", int(-1)), pair("zz", int(-2)), Prop::Single{e: var("big"), spread: true, collect: false}, pair("k01", int(-3)), pair(&format!("k{:02}", n - 1), int(-4))])),
            pv(bin(Op::Eq, obj(vec![Prop::Single{e: var("big"), spread: true, collect: false}, Prop::Single{e: var("big"), spread: true, collect: false}]), var("big"))),
        ]));
    }
    progs.push(("for directly over an out-of-order literal", vec![
        for_(list(vec![var("k"), var("v")]), obj(vec![pair("b", int(0)), pair("a", int(1)), pair("", int(2)), pair("a b", int(3)), pair("B", int(4)), pair("a", int(5))]), vec![pv(list(vec![var("k"), var("v")]))]),
        for_(var("kv"), obj(vec![pair("z", int(1)), Prop::Single{e: obj(vec![pair("y", int(2))]), spread: true, collect: false}, pair("x", int(3))]), vec![pv(var("kv"))]),
    ]));
    for (name, stmts) in progs {
        let prog = Prog::new(stmts);
        let rr = interp::run(&prog);
        let printed = print::print_canonical(&prog);
        if let Some(e) = ref_expect(&printed, &rr, DiagLevel::None) {
            ctx.label("literal / access catalogue");
            out.push((Case{property: "C12".into(), kind: "catalogue".into(), srcs: vec![printed.src.into_bytes()], pred: Pred::Expect(e), note: name.to_string()}, true));
        }
    }
    out
}

// `.k` and `["k"]` are the same property also as *targets inside a pattern*
// (swaps, rotations, a property beside a plain variable of the same name), and
// a computed name may be any string expression, an interpolated literal
// included. Each program against its rewritten twin, and against the values
// written out here.
fn target_and_key_forms(ctx: &Ctx) -> Vec<(Case, bool)> {
    let pre = "p := {\"x\": 1, \"y\": 2}\nq := {\"x\": 10, \"y\": 20}\nx := 100\nc := \"x\"\n";
    let pairs: Vec<(&str, &str, &str)> = vec![
        ("[p.x, q.x] = [q.x, p.x]\nprint([p, q])\n", "[p[\"x\"], q[\"x\"]] = [q[\"x\"], p[\"x\"]]\nprint([p, q])\n", "[\n    {\n        \"x\": 10,\n        \"y\": 2,\n    },\n    {\n        \"x\": 1,\n        \"y\": 20,\n    },\n]\n"),
        ("[x, p.x] = [p.x, x]\nprint([x, p.x])\n", "[x, p[\"x\"]] = [p[\"x\"], x]\nprint([x, p[\"x\"]])\n", "[\n    1,\n    100,\n]\n"),
        ("[p.x, p.y, q.y] = [p.y, q.y, p.x]\nprint([p, q])\n", "[p[\"x\"], p[\"y\"], q[\"y\"]] = [p[\"y\"], q[\"y\"], p[\"x\"]]\nprint([p, q])\n", "[\n    {\n        \"x\": 2,\n        \"y\": 20,\n    },\n    {\n        \"x\": 10,\n        \"y\": 1,\n    },\n]\n"),
        ("{\"a\": p.x, \"b\": q.x} = {\"a\": 7, \"b\": 8}\nprint([p.x, q.x])\n", "{\"a\": p[\"x\"], \"b\": q[\"x\"]} = {\"a\": 7, \"b\": 8}\nprint([p[\"x\"], q[\"x\"]])\n", "[\n    7,\n    8,\n]\n"),
        ("[p.x, [q.x, x]] = [5, [6, 7]]\nprint([p.x, q.x, x])\n", "[p[c], [q[c], x]] = [5, [6, 7]]\nprint([p[c], q[c], x])\n", "[\n    5,\n    6,\n    7,\n]\n"),
        ("for [p.x, q.x] in [[3, 4]] {\n    print([p.x, q.x])\n}\n", "for [p[\"x\"], q[\"x\"]] in [[3, 4]] {\n    print([p[\"x\"], q[\"x\"]])\n}\n", "[\n    0,\n    [\n        3,\n        4,\n    ],\n]\n"),
        ("o := {$\"col_${c}\": 1, $\"col_${c}y\": 2}\nprint(o)\nprint(o.col_x)\n", "o := {(\"col_\" + c): 1, (\"col_\" + c + \"y\"): 2}\nprint(o)\nprint(o[\"col_x\"])\n", "{\n    \"col_x\": 1,\n    \"col_xy\": 2,\n}\n1\n"),
        ("o := {$\"${c}\": 1, \"x\": 2, $\"${c}\": 3}\nprint(o)\n", "o := {c: 1, \"x\": 2, (c): 3}\nprint(o)\n", "{\n    \"x\": 3,\n}\n"),
        ("o := {}\no[$\"k${c}\"] = 1\no[$\"k${c}\"] += 1\nprint(o.kx)\n{$\"k${c}\": got} := o\nprint(got)\n", "o := {}\no[\"k\" + c] = 1\no[\"kx\"] += 1\nprint(o[\"kx\"])\n{\"kx\": got} := o\nprint(got)\n", "2\n2\n"),
    ];
    let mut out = vec![];
    for (a, b, want) in pairs {
        ctx.label("property targets inside patterns / interpolated names");
        if a.starts_with("for [p.x") {
            // The loop variable pair is [index, value]: p.x takes the index.
            out.push((Case{property: "C12".into(), kind: "target_forms".into(), srcs: vec![format!("{pre}{a}").into_bytes(), format!("{pre}{b}").into_bytes()], pred: Pred::Same{same_msg: false, positions: None}, note: "dot against index syntax as for targets".into()}, true));
            continue;
        }
        out.push((Case{property: "C12".into(), kind: "target_forms".into(), srcs: vec![format!("{pre}{a}").into_bytes()], pred: Pred::Expect(Expect::ok(want.as_bytes().to_vec())), note: "property targets inside a pattern / interpolated names: value".into()}, true));
        out.push((Case{property: "C12".into(), kind: "target_forms".into(), srcs: vec![format!("{pre}{a}").into_bytes(), format!("{pre}{b}").into_bytes()], pred: Pred::Same{same_msg: false, positions: None}, note: "dot against index syntax / interpolated against concatenated names".into()}, true));
    }
    out
}

// Property names that also name something else in the language (type
// functions, the built-in, parameter-like words) or are unusually long: a
// property is found by its name in the object and nowhere else.
fn special_names(ctx: &Ctx) -> Vec<(Case, bool)> {
    let mut out = vec![];
    let long = "a_rather_long_property_name_with_many_parts_0123456789_and_more";
    for k in ["type", "len", "print", "keys", "str", "list", "object", "int", "next", "o", "k", "_", "_x", "x_1", long] {
        let mk = |kind: &str, src: String, e: Expect, note: String| (Case{property: "C12".into(), kind: kind.into(), srcs: vec![src.into_bytes()], pred: Pred::Expect(e), note}, true);
        for read in [format!("o.{k}"), format!("o[\"{k}\"]"), format!("(o.{k})()"), format!("o.{k} + 1"), format!("p.q.{k}")] {
            if k == "_" && !read.contains('[') {
                continue;
            }
            let src = format!("o := {{\"zz\": 1}}\np := {{\"q\": o}}\nprint(\"before\")\nr := {read}\nprint(\"after\")\n");
            let mut e = Expect::err(b"before\n".to_vec());
            // (The wording of the message is not part of the property.)
            e.diag = vec![DiagPred::WellFormed{max_line: 5}];
            ctx.label("special property name: missing");
            out.push(mk("special_name_missing", src, e, format!("reading missing property '{k}' as {read}")));
        }
        if k == "_" {
            continue;
        }
        let src = format!("o := {{\"{k}\": 5, \"zz\": 1}}\nprint(o.{k})\nprint(o[\"{k}\"])\no.{k} = 6\nprint(o[\"{k}\"])\no[\"{k}\"] += 1\nprint(o.{k})\no.{k} *= 2\nprint(o)\nq := {{\"zz\": 1}}\nq.{k} = 14\nprint(q == o)\nfor [key, v] in q {{\n    print(key)\n}}\n");
        let (first, second) = if k < "zz" { (k, "zz") } else { ("zz", k) };
        let (v1, v2) = if k < "zz" { (14, 1) } else { (1, 14) };
        let want = format!("5\n5\n6\n7\n{{\n    \"{first}\": {v1},\n    \"{second}\": {v2},\n}}\ntrue\n{first}\n{second}\n");
        ctx.label("special property name: present");
        out.push(mk("special_name_present", src, Expect::ok(want.into_bytes()), format!("property '{k}' through both paths")));
    }
    out
}

pub fn run(ctx: &Ctx) {
    ctx.set_rule("all histories of length <= 2 (quick; length 3 sampled; thorough: length 3 complete) over 61 operations on keys {a, b, A, 'a b', '', 1, é, aa}: insert / overwrite by [k] and .k, op-assign by both paths (present and missing key), read by both paths, {o.., k: v}, {k: v, o..}, merge of two spreads, computed keys, from two start objects, each history followed by print, for, == against a second object and a spread copy; all insertion orders of up to 5 keys from 4 key sets compared with the literal; a catalogue of literal forms (duplicates, shorthand, computed names, evaluation order, overlapping spreads); the .k <-> [\"k\"] rewriting of every history; property names that coincide with type functions / the built-in / other words, missing and present, through both paths; oracle: reference map model (byte order) and the rewriting relation; `.k` against `[\"k\"]` as targets inside patterns and interpolated literals as computed names (value and rewritten twin). 9 set-ups that make one value reachable by two routes (two properties, property and variable, spread copy, rows of a grid, through a call) x `slot += v` through a property / index / element, once and twice: contents and all of == != === !== against the other route and an independent copy (reference run). Non-trivial = >= 2 operations (out-of-order insertions, overwrites, collisions, non-identifier keys occur in nearly all); distinct = distinct source texts");
    ctx.replay_corpus(None);
    ctx.judge_all(crate::props::common::slot_op_assign_cases(ctx, "C12"), Via::Cli, None);
    ctx.judge_all(literal_cases(ctx), Via::Cli, None);
    ctx.judge_all(insertion_orders(ctx), Via::Cli, None);
    ctx.judge_all(special_names(ctx), Via::Cli, None);
    ctx.judge_all(target_and_key_forms(ctx), Via::Cli, None);
    ctx.mark_exhaustive("all insertion orders of 1..5 keys from four key sets; all histories of length <= 2");
    enumerate(ctx, 1, 1);
    enumerate(ctx, 2, 1);
    if ctx.tier == Tier::Quick {
        enumerate(ctx, 3, 8);
    } else {
        enumerate(ctx, 3, 1);
        enumerate(ctx, 4, 40);
    }
}
