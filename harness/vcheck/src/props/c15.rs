// C15 — strings: exact escapes, interpolation equals concatenation,
// Unicode-safe. Oracle: the decoded characters kept next to their spelling,
// the interpolation == concatenation relation, and the reference interpreter.

use rayon::prelude::*;

use sdmodel::ast::*;
use sdmodel::interp;
use sdmodel::print;
use sdmodel::tape::Tape;

use crate::engine::*;
use crate::pred::*;
use crate::props::common::*;

fn pv(e: Expr) -> Stmt { sdmodel::ast::print(e) }

// One symbol of literal text: decoded character and how it is written.
pub fn alphabet() -> Vec<(char, Spell)> {
    vec![
        ('a', Spell::Raw), ('é', Spell::Raw), ('日', Spell::Raw), ('🙂', Spell::Raw), ('\\', Spell::Esc), ('"', Spell::Esc), ('$', Spell::Esc),
        ('\n', Spell::Esc), ('\r', Spell::Esc), ('A', Spell::Hex), ('{', Spell::Raw), ('}', Spell::Raw), ('[', Spell::Raw), (' ', Spell::Raw),
        ('\n', Spell::Raw), ('$', Spell::Hex), ('\\', Spell::Hex), ('"', Spell::Hex), ('\t', Spell::Raw), ('\u{7f}', Spell::Hex), ('ß', Spell::Raw),
        // Code points whose last byte is that of `{`, `}`, `"`, `$`.
        ('Ż', Spell::Raw), ('Ž', Spell::Raw), ('Ģ', Spell::Raw), ('🍻', Spell::Raw), ('\r', Spell::Raw),
    ]
}

// Any Unicode scalar value that may stand unescaped in a literal, with the
// planes weighted equally, plus U+0080..U+00FF written as `\xHH`.
fn random_symbol(t: &mut Tape) -> (char, Spell) {
    loop {
        let cp = match t.pick(6) {
            0 => 0x80 + t.pick(0x80) as u32,
            1 => 0x100 + t.pick(0x700) as u32,
            2 => 0x800 + ((t.raw() as u32) % 0xF800),
            3 => 0x10000 + (((t.raw() as u32) << 4 | t.pick(16) as u32) % 0x100000),
            4 => {
                // Last byte equal to a structural ASCII character.
                let low = [0x7b, 0x7d, 0x22, 0x24, 0x5c, 0x0a, 0x28, 0x29, 0x5b, 0x5d, 0x23, 0x3b, 0x20][t.pick(13)];
                let high = [0x100u32, 0x300, 0x1200, 0x4e00, 0x1f300, 0x1f600, 0x20000, 0xe0100][t.pick(8)];
                high + low
            },
            _ => 0x20 + t.pick(0x5f) as u32,
        };
        if let Some(c) = char::from_u32(cp) {
            if c == '"' || c == '\\' || c == '$' {
                return (c, Spell::Esc);
            }
            if (0x80..0x100).contains(&cp) && t.chance(1, 2) {
                return (c, Spell::HexLatin);
            }
            return (c, Spell::Raw);
        }
    }
}

fn has_hex_latin(parts: &[StrPart]) -> bool {
    parts.iter().any(|p| match p {
        StrPart::Text(t) => t.iter().any(|(_, s)| *s == Spell::HexLatin),
        StrPart::Slot(e) => match &e.k {
            EK::Str(t) => t.iter().any(|(_, s)| *s == Spell::HexLatin),
            EK::Call(_, args) => args.iter().any(|a| matches!(&a.e.k, EK::Str(t) if t.iter().any(|(_, s)| *s == Spell::HexLatin))),
            _ => false,
        },
    })
}

// String-typed slot expressions (the prelude declares what they use).
fn slot_exprs() -> Vec<(&'static str, Expr)> {
    vec![
        ("variable", var("sv")),
        ("literal", string("lit")),
        ("multi-byte literal", string("é日")),
        ("concatenation", bin(Op::Sum, var("sv"), string("x"))),
        ("call", call(var("id"), vec![var("sv")])),
        ("object literal with braces", prop(obj(vec![pair("k", var("sv"))]), "k")),
        ("list literal with brackets", index(list(vec![var("sv"), string("b")]), int(0))),
        ("nested interpolation", ex(EK::Interp(vec![StrPart::Text(vec![('<', Spell::Raw)]), StrPart::Slot(Box::new(var("sv"))), StrPart::Text(vec![('é', Spell::Raw), ('>', Spell::Raw)])]))),
        ("range index", range_index(var("sv"), Some(int(0)), Some(int(1)))),
        ("parenthesised", paren(var("sv"))),
        ("type function", call(tprop(var("sv"), "type"), vec![])),
        ("counter", call(var("tick"), vec![])),
        ("call that rebinds the variable other slots read", call(var("resv"), vec![])),
        ("function literal called", call(func(vec![], false, vec![ret(string("f"))]), vec![])),
        ("literal with escapes", ex(EK::Str(vec![('q', Spell::Raw), ('"', Spell::Esc), ('\\', Spell::Esc), ('n', Spell::Raw)]))),
        ("literal ending in a backslash", ex(EK::Str(vec![('C', Spell::Raw), (':', Spell::Raw), ('\\', Spell::Esc)]))),
        ("backslash alone", ex(EK::Str(vec![('\\', Spell::Esc)]))),
        ("literal with brace-byte characters", string("ŻoŽ")),
        ("call with a brace-byte literal", call(var("id"), vec![string("Žofie")])),
        ("literal with emoji ending in brace bytes", bin(Op::Sum, string("🍻"), string("a🍽"))),
        ("literal with quote- and dollar-byte characters", string("ĢŜĤĊ")),
        ("call with a backslash literal", call(var("id"), vec![bin(Op::Sum, ex(EK::Str(vec![('\\', Spell::Esc)])), ex(EK::Str(vec![('"', Spell::Esc), ('\\', Spell::Esc)])))])),
    ]
}

fn bad_slot_exprs() -> Vec<(&'static str, Expr)> {
    vec![
        ("int", int(1)), ("null", null()), ("list", list(vec![var("sv")])), ("len", call(tprop(var("sv"), "len"), vec![])),
        ("bool", bin(Op::Eq, var("sv"), var("sv"))), ("undefined", var("nope")),
    ]
}

fn prelude() -> Vec<Stmt> {
    vec![
        declare(var("sv"), string("Vü")),
        fn_decl("id", vec![var("x")], false, vec![ret(var("x"))]),
        declare(var("cnt"), string("")),
        fn_decl("tick", vec![], false, vec![op_assign(var("cnt"), Op::Sum, string("i")), ret(var("cnt"))]),
        fn_decl("resv", vec![], false, vec![assign(var("sv"), bin(Op::Sum, var("sv"), string("!"))), ret(string("r"))]),
    ]
}

fn concat_of(parts: &[StrPart]) -> Expr {
    // "t0" + (e1) + "t1" + ...
    let mut acc: Option<Expr> = None;
    for p in parts {
        let e = match p {
            StrPart::Text(t) => ex(EK::Str(t.clone())),
            StrPart::Slot(e) => paren((**e).clone()),
        };
        acc = Some(match acc { None => e, Some(a) => bin(Op::Sum, a, e) });
    }
    acc.unwrap_or_else(|| string(""))
}

fn nontrivial(parts: &[StrPart]) -> bool {
    let mut seen_slot_after = false;
    let mut multibyte_before_slot = false;
    let mut pending_multibyte = false;
    for p in parts {
        match p {
            StrPart::Text(t) => {
                if t.iter().any(|(c, _)| !c.is_ascii()) {
                    pending_multibyte = true;
                }
                if t.last().map(|(_, s)| *s != Spell::Raw).unwrap_or(false) || t.first().map(|(_, s)| *s != Spell::Raw).unwrap_or(false) {
                    seen_slot_after = true;
                }
            },
            StrPart::Slot(e) => {
                if pending_multibyte {
                    multibyte_before_slot = true;
                }
                if matches!(e.k, EK::Prop(..) | EK::Interp(_) | EK::Call(..)) {
                    seen_slot_after = true;
                }
            },
        }
    }
    multibyte_before_slot || seen_slot_after
}

// The three observations of one interpolated literal.
fn interp_cases(ctx: &Ctx, parts: Vec<StrPart>, note: &str) -> Vec<(Case, bool)> {
    let lit = ex(EK::Interp(parts.clone()));
    let cat = concat_of(&parts);
    let nt = nontrivial(&parts);
    let mut a = prelude();
    a.push(pv(lit.clone()));
    a.push(pv(call(tprop(lit, "len"), vec![])));
    let mut b = prelude();
    b.push(pv(cat.clone()));
    b.push(pv(call(tprop(paren(cat), "len"), vec![])));
    let (pa, pb) = (Prog::new(a), Prog::new(b));
    let ra = interp::run(&pa);
    let (sa, sb) = (print::print_canonical(&pa), print::print_canonical(&pb));
    let mut out = vec![];
    // What `\xHH` with HH >= 80 denotes is not stated: such literals are only
    // held to "interpolation == concatenation" (and to not crashing).
    if has_hex_latin(&parts) {
        ctx.label("interpolation: high hex escape (relation only)");
    } else if let Some(e) = ref_expect(&sa, &ra, DiagLevel::None) {
        ctx.label(if ra.is_ok() { "interpolation: value" } else { "interpolation: reported error" });
        out.push((Case{property: "C15".into(), kind: "interpolation".into(), srcs: vec![sa.src.clone().into_bytes()], pred: Pred::Expect(e), note: note.to_string()}, nt));
    }
    out.push((Case{property: "C15".into(), kind: "interp_equals_concat".into(), srcs: vec![sa.src.into_bytes(), sb.src.into_bytes()], pred: Pred::Same{same_msg: false, positions: None}, note: format!("{note}: $\"..\" vs concatenation")}, nt));
    out
}

fn text(syms: &[(char, Spell)]) -> StrPart { StrPart::Text(syms.to_vec()) }

// An interpolated literal is an expression like any other: wherever a string
// may stand (computed key of a literal / of a pattern in all four binding
// positions, index, argument, element, operand, iterable, receiver) it must
// behave as the concatenation of its pieces does there.
fn context_cases(ctx: &Ctx) -> Vec<(Case, bool)> {
    let raw = |s: &str| StrPart::Text(s.chars().map(|c| (c, natural_spell(c))).collect());
    let slot = |e: Expr| StrPart::Slot(Box::new(e));
    let lits: Vec<Vec<StrPart>> = vec![
        vec![slot(var("sv")), raw("_name")],
        vec![raw("<"), slot(var("sv")), raw(">é"), slot(var("sv"))],
        vec![slot(call(var("id"), vec![var("sv")]))],
        vec![raw("k"), slot(ex(EK::Interp(vec![slot(var("sv")), raw("日")])))],
        vec![raw("日"), slot(var("sv")), slot(bin(Op::Sum, var("sv"), string("x")))],
        vec![raw("plain")],
    ];
    let mut out = vec![];
    for parts in lits {
        let l = ex(EK::Interp(parts.clone()));
        let c = paren(concat_of(&parts));
        let build = |k: &Expr| -> Vec<Stmt> {
            let mut s = prelude();
            // The source object is built with the concatenation in both variants.
            s.push(declare(var("srcob"), obj(vec![])));
            s.push(assign(index(var("srcob"), c.clone()), int(5)));
            s.push(assign(index(var("srcob"), string("other")), int(6)));
            // Computed key of an object literal; index read, write, op-assign.
            s.push(pv(obj(vec![Prop::Pair(k.clone(), int(1)), pair("z", int(2))])));
            s.push(pv(index(var("srcob"), k.clone())));
            s.push(op_assign(index(var("srcob"), k.clone()), Op::Sum, int(10)));
            s.push(pv(var("srcob")));
            // Key of a pattern: declaration, assignment, for target, parameter.
            s.push(declare(obj(vec![Prop::Pair(k.clone(), var("got1")), Prop::Single{e: var("rest1"), spread: false, collect: true}]), var("srcob")));
            s.push(pv(list(vec![var("got1"), var("rest1")])));
            s.push(declare(var("got2"), int(0)));
            s.push(assign(obj(vec![Prop::Pair(k.clone(), var("got2"))]), var("srcob")));
            s.push(pv(var("got2")));
            s.push(for_(list(vec![var("_"), obj(vec![Prop::Pair(k.clone(), var("got3"))])]), list(vec![var("srcob")]), vec![pv(var("got3"))]));
            s.push(fn_decl("take", vec![obj(vec![Prop::Pair(k.clone(), var("got4"))])], false, vec![ret(var("got4"))]));
            s.push(pv(call(var("take"), vec![var("srcob")])));
            // Argument, element, operand, iterable, receiver, range index.
            s.push(pv(call(var("id"), vec![k.clone()])));
            s.push(pv(index(list(vec![k.clone()]), int(0))));
            s.push(pv(bin(Op::Eq, k.clone(), c.clone())));
            s.push(declare(var("nb"), int(0)));
            s.push(for_(list(vec![var("_"), var("_")]), k.clone(), vec![op_assign(var("nb"), Op::Sum, int(1))]));
            s.push(pv(var("nb")));
            s.push(pv(call(tprop(k.clone(), "type"), vec![])));
            s.push(pv(bin(Op::Eq, range_index(k.clone(), Some(int(0)), Some(int(1))), range_index(c.clone(), Some(int(0)), Some(int(1))))));
            s
        };
        let (pa, pb) = (Prog::new(build(&l)), Prog::new(build(&c)));
        let (sa, sb) = (print::print_canonical(&pa), print::print_canonical(&pb));
        ctx.label("interpolated literal in every string context");
        let ra = interp::run(&pa);
        if let Some(e) = ref_expect(&sa, &ra, DiagLevel::None) {
            out.push((Case{property: "C15".into(), kind: "context".into(), srcs: vec![sa.src.clone().into_bytes()], pred: Pred::Expect(e), note: "interpolated literal as key / index / pattern key / argument / operand / iterable / receiver".into()}, true));
        }
        out.push((Case{property: "C15".into(), kind: "context_equals_concat".into(), srcs: vec![sa.src.into_bytes(), sb.src.into_bytes()], pred: Pred::Same{same_msg: false, positions: None}, note: "the same program with the concatenation written out".into()}, true));
    }
    out
}

fn exhaustive_small(ctx: &Ctx) -> Vec<(Case, bool)> {
    let al = alphabet();
    let slots = slot_exprs();
    let mut jobs: Vec<Vec<StrPart>> = vec![];
    // One slot, one symbol on each side (or none).
    let mut opts: Vec<Vec<(char, Spell)>> = vec![vec![]];
    for s in &al {
        opts.push(vec![*s]);
    }
    for (i, l) in opts.iter().enumerate() {
        for (j, r) in opts.iter().enumerate() {
            let (_, se) = &slots[(i * 7 + j) % slots.len()];
            jobs.push(vec![text(l), StrPart::Slot(Box::new(se.clone())), text(r)]);
        }
    }
    // Two slots with one symbol before, between and after.
    for (i, l) in opts.iter().enumerate() {
        for (j, m) in opts.iter().enumerate() {
            for (k, r) in opts.iter().enumerate() {
                if (i + 2 * j + 3 * k) % 5 != 0 && !(i == 0 || j == 0 || k == 0) {
                    continue;
                }
                let (_, s1) = &slots[(i + j) % slots.len()];
                let (_, s2) = &slots[(j * 3 + k + 1) % slots.len()];
                jobs.push(vec![text(l), StrPart::Slot(Box::new(s1.clone())), text(m), StrPart::Slot(Box::new(s2.clone())), text(r)]);
            }
        }
    }
    // Three (and four) slots without text over {sv, resv(), cnt, tick(),
    // id(sv)}: slots whose evaluation changes what the other slots read.
    let effect_slots = [var("sv"), call(var("resv"), vec![]), var("cnt"), call(var("tick"), vec![]), call(var("id"), vec![var("sv")])];
    for a in &effect_slots {
        for b in &effect_slots {
            for c in &effect_slots {
                jobs.push(vec![StrPart::Slot(Box::new(a.clone())), StrPart::Slot(Box::new(b.clone())), StrPart::Slot(Box::new(c.clone()))]);
                jobs.push(vec![text(&[('<', Spell::Raw)]), StrPart::Slot(Box::new(a.clone())), text(&[('é', Spell::Raw)]), StrPart::Slot(Box::new(b.clone())), StrPart::Slot(Box::new(c.clone())), StrPart::Slot(Box::new(a.clone())), text(&[('>', Spell::Raw)])]);
            }
        }
    }
    jobs.par_iter().flat_map(|p| interp_cases(ctx, p.clone(), "small interpolated literal")).collect()
}

fn random_parts(t: &mut Tape) -> Vec<StrPart> {
    let al = alphabet();
    let slots = slot_exprs();
    let bad = bad_slot_exprs();
    let n_slots = t.pick(4);
    let mut parts = vec![];
    for i in 0..=n_slots {
        let n = t.pick(5);
        let mut tx = vec![];
        for _ in 0..n {
            tx.push(if t.chance(1, 3) { random_symbol(t) } else { al[t.pick(al.len())] });
        }
        parts.push(StrPart::Text(tx));
        if i < n_slots {
            let e = match t.pick(8) {
                0 => bad[t.pick(bad.len())].1.clone(),
                1 | 2 => {
                    // A literal of random code points inside the slot, bare or
                    // as an argument (braces are excluded: the slot scanner
                    // counts them even inside a nested literal).
                    let k = 1 + t.pick(3);
                    let mut cs = vec![];
                    for _ in 0..k {
                        let s = random_symbol(t);
                        if s.0 != '{' && s.0 != '}' {
                            cs.push(s);
                        }
                    }
                    let lit = ex(EK::Str(cs));
                    if t.chance(1, 2) { lit } else { call(var("id"), vec![lit]) }
                },
                _ => slots[t.pick(slots.len())].1.clone(),
            };
            parts.push(StrPart::Slot(Box::new(e)));
        }
    }
    parts
}

// Plain literals: print, ->len(), byte-wise for / index / range.
fn plain_cases(ctx: &Ctx, n: u64) -> Vec<(Case, bool)> {
    let al = alphabet();
    let mut t = sdmodel::tape::tape_from_seed(ctx.sub_seed("plain", 0), (n * 12) as usize);
    let mut snippets = vec![];
    for _ in 0..n {
        let k = t.pick(7);
        let mut tx = vec![];
        for _ in 0..k {
            tx.push(al[t.pick(al.len())]);
        }
        let lit = ex(EK::Str(tx.clone()));
        let decoded: String = tx.iter().map(|(c, _)| *c).collect();
        let blen = decoded.len();
        let src = print::print_expr_canonical(&lit, 8).src;
        let mut body = format!("s := {src}\nprint(s)\nprint(s->len())\nn := 0\nfor [i, b] in s {{\n    n += 1\n}}\nprint(n)");
        let mut expect = format!("{decoded}\n{blen}\n{blen}\n");
        if blen > 0 {
            let cut = t.pick(blen + 1);
            body.push_str(&format!("\nprint((s[:{cut}] + s[{cut}:]) == s)\nm := 0\nfor kv in s[{cut}:] {{\n    m += 1\n}}\nprint(m)\nprint(s[{}] == s[{}:{}])", blen - 1, blen - 1, blen));
            expect.push_str(&format!("true\n{}\ntrue\n", blen - cut));
        }
        ctx.label("plain literal");
        snippets.push(Snippet{body, expect, nontrivial: !decoded.is_ascii() || tx.iter().any(|(_, s)| *s != Spell::Raw), note: "plain literal: print, len, bytes".into()});
    }
    judge_snippets(ctx, "plain_literal", &snippets, 40);
    vec![]
}

// Lexical errors at a known character.
fn lexical_errors(ctx: &Ctx) -> Vec<(Case, bool)> {
    let al = alphabet();
    let mut out = vec![];
    // (kind, opening, bad tail written after the prefix, offset of the offending character within the tail)
    let bads: Vec<(&str, &str, String, usize)> = {
        let mut v: Vec<(&str, &str, String, usize)> = vec![
            ("invalid escape", "\"", "\\q".into(), 1), ("invalid escape", "\"", "\\'".into(), 1), ("invalid escape", "\"", "\\0".into(), 1), ("invalid escape", "\"", "\\é".into(), 1),
            ("invalid escape", "$\"", "\\t".into(), 1), ("invalid escape", "\"", "\\ ".into(), 1), ("invalid escape", "\"", "\\{".into(), 1),
            ("unescaped dollar", "\"", "$".into(), 0), ("unescaped dollar", "\"", "$x".into(), 0), ("unescaped dollar", "\"", "${x}".into(), 0),
            ("bad slot start", "$\"", "$x".into(), 1), ("bad slot start", "$\"", "$ {x}".into(), 1), ("bad slot start", "$\"", "$é".into(), 1), ("bad slot start", "$\"", "$\\".into(), 1), ("bad slot start", "$\"", "$$".into(), 1),
        ];
        for bad in ['Z', 'g', ' ', 'x', '-', '+', 'ł', 'ı', 'š', '１', 'Ａ', 'é', '٣'] {
            v.push(("invalid hex digit", "\"", format!("\\x{bad}1"), 2));
            v.push(("invalid hex digit", "\"", format!("\\x4{bad}"), 3));
            v.push(("invalid hex digit", "$\"", format!("\\x4{bad}"), 3));
        }
        v
    };
    let prefixes: Vec<Vec<(char, Spell)>> = {
        let mut p = vec![vec![]];
        for s in &al {
            if s.0 != '\n' {
                p.push(vec![*s]);
            }
        }
        p.push(vec![('é', Spell::Raw), ('🙂', Spell::Raw), ('a', Spell::Hex)]);
        p
    };
    for (kind, open, tail, off) in &bads {
        for pre in &prefixes {
            let pre_src = {
                // Spelled prefix, via the printer's rules.
                let lit = ex(EK::Str(pre.clone()));
                let s = print::print_expr_canonical(&lit, 8).src;
                s[1..s.len() - 1].to_string()
            };
            let src = format!("print(1)\nv := {open}{pre_src}{tail} rest\"\nprint(2)\n");
            let col = 5 + open.chars().count() + pre_src.chars().count() + off + 1;
            let mut e = Expect::err(vec![]);
            e.diag = vec![DiagPred::WellFormedFront{max_line: 4}, DiagPred::Pos{line: 2, col: col as u32}];
            ctx.label(&format!("lexical error: {kind}"));
            out.push((Case{property: "C15".into(), kind: "lexical_error".into(), srcs: vec![src.into_bytes()], pred: Pred::Expect(e), note: format!("{kind} after {} prefix character(s)", pre.len())}, !pre.is_empty()));
        }
    }
    out
}

// Literals beyond the small scope: text of several hundred bytes before,
// between and inside slots, and a dozen slots.
fn large_literals(ctx: &Ctx) -> Vec<(Case, bool)> {
    let slots = slot_exprs();
    let mut out = vec![];
    for unit in ["abcdefgh", "é", "日本🙂x", "q\\\"$"] {
        for reps in [33usize, 64, 130, 300] {
            let tx: Vec<(char, Spell)> = unit.repeat(reps).chars().map(|c| (c, natural_spell(c))).collect();
            for (k, (_, se)) in slots.iter().enumerate().filter(|(k, _)| k % 4 == reps % 4) {
                let parts = vec![text(&tx), StrPart::Slot(Box::new(se.clone())), text(&tx[..tx.len().min(7)]), StrPart::Slot(Box::new(slots[(k + 5) % slots.len()].1.clone())), text(&tx)];
                out.extend(interp_cases(ctx, parts, "long text around slots"));
            }
        }
    }
    // Twelve slots in one literal.
    let mut parts = vec![];
    for k in 0..12 {
        parts.push(text(&[('<', Spell::Raw), (char::from_digit(k % 10, 10).unwrap(), Spell::Raw), ('é', Spell::Raw)]));
        parts.push(StrPart::Slot(Box::new(slots[k as usize % slots.len()].1.clone())));
    }
    parts.push(text(&[('>', Spell::Raw)]));
    out.extend(interp_cases(ctx, parts, "twelve slots"));
    // A long string literal inside a slot.
    let long_in_slot = ex(EK::Str("né ".repeat(120).chars().map(|c| (c, Spell::Raw)).collect()));
    out.extend(interp_cases(ctx, vec![text(&[('a', Spell::Raw)]), StrPart::Slot(Box::new(bin(Op::Sum, long_in_slot, var("sv")))), text(&[('z', Spell::Raw)])], "long literal inside a slot"));
    ctx.label_n("large literals", out.len() as u64);
    out
}

pub fn run(ctx: &Ctx) {
    ctx.set_rule("interpolated literals with one slot and every alphabet symbol (or none) on each side, two slots with symbols before / between / after (exhaustive over a 21-symbol alphabet of ASCII, the escapes \\\\ \\\" \\$ \\n \\r \\xHH, raw newline / tab, 2-4 byte characters, braces, brackets), random literals with 0..3 slots; slot expressions: variable, literal, multi-byte literal, concatenation, call, object literal with braces, list literal, nested interpolation, range index, parenthesised, type function, a counter (order-dependent), called function literal, literal with escapes, and non-string / undefined ones; plain literals with print, ->len(), byte-wise for / index / range; invalid escapes, invalid hex digits (incl. non-ASCII characters whose low byte is a hex digit), raw $ and bad slot starts after every prefix symbol; oracle: decoded characters, reference interpreter, interpolation == concatenation (same stdout and outcome), lexical errors at the offending character; random code points from every plane incl. those ending in the byte of a structural ASCII character, inside and outside slots; `\\xHH` for U+0080..U+00FF under the value-independent relation only; text of 33..300 units around slots, twelve slots; an interpolated literal in every position where a string may stand (key of a literal / of a pattern in four binding positions, index, argument, element, operand, iterable, receiver) against the concatenation; all three-slot literals over slots whose evaluation changes what other slots read. Non-trivial = a multi-byte character before or between slots, an escape next to a slot boundary, or a slot containing braces / a nested literal / a call; distinct = distinct source texts");
    ctx.replay_corpus(None);
    let hist = crate::props::faults::history_cases("C15", &["value"]);
    ctx.label_n("literal evaluated after similar literals: independent of the history", hist.len() as u64);
    ctx.judge_all(hist, Via::Cli, None);
    let cases = exhaustive_small(ctx);
    ctx.set_extra("exhaustive_small_cases", serde_json::json!(cases.len()));
    ctx.mark_exhaustive("one-slot literals with every symbol pair around the slot");
    ctx.judge_all(cases, Via::Fast, None);
    ctx.judge_all(lexical_errors(ctx), Via::Cli, None);
    ctx.judge_all(large_literals(ctx), Via::Cli, None);
    ctx.judge_all(context_cases(ctx), Via::Cli, None);
    plain_cases(ctx, ctx.n(3_000, 600_000));
    let n = ctx.n(20_000, 6_000_000);
    let via = if ctx.tier == Tier::Quick { Via::Cli } else { Via::Fast };
    ctx.proptest_tapes("random_interp", n / 2, 80, via, None, |t| {
        let parts = random_parts(t);
        let mut cs = interp_cases(ctx, parts, "random interpolated literal");
        // Judge the differential case here, return the metamorphic one.
        if cs.len() == 2 {
            let (c0, nt0) = cs.remove(0);
            if !ctx.judge(&c0, nt0, via, None) {
                return None;
            }
        }
        cs.pop()
    });
}
