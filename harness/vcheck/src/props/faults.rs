// Failing programs by construction: a catalogue of ways to raise each
// run-time error class, the syntactic slots a failing expression can be put
// in, and wrappers that move the failure to a call depth. Shared by C17
// (shape of the diagnostic) and C18 (position).

use sdmodel::ast::*;

// Prelude every host program starts with (names the faults refer to).
pub fn prelude() -> Vec<Stmt> {
    vec![
        fn_decl("usr", vec![var("pa"), var("pb")], false, vec![ret(bin(Op::Sum, var("pa"), var("pb")))]),
        declare(var("lst"), list(vec![int(1), int(2), int(3)])),
        declare(var("obj"), obj(vec![pair("a", int(1)), pair("b", list(vec![int(2)]))])),
        declare(var("txt"), string("héllo")),
        declare(var("num"), int(7)),
        sdmodel::ast::print(string("before")),
    ]
}

// Expressions whose evaluation fails (name, builder).
pub fn fault_exprs() -> Vec<(&'static str, Expr)> {
    let max = 9223372036854775807i64;
    vec![
        ("undefined name", var("nope")),
        ("undefined in shorthand", obj(vec![Prop::Single{e: var("nope"), spread: false, collect: false}])),
        ("operator types", bin(Op::Sum, int(1), string("a"))),
        ("operator types bool", bin(Op::And, boolean(true), int(1))),
        ("comparison types", bin(Op::Lt, string("a"), int(1))),
        ("identity types", bin(Op::RefEq, int(1), int(1))),
        ("equality types", bin(Op::Eq, int(1), string("a"))),
        ("nested equality types", bin(Op::Eq, list(vec![int(1), int(2)]), list(vec![int(1), string("a")]))),
        ("function equality", bin(Op::Eq, var("usr"), var("usr"))),
        ("overflow +", bin(Op::Sum, int(max), var("num"))),
        ("overflow *", bin(Op::Mul, int(max), int(2))),
        ("overflow -", bin(Op::Sub, int(-max), int(3))),
        ("division by zero", bin(Op::Div, var("num"), int(0))),
        ("remainder by zero", bin(Op::Mod, var("num"), int(0))),
        ("not callable", call(var("num"), vec![])),
        ("not callable literal", call(int(5), vec![int(1)])),
        ("too many arguments", call(var("usr"), vec![int(1), int(2), int(3)])),
        ("too few arguments", call(var("usr"), vec![int(1)])),
        ("print with two arguments", call(var("print"), vec![int(1), int(2)])),
        ("type function with argument", call(tprop(var("txt"), "len"), vec![int(1)])),
        ("index type", index(var("lst"), string("a"))),
        ("negative index", index(var("lst"), int(-1))),
        ("list index out of bounds", index(var("lst"), int(3))),
        ("string index out of bounds", index(var("txt"), int(99))),
        ("not indexable", index(var("num"), int(0))),
        ("range bounds reversed", range_index(var("lst"), Some(int(2)), Some(int(1)))),
        ("range end out of bounds", range_index(var("txt"), None, Some(int(99)))),
        ("not range-indexable", range_index(var("obj"), None, None)),
        ("range operand type", range(int(1), string("a"))),
        ("missing property", prop(var("obj"), "zz")),
        ("missing key", index(var("obj"), string("zz"))),
        ("property on non-object", prop(var("num"), "a")),
        ("property name type", obj(vec![Prop::Pair(int(1), int(2))])),
        ("object key type", index(var("obj"), int(0))),
        ("type function on null", call(tprop(null(), "type"), vec![])),
        ("missing type function", call(tprop(var("num"), "nope"), vec![])),
        ("spread of non-list", list_items(vec![item(int(1)), spread(var("num"))], false)),
        ("spread of non-object", obj(vec![Prop::Single{e: var("lst"), spread: true, collect: false}])),
        ("spread argument of non-list", call_items(var("usr"), vec![spread(var("obj"))])),
        ("collect outside pattern", list_items(vec![item(var("num"))], true)),
        ("shorthand not a variable", obj(vec![Prop::Single{e: int(1), spread: false, collect: false}])),
        ("slot not a string", ex(EK::Interp(vec![StrPart::Text(vec![('a', Spell::Raw)]), StrPart::Slot(Box::new(var("num")))]))),
        ("slot fails", ex(EK::Interp(vec![StrPart::Text(vec![('a', Spell::Raw)]), StrPart::Slot(Box::new(var("nope")))]))),
        ("print of invalid UTF-8", call(var("print"), vec![index(var("txt"), int(1))])),
        ("print of a list holding invalid UTF-8", call(var("print"), vec![list(vec![int(1), string("ok"), index(var("txt"), int(1))])])),
        ("print of an object holding invalid UTF-8", call(var("print"), vec![obj(vec![pair("a", int(1)), pair("m", list(vec![index(var("txt"), int(2))])), pair("z", int(2))])])),
        ("len of invalid UTF-8", call(tprop(index(var("txt"), int(1)), "len"), vec![])),
        ("key of invalid UTF-8", index(var("obj"), index(var("txt"), int(1)))),
    ]
}

// Statements that fail by themselves.
pub fn fault_stmts() -> Vec<(&'static str, Vec<Stmt>)> {
    vec![
        ("if condition type", vec![if_(int(1), vec![sdmodel::ast::print(int(0))], None)]),
        ("else-if condition type", vec![st(SK::If(vec![(boolean(false), vec![]), (string("x"), vec![])], None))]),
        ("while condition type", vec![while_(null(), vec![])]),
        ("for over int", vec![for_(var("it"), var("num"), vec![])]),
        ("for over function", vec![for_(var("it"), var("usr"), vec![])]),
        ("list pattern on non-list", vec![declare(list(vec![var("da")]), var("num"))]),
        ("list pattern length", vec![declare(list(vec![var("da"), var("db")]), list(vec![int(1)]))]),
        ("collect pattern too few", vec![declare(list_items(vec![item(var("da")), item(var("db")), item(var("dc"))], true), list(vec![int(1)]))]),
        ("object pattern on non-object", vec![declare(obj(vec![Prop::Single{e: var("da"), spread: false, collect: false}]), var("lst"))]),
        ("object pattern missing property", vec![declare(obj(vec![Prop::Single{e: var("zz"), spread: false, collect: false}]), var("obj"))]),
        ("name twice in pattern", vec![declare(list(vec![var("da"), var("da")]), list(vec![int(1), int(2)]))]),
        ("declare a literal", vec![declare(int(1), int(2))]),
        ("assign to a call", vec![assign(call(var("usr"), vec![int(1), int(2)]), int(1))]),
        ("assign to an operation", vec![assign(bin(Op::Sum, var("num"), int(1)), int(1))]),
        ("op-assign on pattern", vec![op_assign(list(vec![var("num")]), Op::Sum, int(1))]),
        ("op-assign on range", vec![op_assign(range_index(var("lst"), Some(int(0)), Some(int(1))), Op::Sum, list(vec![]))]),
        ("op-assign on missing property", vec![op_assign(prop(var("obj"), "zz"), Op::Sum, int(1))]),
        ("op-assign on missing key", vec![op_assign(index(var("obj"), string("zz")), Op::Sum, int(1))]),
        ("op-assign types", vec![op_assign(var("num"), Op::Sub, string("a"))]),
        ("op-assign overflow", vec![op_assign(var("num"), Op::Mul, int(9223372036854775807))]),
        ("op-assign element types", vec![op_assign(index(var("lst"), int(0)), Op::Sum, string("a"))]),
        ("assign type property", vec![assign(tprop(var("num"), "type"), int(1))]),
        ("assign undefined", vec![assign(var("nope"), int(1))]),
        ("assign undefined inside a list pattern", vec![assign(list(vec![var("num"), var("nope")]), list(vec![int(1), int(2)]))]),
        ("assign undefined inside an object pattern", vec![assign(obj(vec![Prop::Pair(string("a"), var("num")), Prop::Pair(string("b"), var("nope"))]), var("obj"))]),
        ("assign undefined as the rest of a list pattern", vec![assign(list_items(vec![item(var("num")), item(var("nope"))], true), list(vec![int(1), int(2)]))]),
        ("assign undefined as the rest of an object pattern", vec![assign(obj(vec![Prop::Pair(string("a"), var("num")), Prop::Single{e: var("nope"), spread: false, collect: true}]), var("obj"))]),
        ("assign undefined in a nested pattern", vec![assign(list(vec![var("num"), obj(vec![Prop::Pair(string("k"), var("nope"))])]), list(vec![int(1), obj(vec![pair("k", int(2))])]))]),
        ("op-assign undefined", vec![op_assign(var("nope"), Op::Sum, int(1))]),
        ("redeclare", vec![declare(var("num"), int(2))]),
        ("redeclare function", vec![fn_decl("usr", vec![], false, vec![])]),
        ("element assign out of bounds", vec![assign(index(var("lst"), int(9)), int(1))]),
        ("element assign on string", vec![assign(index(var("txt"), int(0)), string("x"))]),
        ("range assign non-list value", vec![assign(range_index(var("lst"), Some(int(0)), Some(int(1))), int(5))]),
        ("range assign length", vec![assign(range_index(var("lst"), Some(int(0)), Some(int(2))), list(vec![int(9)]))]),
        ("range assign on string", vec![assign(range_index(var("txt"), Some(int(0)), Some(int(1))), string("x"))]),
        ("property assign on non-object", vec![assign(prop(var("num"), "a"), int(1))]),
        ("spread in pattern", vec![declare(list_items(vec![spread(var("da"))], false), list(vec![int(1)]))]),
        ("collect not last", vec![declare(obj(vec![Prop::Single{e: var("da"), spread: false, collect: true}, Prop::Single{e: var("a"), spread: false, collect: false}]), var("obj"))]),
        ("duplicate parameter", vec![fn_decl("dup", vec![var("pa"), var("pa")], false, vec![])]),
        ("parameter is a literal", vec![fn_decl("bad", vec![int(1)], false, vec![])]),
        ("parameter pattern mismatch", vec![expr_stmt(call(func(vec![list(vec![var("pa"), var("pb")])], false, vec![]), vec![list(vec![int(1)])]))]),
    ]
}

// Jumps outside their construct (only meaningful at specific places).
pub fn jump_faults() -> Vec<(&'static str, Stmt)> {
    vec![("break outside loop", st(SK::Break)), ("continue outside loop", st(SK::Continue))]
}

// Syntactic slots: put the failing expression `f` somewhere inside a
// statement. Every other sub-expression is well-defined.
pub fn slots(f: &Expr) -> Vec<(&'static str, Vec<Stmt>)> {
    let f = || f.clone();
    let p = sdmodel::ast::print;
    vec![
        ("expression statement", vec![expr_stmt(f())]),
        ("declaration rhs", vec![declare(var("res"), f())]),
        ("assignment rhs", vec![assign(var("num"), f())]),
        ("op-assignment rhs", vec![op_assign(var("num"), Op::Sum, f())]),
        ("element assignment rhs", vec![assign(index(var("lst"), int(0)), f())]),
        ("left operand", vec![p(bin(Op::Sum, f(), int(1)))]),
        ("right operand", vec![p(bin(Op::Mul, int(2), f()))]),
        ("inner operand", vec![p(bin(Op::Sub, bin(Op::Sum, int(1), f()), int(3)))]),
        ("range start", vec![p(range(f(), int(3)))]),
        ("range end", vec![p(range(int(0), f()))]),
        ("list item", vec![p(list(vec![int(1), f(), int(3)]))]),
        ("spread item", vec![p(list_items(vec![spread(f())], false))]),
        ("object key", vec![p(obj(vec![Prop::Pair(f(), int(1))]))]),
        ("object value", vec![p(obj(vec![pair("k", f())]))]),
        ("object spread", vec![p(obj(vec![Prop::Single{e: f(), spread: true, collect: false}]))]),
        ("index source", vec![p(index(f(), int(0)))]),
        ("index", vec![p(index(var("lst"), f()))]),
        ("range-index source", vec![p(range_index(f(), Some(int(0)), None))]),
        ("range-index start", vec![p(range_index(var("lst"), Some(f()), None))]),
        ("range-index end", vec![p(range_index(var("lst"), None, Some(f())))]),
        ("property source", vec![p(prop(f(), "a"))]),
        ("type function receiver", vec![p(call(tprop(f(), "type"), vec![]))]),
        ("callee", vec![expr_stmt(call(f(), vec![]))]),
        ("argument", vec![p(call(var("usr"), vec![int(1), f()]))]),
        ("print argument", vec![p(f())]),
        ("spread argument", vec![p(call_items(var("usr"), vec![spread(f())]))]),
        ("if condition", vec![if_(f(), vec![p(int(0))], None)]),
        ("else-if condition", vec![st(SK::If(vec![(boolean(false), vec![]), (f(), vec![p(int(0))])], Some(vec![p(int(1))])))]),
        ("while condition", vec![while_(f(), vec![st(SK::Break)])]),
        ("for iterable", vec![for_(var("it"), f(), vec![])]),
        ("element target index", vec![assign(index(var("lst"), f()), int(1))]),
        ("element target source", vec![assign(index(f(), int(0)), int(1))]),
        ("property target source", vec![assign(prop(f(), "a"), int(1))]),
        ("range target bound", vec![assign(range_index(var("lst"), Some(f()), Some(int(1))), list(vec![int(0)]))]),
        ("destructuring rhs", vec![declare(list(vec![var("da"), var("db")]), f())]),
        ("interpolation slot", vec![p(ex(EK::Interp(vec![StrPart::Text(vec![('<', Spell::Raw)]), StrPart::Slot(Box::new(f())), StrPart::Text(vec![('>', Spell::Raw)])])))]),
        ("inside a block", vec![block(vec![p(int(1)), expr_stmt(f())])]),
        ("inside an if branch", vec![if_(boolean(true), vec![expr_stmt(f())], None)]),
        ("inside an else branch", vec![if_(boolean(false), vec![], Some(vec![expr_stmt(f())]))]),
        ("inside a while body", vec![while_(boolean(true), vec![expr_stmt(f()), st(SK::Break)])]),
        ("inside a for body", vec![for_(list(vec![var("ik"), var("iv")]), var("lst"), vec![p(var("ik")), if_(bin(Op::Eq, var("ik"), int(1)), vec![expr_stmt(f())], None)])]),
        ("for target key", vec![for_(list(vec![var("ik"), obj(vec![Prop::Pair(f(), var("iv"))])]), list(vec![obj(vec![])]), vec![])]),
    ]
}

// Slots that only make sense inside a function body.
pub fn fn_slots(f: &Expr) -> Vec<(&'static str, Vec<Stmt>)> {
    vec![
        ("return expression", vec![ret(f.clone())]),
        ("return operand", vec![ret(bin(Op::Sum, int(1), f.clone()))]),
    ]
}

// Wrappers: run `body` (which fails) at call depth `depth` through different
// kinds of calls. `kind` selects how each level is entered.
pub fn wrap_calls(body: Vec<Stmt>, depth: usize, kind: usize) -> Vec<Stmt> {
    if depth == 0 {
        return body;
    }
    let mut out = vec![];
    let mut inner = body;
    for d in (0..depth).rev() {
        let name = format!("lv{d}");
        let how = (kind + d) % 5;
        // The function at level d runs `inner`; `enter` is how level d is
        // entered from the level above.
        let (decl, enter): (Vec<Stmt>, Vec<Stmt>) = match how {
            0 => (
                vec![fn_decl(&name, vec![], false, with_print(inner, d))],
                vec![expr_stmt(call(var(&name), vec![]))],
            ),
            1 => (
                vec![declare(var(&name), func(vec![], false, with_print(inner, d)))],
                vec![expr_stmt(call(var(&name), vec![]))],
            ),
            2 => (
                vec![declare(var(&name), obj(vec![pair("tag", int(d as i64)), pair("run", func(vec![], false, with_print(inner, d)))]))],
                vec![expr_stmt(call(prop(var(&name), "run"), vec![]))],
            ),
            3 => (
                vec![
                    fn_decl(&format!("apply{d}"), vec![var("cb")], false, vec![ret(call(var("cb"), vec![]))]),
                    fn_decl(&name, vec![], false, with_print(inner, d)),
                ],
                vec![declare(var(&format!("r{d}")), call(var(&format!("apply{d}")), vec![var(&name)]))],
            ),
            _ => (
                vec![fn_decl(&name, vec![var("arg")], false, with_print(inner, d))],
                vec![sdmodel::ast::print(call(var(&name), vec![int(d as i64)]))],
            ),
        };
        // Declarations of level d live in level d-1's body, before the call.
        let mut level = decl;
        level.extend(enter);
        inner = level;
        if d == 0 {
            out = inner.clone();
        }
    }
    out
}

fn with_print(mut body: Vec<Stmt>, d: usize) -> Vec<Stmt> {
    let mut b = vec![sdmodel::ast::print(string(&format!("enter {d}")))];
    b.append(&mut body);
    b
}

// ------------------------------------------------ independence of history
//
// What an interpolated literal yields, and what is reported when one of its
// slots fails, depends on that literal and the current bindings only - not on
// which other literals (same text, same slot expression under another
// padding, same nesting shape) were evaluated successfully before. Variant 0
// evaluates such literals first; variant 1 spells the earlier ones as
// concatenations, line by line the same. Both must print the same, end the
// same, and report the same position and message.
//
// `want`: "value" = the later literal succeeds (other binding, other
// expression), "runtime" = its slot fails at run time (non-string value,
// undefined name, operator types), "syntax" = its slot text is malformed.
pub fn history_cases(property: &str, want: &[&str]) -> Vec<(crate::pred::Case, bool)> {
    use crate::pred::*;
    // (literal with hole, the same as a concatenation with hole)
    let templates: [(&str, &str); 6] = [
        ("$\"name: ${@}\"", "\"name: \" + (@)"),
        ("$\"${@}\"", "\"\" + (@)"),
        ("$\"<${@}> and ${@}!\"", "\"<\" + (@) + \"> and \" + (@) + \"!\""),
        ("$\"${ $\"<${@}>\" }\"", "\"<\" + (@) + \">\""),
        ("$\"a${ \"b\" + $\"c${ $\"d${@}\" }\" }\"", "\"a\" + (\"b\" + (\"c\" + (\"d\" + (@))))"),
        ("$\"é${ $\"[${@}]\" }|${ $\"[${@}]\" }\"", "\"é\" + (\"[\" + (@) + \"]\") + \"|\" + (\"[\" + (@) + \"]\")"),
    ];
    let pads = ["", " ", "   "];
    let later_pads = ["", " ", "   ", "\n        "];
    // (kind, parameter of the later function, slot expression, argument)
    let laters: [(&str, &str, &str, &str); 9] = [
        ("value", "name", "name", "\"zz\""),
        ("value", "other", "other", "\"zz\""),
        ("value", "name", "name + other", "\"zz\""),
        ("runtime", "name", "name", "1"),
        ("runtime", "other", "name", "\"zz\""),
        ("runtime", "name", "name + 1", "\"zz\""),
        ("runtime", "name", "nope(name)", "\"zz\""),
        ("syntax", "name", "name +", "\"zz\""),
        ("syntax", "name", ")", "\"zz\""),
    ];
    let mut out = vec![];
    for (lit, cat) in templates {
        for p1 in pads {
            for p2 in later_pads {
                for (kind, param, expr, arg) in laters {
                    if !want.contains(&kind) {
                        continue;
                    }
                    let hist_lit = lit.replace('@', &format!("{p1}name"));
                    let hist_cat = cat.replace('@', "name");
                    let later = lit.replace('@', &format!("{p2}{expr}"));
                    let mk = |hist: &str| format!(
                        "other := \"oo\"\nfn show(name) {{\n    return {hist}\n}}\nprint(show(\"a\"))\nprint(show(\"bé\"))\nfn label({param}) {{\n    return {later}\n}}\nprint(label(\"c\"))\nprint(label({arg}))\nprint(\"end\")\n");
                    // (0, 0) = the same position as variant 0 reports.
                    out.push((Case{
                        property: property.to_string(), kind: "history".to_string(),
                        srcs: vec![mk(&hist_lit).into_bytes(), mk(&hist_cat).into_bytes()],
                        pred: Pred::Same{same_msg: true, positions: Some(vec![(0, 0), (0, 0)])},
                        note: format!("{kind}: `{later}` after `{hist_lit}` was evaluated twice, against the same after `{hist_cat}`"),
                    }, true));
                }
            }
        }
    }
    out
}
