// C02 — evaluation never crashes: it completes or reports a diagnostic.
// Oracle: exit status 0 or 103, no panic text, no signal, terminates. The
// reference interpreter is used only to discard programs that leave the
// documented domain (deep operations on cyclic values, resource guards).

use sdmodel::gen;
use sdmodel::interp;
use sdmodel::print;

use crate::backend::worker_available;
use crate::engine::*;
use crate::pred::*;
use crate::props::c06;
use crate::props::common::*;
use crate::util::model_from_source;

// Alias shapes over at most three containers. (name, set-up, cyclic?)
pub fn setups() -> Vec<(&'static str, &'static str, bool)> {
    vec![
        ("alias", "a := [1, 2]\nb := a\nc := [3]\n", false),
        ("a inside b", "a := [1, 2]\nb := [a]\nc := [a, b]\n", false),
        ("b is a child of a", "a := [[1], 2]\nb := a[0]\nc := [b]\n", false),
        ("a contains itself", "a := [1, 2]\na[0] = a\nb := a\nc := [a]\n", true),
        ("container inside its comparand", "a := [[]]\nb := [a]\nc := [[a]]\n", false),
        ("shared child in both", "c := [1]\na := [c, c]\nb := [c]\n", false),
        ("list property", "a := {\"k\": [1], \"n\": 1}\nb := a.k\nc := [a]\n", false),
        ("object inside its comparand", "a := {\"k\": {}}\nb := {\"k\": a}\nc := {\"k\": b}\n", false),
        ("object contains itself", "a := {\"k\": 1}\na.me = a\nb := a\nc := [a]\n", true),
        ("object holding a list holding the object", "a := {\"l\": [0]}\na.l[0] = a\nb := a.l\nc := {\"k\": b}\n", true),
        ("copies", "a := [1, 2, 3]\nb := a[:]\nc := [a.., b..]\n", false),
        ("nested three deep", "a := [1, [2, [3]]]\nb := a[1]\nc := b[1]\n", false),
        ("object spread copy", "a := {\"k\": [1], \"n\": 2}\nb := {a..}\nc := b.k\n", false),
        ("strings with multi-byte text", "a := \"héllo\"\nb := a\nc := \"日本🙂\"\n", false),
        ("list of strings", "a := [\"é\", \"ab\"]\nb := a[0]\nc := [b]\n", false),
        ("two lists sharing a mutable child", "c := [0]\na := [c, 1]\nb := [2, c]\n", false),
        ("function values", "a := [fn () { return 1; }]\nb := a[0]\nc := {\"f\": b}\n", false),
        ("mutual containment", "a := [0]\nb := [a]\na[0] = b\nc := [a, b]\n", true),
    ]
}

pub fn operations() -> Vec<String> {
    let mut ops: Vec<String> = vec![];
    for op in sdmodel::ast::ALL_OPS {
        let o = op.sym();
        for (l, r) in [("a", "b"), ("b", "a"), ("a", "a"), ("c", "a"), ("a[0]", "a"), ("a", "a[0]"), ("[a]", "a"), ("a", "[a]"), ("b", "c")] {
            ops.push(format!("r := {l} {o} {r}"));
        }
    }
    for o in ["+", "-", "*", "/", "%"] {
        for (t, r) in [("a", "a"), ("a", "b"), ("b", "a"), ("a[0]", "a"), ("a[0]", "b"), ("a[0]", "a[0]"), ("b[0]", "a"), ("a[1]", "a"), ("a.k", "a"), ("a.k", "b"), ("a[\"k\"]", "a.k"), ("c[0]", "c"), ("c[0]", "a"), ("a[0][0]", "a")] {
            ops.push(format!("{t} {o}= {r}"));
        }
    }
    for s in [
        "a[0] = a", "a[0] = b", "b[0] = a", "a[1] = a[0]", "a[0][0] = a", "a.k = a", "a.k = b", "a[\"z\"] = a", "b.k = a",
        "a[0:1] = a", "a[:] = a", "a[0:2] = b", "a[0:1] = b", "a[0:1] = [a]", "a[1:] = a[:1]", "b[0:1] = a", "a[:1] = \"é\"", "a[0:2] = a[0]",
        "r := [a.., b..]", "r := [a.., a..]", "r := {a.., b..}", "r := {a.., a..}", "r := [a, a.., [a..]]",
        "r := a[:]", "r := a[0:1] + a", "r := a[0]", "r := a[0][0]", "r := a.k", "r := a[\"k\"]", "r := b.k.k",
        "for [k, v] in a {\n    a[0] = v\n}", "for [k, v] in a {\n    b = a\n    a = [v]\n}", "for [k, v] in a {\n    a[k] = a\n}", "for [k, v] in b {\n    a[0] = b\n}",
        "for kv in a {\n    kv[1] = a\n}", "for [k, [v]] in a {\n    r := v\n}", "for [k, v] in a {\n    for [j, w] in a {\n        a[0] = w\n    }\n}",
        "[x, y] := a", "[x, ..y] := a", "[x] := b", "[a[0], a[1]] = a", "[a[1], a[0]] = a", "[a[1], a[0]] = b", "[a[0], ..r] := a", "[b[0]] = b", "[a[0], [a[1]]] = a",
        "[x, y] = [a, a]", "{k} := a", "{\"k\": x, ..rest} := a", "{\"k\": a.k} = a", "{\"k\": a.n} = a", "{..r} := a", "[a, b] = [b, a]", "[a, a[0]] = [1, 2]",
        "fn g(p, q) {\n    p[0] = q\n    return p\n}\nr := g(a, a)", "fn g(p, q) {\n    p[0] = q\n    return p\n}\nr := g(a, b)", "fn g(..p) {\n    p[0] = p\n    return p\n}\nr := g(a..)",
        "fn g([p, q]) {\n    return p\n}\nr := g(a)", "fn g({k}) {\n    return k\n}\nr := g(a)", "r := fn (p) { p[0] = p; return p; }(a)",
        "r := a->type()", "r := a[0]->type()", "r := a->len()", "r := $\"${a}\"", "r := $\"é${b}ü\"", "r := $\"${a[0]}\"",
        "r := a .. b", "r := a[0] .. a[1]", "r := a[a[0]]", "r := a[b]", "r := a[a[0]:]", "r := {a: 1}", "r := {a[0]: a}",
        "a = a[0]", "a = [a]", "a += [a]", "a += a", "b = a + a", "a = {\"k\": a}",
    ] {
        ops.push(s.to_string());
    }
    ops
}

fn extreme_programs() -> Vec<String> {
    let max = "9223372036854775807";
    let min = "(-9223372036854775807 - 1)";
    let mut v: Vec<String> = vec![];
    for (a, b) in [(max, "-2"), ("1", min), (max, min), ("0", min), (min, max), (max, "0"), ("-1", min), (min, "0")] {
        if !(a == min && b == max) && !(a == min && b == "0") {
            v.push(format!("r := {a} .. {b}\nprint(r)"));
            v.push(format!("for kv in {a} .. {b} {{\n    print(kv)\n}}"));
        }
    }
    for big in [max, "4611686018427387904", "4294967296", "18446744073709551615", "9223372036854775806"] {
        for t in ["xs[@]", "xs[@:]", "xs[:@]", "xs[0:@]", "xs[@:@]", "s[@]", "s[@:]", "s[:@]", "xs[@] = 1", "xs[@:] = [1]", "xs[0:@] = [1]", "xs[@:@] = []"] {
            v.push(format!("xs := [1, 2, 3]\ns := \"héllo\"\nr := 0\n{}", if t.contains(" = ") { t.replace('@', big) } else { format!("r = {}", t.replace('@', big)) }));
        }
    }
    // Escapes next to multi-byte text and interpolation slots: every
    // arrangement of (escape | raw multi-byte | ASCII) before, between and
    // after two slots.
    let atoms = ["\\xa1", "\\xe9", "\\xff", "\\x80", "\\x7f", "\\x41", "é", "日", "🙂", "Ž", "a", "\\n", "\\$", "\\\\", ""];
    for (i, a) in atoms.iter().enumerate() {
        for (j, b) in atoms.iter().enumerate() {
            let c = atoms[(i * 3 + j * 5 + 1) % atoms.len()];
            v.push(format!("name := \"Zoë\"\nprint($\"{a}${{name}}{b}${{name + \"{c}\"}}{c}\")\nprint($\"{a}{b}${{name}}\")\nprint(\"{a}{b}{c}\"->len())\nt := \"{b}{a}\"\nprint(t[0:1] == t[0])"));
        }
    }
    for e in [
        "s := \"é\"\nprint(s[0])", "s := \"é\"\nprint(s[0:1])", "s := \"日本\"\nfor [k, b] in s {\n    print(b)\n}", "s := \"日本\"\nfor [k, b] in s {\n    r := b + b\n}",
        "s := \"é\"\nr := {s[0]: 1}", "s := \"é\"\nr := $\"${s[0]}\"", "s := \"é\"\nr := s[0]->len()", "s := \"é\"\nxs := [1, 2]\nxs[0:2] = s\nprint(xs[0] == s[0])",
        "x := \"ü\"\nprint($\"é${x}日${x}🙂\")", "x := \"ü\"\nprint($\"${x}\")", "print($\"日本\")", "print($\"日${\"é\" + \"ü\"}本\")", "o := {\"é\": 1}\nprint(o)\nprint(o[\"é\"])",
        "print(\"é\"->len())", "print(\"\\x41\\x7f\")", "s := \"a\\x80b\"\nprint(s->len())", "print(\"🙂\"[1:3] == \"🙂\"[1:3])",
    ] {
        v.push(e.to_string());
    }
    v
}

// A callable taken from a value (bound type function, bound method, builtin)
// and called after it travelled: whatever receiver it ends up with, the call
// completes or is reported.
fn routed_callable_cases() -> Vec<(Case, bool)> {
    let pre = "o := {\"n\": \"héllo\", \"m\": fn () {\n    return this.n\n}, \"t\": fn () {\n    return this->type()\n}}\ns := \"héllo\"\nxs := [1, 2]\n";
    let callables = ["s->len", "\"é\"->len", "s->type", "5->type", "xs->type", "o->type", "o.m", "o[\"m\"]", "o.t", "print", "print->type", "o.m->type", "(fn () { return this; })", "null->type"];
    let mut out = vec![];
    for b in callables {
        for (route, body) in callable_routes(b) {
            let src = format!("{pre}{body}print(\"done\")\n");
            out.push((Case{property: "C02".into(), kind: "routed_callable".into(), srcs: vec![src.into_bytes()], pred: Pred::Expect(Expect::nocrash()), note: format!("`{b}` called after: {route}")}, true));
        }
    }
    out
}

pub fn run(ctx: &Ctx) {
    ctx.set_rule("(a) exhaustive matrix: 18 alias shapes over <= 3 containers (alias, container inside another, inside itself, inside its comparand, shared child, object <-> list cycles, multi-byte strings, functions) x ~330 operations (every binary operator in 9 operand arrangements, op-assign on variable / element / property, element / property / range assignment with the container on both sides, spread, for with mutation, destructuring onto own slots, calls that alias arguments, interpolation); (b) the C06 boundary grid and extreme ranges / indices judged for 'no crash'; (c) multi-byte literals, slices, interpolation; (e) 14 callables (bound type functions, bound methods, builtins, a function reading `this`) x 19 routes before the call (variable, list, argument, return, closure, spread, rest parameter, pattern, for, slice, range assignment, capture, object property / index); (d) hostile random programs (25% sloppy choices, boundary integers, aliasing). Oracle: exit 0 or 103, no panic / abort / signal / hang. Non-trivial = the case has an alias on both sides of an operation, a self-containing container, a boundary integer or a multi-byte literal; distinct = distinct source texts");
    ctx.replay_corpus(None);
    let rc = routed_callable_cases();
    ctx.label_n("callable x route before the call", rc.len() as u64);
    ctx.judge_all(rc, Via::Cli, None);
    // (a)
    let mut cases = vec![];
    let can_discard = worker_available();
    if !can_discard {
        ctx.note("in-process back-end unavailable: cyclic set-ups skipped (the reference is needed to discard deep operations on cyclic values)");
    }
    for (sname, setup, cyclic) in setups() {
        for op in operations() {
            let src = format!("{setup}{op}\nprint(\"done\")\n");
            if cyclic {
                if !can_discard {
                    ctx.exclude("cyclic set-up without reference");
                    continue;
                }
                // Deep operations on cyclic values are outside the domain.
                match model_from_source(&src) {
                    Ok(p) => {
                        let rr = interp::run(&p);
                        if let interp::Outcome::Discard(w) = &rr.outcome {
                            ctx.exclude(w);
                            continue;
                        }
                    },
                    Err(_) => {
                        ctx.exclude("matrix entry is not parseable");
                        continue;
                    },
                }
            }
            ctx.label(&format!("shape: {sname}"));
            cases.push((Case{property: "C02".into(), kind: "alias_matrix".into(), srcs: vec![src.into_bytes()], pred: Pred::Expect(Expect::nocrash()), note: format!("{sname}: {}", op.lines().next().unwrap_or(""))}, true));
        }
    }
    ctx.set_extra("matrix_cases", serde_json::json!(cases.len()));
    ctx.mark_exhaustive("alias shape x operation matrix");
    ctx.judge_all(cases, Via::Cli, None);
    // (b) boundary grid, batched per pair: no batch may crash.
    let vals = c06::boundary_values(ctx.tier == Tier::Thorough);
    let mut progs = vec![];
    for a in &vals {
        let mut src = String::new();
        for b in &vals {
            for op in ["+", "-", "*", "/", "%", "<", "==", ".."] {
                if op == ".." && ((*b as i128) - (*a as i128)) > 64 {
                    continue;
                }
                // Each operation in its own function so that an error in one
                // does not hide the others: errors end the program, so one
                // program per (a, op) with all b is not possible; group by
                // expected success instead.
                let exact_ok = match op {
                    "+" => a.checked_add(*b).is_some(), "-" => a.checked_sub(*b).is_some(), "*" => a.checked_mul(*b).is_some(),
                    "/" | "%" => *b != 0 && !(*a == i64::MIN && *b == -1 && op == "/"),
                    _ => true,
                };
                let line = format!("r = {} {op} {}\n", int_src(*a), int_src(*b));
                if exact_ok {
                    src.push_str(&line);
                } else {
                    progs.push(format!("r := 0\n{line}"));
                }
                let oa = format!("r = {}\nr {}= {}\n", int_src(*a), if op.len() == 1 && op != "<" { op } else { "+" }, int_src(*b));
                if exact_ok && op.len() == 1 && op != "<" {
                    src.push_str(&oa);
                } else if op.len() == 1 && op != "<" {
                    progs.push(format!("r := 0\n{oa}"));
                }
            }
        }
        progs.push(format!("r := 0\n{src}"));
    }
    for p in extreme_programs() {
        progs.push(p);
    }
    let cases: Vec<(Case, bool)> = progs.into_iter().map(|s| {
        (Case{property: "C02".into(), kind: "boundary".into(), srcs: vec![format!("{s}\n").into_bytes()], pred: Pred::Expect(Expect::nocrash()), note: "boundary integers / extreme ranges and indices / multi-byte text".into()}, true)
    }).collect();
    ctx.label_n("boundary / extreme programs", cases.len() as u64);
    ctx.judge_all(cases, Via::Cli, None);
    // (d) hostile random programs.
    let cfg = gen::GenCfg::hostile();
    let mut big = gen::GenCfg::hostile();
    big.big = true;
    let n = ctx.n(50_000, 2_000_000);
    let via = if ctx.tier == Tier::Quick { Via::Cli } else { Via::Fast };
    ctx.proptest_tapes("hostile", n, 700, via, None, |t| {
        let use_big = t.chance(1, 5);
        let prog = gen::gen_prog(t, if use_big { &big } else { &cfg });
        let rr = interp::run(&prog);
        if let interp::Outcome::Discard(w) = &rr.outcome {
            ctx.exclude(w);
            return None;
        }
        label_outcome(ctx, &rr);
        let printed = print::print_prog(&prog, &print::Style::wild(8), Some(t));
        let nt = !printed.src.is_ascii() || printed.src.contains("92233720368547758") || rr.labels.contains("elem_assign");
        Some((Case{property: "C02".into(), kind: "hostile".into(), srcs: vec![printed.src.into_bytes()], pred: Pred::Expect(Expect::nocrash()), note: String::new()}, nt))
    });
    if ctx.tier == Tier::Thorough && worker_available() && !ctx.stopped() && crate::fuzzdrive::build(ctx) {
        // Coverage-guided: hostile decoded programs and raw mutations of the
        // repository's own scripts; a caught panic aborts the target.
        let seeds: Vec<Vec<u8>> = crate::repotests::load().into_iter().map(|t| { let mut v = vec![0u8]; v.extend(t.src.into_bytes()); v }).collect();
        let r = crate::fuzzdrive::campaign(ctx, "nocrash", 12, 10, ctx.n(1, 40_000), 1400, &seeds);
        ctx.label_n("libFuzzer executions (nocrash target)", r.executions);
        for bytes in r.crashes {
            if bytes.is_empty() {
                continue;
            }
            let src: Vec<u8> = if bytes[0] % 4 == 0 {
                bytes[1..].to_vec()
            } else {
                let mut t = sdmodel::tape::Tape::from_bytes(&bytes[1..]);
                print::print_canonical(&gen::gen_prog(&mut t, &cfg)).src.into_bytes()
            };
            let case = Case{property: "C02".into(), kind: "libfuzzer".into(), srcs: vec![src], pred: Pred::Expect(Expect::nocrash()), note: "crash artifact of the nocrash fuzz target".into()};
            ctx.judge(&case, true, Via::Cli, None);
        }
    }
}
