// C17 — a failure is one well-formed located diagnostic after the output so
// far. Failing programs by construction (fault catalogue x syntactic slot x
// call wrapper) plus random failing programs; oracle: the reference
// interpreter for stdout, the innermost function and the call stack, shape
// predicates for stderr.

use sdmodel::ast::*;
use sdmodel::gen;
use sdmodel::interp;
use sdmodel::print;

use crate::engine::*;
use crate::pred::*;
use crate::props::common::*;
use crate::props::faults::*;

pub struct Built {
    pub prog: Prog,
    pub label: String,
    pub depth: usize,
}

// The catalogue product. `stride` thins the wrapper dimension (quick tier).
pub fn catalogue(full: bool) -> Vec<Built> {
    let mut out = vec![];
    let depths_full: Vec<(usize, usize)> = vec![(0, 0), (1, 0), (1, 1), (1, 2), (1, 3), (1, 4), (2, 0), (2, 2), (3, 1), (5, 0), (9, 2), (12, 0)];
    let mut rot = 0usize;
    let mut push = |body: Vec<Stmt>, label: String, in_fn_only: bool, out: &mut Vec<Built>, rot: &mut usize| {
        let choices: Vec<(usize, usize)> = if full {
            depths_full.clone()
        } else {
            // Depth 0 always, plus two rotating wrappers.
            *rot += 1;
            vec![(0, 0), depths_full[1 + *rot % 11], depths_full[1 + (*rot * 7 + 3) % 11]]
        };
        for (depth, kind) in choices {
            if in_fn_only && depth == 0 {
                continue;
            }
            let mut stmts = prelude();
            let mut b = body.clone();
            b.push(sdmodel::ast::print(string("after")));
            stmts.extend(wrap_calls(b, depth, kind));
            stmts.push(sdmodel::ast::print(string("end")));
            out.push(Built{prog: Prog::new(stmts), label: format!("{label} @ depth {depth} (wrapper {kind})"), depth});
        }
    };
    for (fname, f) in fault_exprs() {
        for (sname, body) in slots(&f) {
            push(body, format!("{fname} in {sname}"), false, &mut out, &mut rot);
        }
        for (sname, body) in fn_slots(&f) {
            push(body, format!("{fname} in {sname}"), true, &mut out, &mut rot);
        }
    }
    for (fname, body) in fault_stmts() {
        push(body.clone(), format!("{fname} (statement)"), false, &mut out, &mut rot);
        push(vec![block(body.clone())], format!("{fname} (statement in a block)"), false, &mut out, &mut rot);
        push(vec![if_(boolean(true), body.clone(), None)], format!("{fname} (statement in an if)"), false, &mut out, &mut rot);
        push(vec![for_(var("lp"), list(vec![int(1)]), body.clone())], format!("{fname} (statement in a for)"), false, &mut out, &mut rot);
    }
    for (jname, j) in jump_faults() {
        push(vec![j.clone()], format!("{jname} (statement)"), false, &mut out, &mut rot);
        push(vec![if_(boolean(true), vec![block(vec![j.clone()])], None)], format!("{jname} (under if and block)"), false, &mut out, &mut rot);
        // Inside a function that is itself called from a loop: an error, not
        // a jump in the caller.
        push(vec![
            fn_decl("jumper", vec![], false, vec![j.clone()]),
            for_(var("lp"), list(vec![int(1), int(2)]), vec![sdmodel::ast::print(var("lp")), expr_stmt(call(var("jumper"), vec![]))]),
        ], format!("{jname} (in a function called from a loop)"), false, &mut out, &mut rot);
    }
    // Direct recursion: the same call site is active several times, and
    // every activation has its own trace line.
    for (k, (fname, f)) in fault_exprs().into_iter().enumerate() {
        if !full && k % 4 != 0 {
            continue;
        }
        for levels in [2i64, 4, 15] {
            let mut stmts = prelude();
            stmts.push(fn_decl("rec", vec![var("lv")], false, vec![
                sdmodel::ast::print(var("lv")),
                if_(bin(Op::Lte, var("lv"), int(0)), vec![expr_stmt(f.clone())], None),
                ret(bin(Op::Sum, int(1), call(var("rec"), vec![bin(Op::Sub, var("lv"), int(1))]))),
            ]));
            stmts.push(sdmodel::ast::print(call(var("rec"), vec![int(levels)])));
            out.push(Built{prog: Prog::new(stmts), label: format!("{fname} under direct recursion x{levels}"), depth: levels as usize + 1});
            // The same with three different self-call sites taken in turn
            // (by the level modulo 3): consecutive frames of one function
            // with different call positions.
            let mut stmts = prelude();
            let down = || call(var("walk"), vec![bin(Op::Sub, var("lv"), int(1))]);
            stmts.push(fn_decl("walk", vec![var("lv")], false, vec![
                if_(bin(Op::Lte, var("lv"), int(0)), vec![expr_stmt(f.clone())], None),
                if_(bin(Op::Eq, bin(Op::Mod, var("lv"), int(3)), int(0)), vec![ret(bin(Op::Sum, int(1), down()))], None),
                if_(bin(Op::Eq, bin(Op::Mod, var("lv"), int(3)), int(1)), vec![declare(var("got"), down()), ret(var("got"))], None),
                ret(list(vec![down()])),
            ]));
            stmts.push(sdmodel::ast::print(call(var("walk"), vec![int(levels + 1)])));
            out.push(Built{prog: Prog::new(stmts), label: format!("{fname} under recursion through three call sites x{}", levels + 1), depth: levels as usize + 2});
        }
    }
    // `return` at the top level (depth 0 only).
    let mut stmts = prelude();
    stmts.push(ret(int(1)));
    stmts.push(sdmodel::ast::print(string("after")));
    out.push(Built{prog: Prog::new(stmts), label: "return outside function".into(), depth: 0});
    let mut stmts = prelude();
    stmts.push(if_(boolean(true), vec![block(vec![ret(int(1))])], None));
    out.push(Built{prog: Prog::new(stmts), label: "return outside function (nested)".into(), depth: 0});
    out
}

pub fn case_of(ctx: &Ctx, property: &str, b: &Built, printed: &print::Printed, level: DiagLevel) -> Option<(Case, bool)> {
    let rr = interp::run(&b.prog);
    let e = match &rr.outcome {
        interp::Outcome::Err(e) => e.clone(),
        interp::Outcome::Ok => {
            ctx.exclude("catalogue entry does not fail in the reference");
            return None;
        },
        interp::Outcome::Discard(w) => {
            ctx.exclude(w);
            return None;
        },
    };
    let expect = ref_expect(printed, &rr, level)?;
    ctx.label(&format!("error class {}", kind_name(&e.kind)));
    ctx.label(&format!("call depth {}", e.stack.len().min(6)));
    let nt = !e.stack.is_empty() || !b.label.contains("expression statement");
    Some((Case{
        property: property.into(), kind: "catalogue".into(), srcs: vec![printed.src.clone().into_bytes()],
        pred: Pred::Expect(expect), note: b.label.clone(),
    }, nt))
}

fn front_errors() -> Vec<(Case, bool)> {
    // Every lexical / parse error class: one well-formed line, no trace.
    let srcs = [
        "print(1)\nx := @\n", "print(1)\ny := \"a\\qb\"\n", "print(1)\ny := \"\\xZ1\"\n", "print(1)\ny := \"cost $5\"\n",
        "print(1)\ny := $\"$x\"\n", "z := 99999999999999999999\n", "print(1\n", "if true {\n    print(1)\n", "x := := 1\n", "print(1) print(2)\n",
        "fn () {\n", "[1, 2\n", "x = \n", "}\n", "else\n", "a ? b\n", "x := 1 &\n", "x := 1 | 2\n", "x := !y\n",
    ];
    srcs.iter().map(|s| {
        let mut e = Expect::err(vec![]);
        e.diag = vec![DiagPred::WellFormedFront{max_line: s.matches('\n').count() as u32 + 2}, DiagPred::InFunc(None), DiagPred::NoTrace];
        (Case{property: "C17".into(), kind: "front_error".into(), srcs: vec![s.as_bytes().to_vec()], pred: Pred::Expect(e), note: "lexical / parse error".into()}, true)
    }).collect()
}

// A `print` whose rendering fails after tens or hundreds of kilobytes (a
// string that is not valid UTF-8 late in a big container) completes nothing:
// stdout holds the earlier prints only. And big prints that do complete are
// whole before a later failure.
fn big_output_cases(ctx: &Ctx) -> Vec<(Case, bool)> {
    let mut out = vec![];
    let render = |n: i64| -> String { let mut s = String::from("[\n"); for k in 0..n { s.push_str(&format!("    {k},\n")); } s.push_str("]\n"); s };
    for n in [10i64, 3000, 8000, 20000, 70000] {
        let forms: Vec<(String, u32, bool)> = vec![
            (format!("print(\"report:\")\nids := 0 .. {n}\nowner := \"émile\"\no := {{\"ids\": ids, \"initial\": owner[0]}}\nprint(o)\nprint(\"after\")\n"), 5, false),
            (format!("print(\"report:\")\nids := 0 .. {n}\nowner := \"émile\"\nids += [owner[0]]\nprint(ids)\nprint(\"after\")\n"), 5, false),
            (format!("print(\"report:\")\nids := 0 .. {n}\nowner := \"日本\"\nfn show(v) {{\n    print(v)\n}}\nshow([ids, [ids, {{\"z\": owner[1:2]}}]])\nprint(\"after\")\n"), 7, false),
            (format!("ids := 0 .. {n}\nprint(ids)\nprint(\"between\")\nx := ids[{n}]\nprint(\"after\")\n"), 4, true),
        ];
        for (src, max_line, whole) in forms {
            let want = if whole { format!("{}between\n", render(n)) } else { "report:\n".to_string() };
            let mut e = Expect::err(want.into_bytes());
            e.diag = vec![DiagPred::WellFormed{max_line}];
            ctx.label("failure after / inside a large print");
            out.push((Case{property: "C17".into(), kind: "big_output".into(), srcs: vec![src.into_bytes()], pred: Pred::Expect(e), note: format!("{n} elements; {}", if whole { "complete print, then a failure" } else { "the print itself fails late" })}, true));
        }
    }
    out
}

// A loop binds its target turn by turn: the turns before an element that does
// not fit the pattern have run (and printed), and a loop that leaves before
// reaching it never fails. Likewise arguments bind when the call happens.
fn lazy_binding_cases(ctx: &Ctx) -> Vec<(Case, bool)> {
    let mut out = vec![];
    let rows = ["[[1, 2], [3, 4], [5]]", "[[1, 2], [3, 4], 5]", "[[1, 2], [3, 4], [5, 6, 7]]", "[{\"a\": 1}, {\"a\": 2}, {\"b\": 3}]"];
    for (k, r) in rows.iter().enumerate() {
        let target = if k == 3 { "{a}" } else { "[a, b]" };
        let show = "a";
        let src = format!("rows := {r}\nfor [i, {target}] in rows {{\n    print({show})\n}}\nprint(\"after\")\n");
        let first = if k == 3 { "1\n2\n" } else { "1\n3\n" };
        let mut e = Expect::err(first.as_bytes().to_vec());
        e.diag = vec![DiagPred::WellFormed{max_line: 5}];
        ctx.label("binding turn by turn");
        out.push((Case{property: "C17".into(), kind: "lazy_binding".into(), srcs: vec![src.into_bytes()], pred: Pred::Expect(e), note: "the third element does not fit the for target: two turns have printed".into()}, true));
        let src = format!("rows := {r}\nfn first_two() {{\n    for [i, {target}] in rows {{\n        print({show})\n        if i == 1 {{\n            return i\n        }}\n    }}\n    return -1\n}}\nprint(first_two())\nfor [i, {target}] in rows {{\n    if i == 1 {{\n        break\n    }}\n}}\nprint(\"after\")\n");
        ctx.label("binding turn by turn");
        out.push((Case{property: "C17".into(), kind: "lazy_binding".into(), srcs: vec![src.into_bytes()], pred: Pred::Expect(Expect::ok(format!("{first}1\nafter\n").into_bytes())), note: "the loop leaves before the element that does not fit: success".into()}, true));
    }
    // A parameter pattern that does not fit: the failure belongs to the call
    // (callee named, one trace line per active call).
    let src = "fn add([ax, ay], [bx, by]) {\n    return [ax + bx, ay + by]\n}\nfn total(ps) {\n    print(\"in total\")\n    return add(ps[0], ps[1])\n}\nprint(total([[1, 2], [3, 4]]))\nprint(total([[1, 2], [3, 4, 5]]))\n";
    let mut e = Expect::err(b"in total\n[\n    4,\n    6,\n]\nin total\n".to_vec());
    e.diag = vec![DiagPred::WellFormed{max_line: 10}, DiagPred::InFunc(Some("add".into())), DiagPred::Trace(vec![crate::diag::TraceLine{line: 6, col: 12, func: "total".into()}, crate::diag::TraceLine{line: 9, col: 7, func: "<root>".into()}])];
    ctx.label("binding turn by turn");
    out.push((Case{property: "C17".into(), kind: "lazy_binding".into(), srcs: vec![src.as_bytes().to_vec()], pred: Pred::Expect(e), note: "parameter pattern mismatch two calls deep".into()}, true));
    out
}

pub fn run(ctx: &Ctx) {
    ctx.set_rule("failing programs by construction: 46 failing expressions x 42 syntactic slots (+ return slots) and 37 failing statements x 4 positions, x call wrappers (named, anonymous, method, callback, builtin argument) at depth 0..5, jumps outside their construct, every lexical / parse error class; plus random failing programs from the tape decoder (hostile profile) in random layouts; oracle: stdout = the reference's output up to the failure, exit 103, stderr line 1 `<path>:<l>:<c>: [in '<innermost function>': ]<message>` with l within the script, no internal identifier, Stacktrace with exactly one line per active call at the position of that call, innermost first, ending at <root>; successful programs: empty stderr, exit 0; recursion through three self-call sites; a print that fails after 64 KiB and complete prints of up to 600 KB before a failure; loops bind their target turn by turn (earlier turns have printed, leaving early succeeds), parameter-pattern mismatch attributed to the callee with the full trace. Non-trivial = raised at call depth >= 1 or at a position other than a top-level expression statement; distinct = distinct source texts");
    ctx.replay_corpus(None);
    let hist = crate::props::faults::history_cases("C17", &["runtime", "syntax"]);
    ctx.label_n("literal evaluated after similar literals: independent of the history", hist.len() as u64);
    ctx.judge_all(hist, Via::Cli, None);
    let built = catalogue(ctx.tier == Tier::Thorough);
    let mut cases = vec![];
    for b in &built {
        let printed = print::print_canonical(&b.prog);
        if let Some(c) = case_of(ctx, "C17", b, &printed, DiagLevel::Shape) {
            cases.push(c);
        }
    }
    ctx.set_extra("catalogue_cases", serde_json::json!(cases.len()));
    ctx.mark_exhaustive("fault catalogue x slot x wrapper product (quick tier: depth 0 plus two rotating wrappers per entry)");
    ctx.judge_all(cases, Via::Cli, None);
    ctx.judge_all(front_errors(), Via::Cli, None);
    ctx.judge_all(big_output_cases(ctx), Via::Cli, None);
    ctx.judge_all(lazy_binding_cases(ctx), Via::Cli, None);
    // Random programs, hostile profile: most of them fail somewhere.
    let mut cfg = gen::GenCfg::balanced();
    cfg.sloppy = 6;
    let mut big = gen::GenCfg::big();
    big.sloppy = 3;
    let n = ctx.n(25_000, 4_000_000);
    let via = if ctx.tier == Tier::Quick { Via::Cli } else { Via::Fast };
    ctx.proptest_tapes("random_failing", n, 700, via, None, |t| {
        let density = if t.chance(1, 2) { 12 } else { 0 };
        let use_big = t.chance(1, 5);
        let (case, rr, _, _) = crate::props::c01::build_case("C17", "random", t, if use_big { &big } else { &cfg }, density, ctx, DiagLevel::Shape)?;
        label_outcome(ctx, &rr);
        let nt = rr.err().map(|e| !e.stack.is_empty()).unwrap_or(false);
        if let Some(e) = rr.err() {
            ctx.label(&format!("random: call depth {}", e.stack.len().min(6)));
        }
        Some((case, nt))
    });
}
