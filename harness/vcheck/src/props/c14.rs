// C14 — calls bind arguments to fresh parameters; `this` follows the access
// path. Exhaustive histories of attaching / reading / moving / calling a
// function that reports `this.tag`, and an arity x rest x count matrix with
// tracing arguments; oracle: reference interpreter with origin provenance.

use std::collections::HashSet;
use std::sync::Mutex;

use rayon::prelude::*;

use sdmodel::ast::*;
use sdmodel::interp;
use sdmodel::print;

use crate::engine::*;
use crate::pred::*;
use crate::props::common::*;

const THIS_VARIANTS: [&str; 4] = ["this_sticky", "this_dropped_on_store", "this_dropped_on_pass", "args_copy"];
const N_OPS: usize = 28;

fn pv(e: Expr) -> Stmt { sdmodel::ast::print(e) }
fn o(i: usize) -> Expr { var(&format!("o{i}")) }

fn op(code: usize) -> (Vec<Stmt>, &'static str) {
    let h = || var("h");
    match code {
        0..=2 => (vec![assign(prop(o(code + 1), "m"), h())], "attach h to an object"),
        3..=5 => (vec![assign(h(), prop(o(code - 2), "m"))], "read by .m into a variable"),
        6..=8 => (vec![assign(h(), index(o(code - 5), string("m")))], "read by [\"m\"] into a variable"),
        9 => (vec![assign(h(), var("who"))], "fresh function, never read through an object"),
        10 => (vec![assign(h(), call(var("same"), vec![h()]))], "through an argument and a return"),
        11 => (vec![assign(index(var("l"), int(0)), h())], "put in a list"),
        12 => (vec![assign(h(), index(var("l"), int(0)))], "take from a list"),
        13 => (vec![assign(h(), prop(prop(o(3), "inner"), "m"))], "read through a chain"),
        14 => (vec![pv(call(h(), vec![]))], "call the moved value"),
        15..=17 => (vec![pv(call(prop(o(code - 14), "m"), vec![]))], "call as o.m()"),
        18 => (vec![pv(call(prop(index(o(3), string("inner")), "m"), vec![]))], "call through a chain"),
        19 => (vec![assign(h(), call(var("wrap"), vec![h()]))], "captured by a closure"),
        20 => (vec![declare(var("h2"), h()), assign(h(), null()), assign(h(), var("h2"))], "copied between variables"),
        21 => (vec![assign(prop(o(2), "m"), prop(o(1), "m"))], "re-attached from one object to another"),
        22 => (vec![pv(call(index(var("l"), int(0)), vec![]))], "call a list element"),
        23 => (vec![pv(call(var("callit"), vec![h()]))], "call inside another function"),
        24 => (vec![assign(prop(o(3), "inner"), o(2))], "re-point the chain"),
        26 => (vec![assign(range_index(var("l"), Some(int(0)), Some(int(1))), list(vec![h()]))], "put in a list by range assignment"),
        27 => (vec![assign(var("l"), bin(Op::Sum, range_index(bin(Op::Sum, list(vec![h()]), var("l")), Some(int(0)), Some(int(1))), list(vec![])))], "put in a list built by concatenation and slicing"),
        _ => (vec![assign(h(), obj(vec![pair("tag", int(9)), pair("nm", string("n9")), pair("m", h())])), assign(h(), prop(h(), "m"))], "through a fresh object literal"),
    }
}

const N_STYLES: u64 = 6;

fn prelude(style: usize) -> Vec<Stmt> {
    let body = vec![ret(prop(var("this"), "tag"))];
    let slot = |e: Expr| ex(EK::Interp(vec![StrPart::Text(vec![('<', Spell::Raw)]), StrPart::Slot(Box::new(e)), StrPart::Text(vec![('>', Spell::Raw)])]));
    let who = match style {
        0 => fn_decl("who", vec![], false, body),
        1 => declare(var("who"), func(vec![], false, body)),
        // `this` mentioned only inside an interpolation slot, only inside a
        // slot of a slot, only inside a closure called from a slot.
        3 => fn_decl("who", vec![], false, vec![ret(slot(prop(var("this"), "nm")))]),
        4 => declare(var("who"), func(vec![], false, vec![ret(slot(slot(prop(var("this"), "nm"))))])),
        5 => fn_decl("who", vec![], false, vec![ret(slot(call(func(vec![], false, vec![ret(prop(var("this"), "nm"))]), vec![])))]),
        _ => {
            // A nested closure: the inner function sees the `this` of the
            // call it was created in.
            declare(var("who"), func(vec![], false, vec![declare(var("inner"), func(vec![], false, vec![ret(prop(var("this"), "tag"))])), ret(call(var("inner"), vec![]))]))
        },
    };
    vec![
        who,
        fn_decl("same", vec![var("f")], false, vec![ret(var("f"))]),
        fn_decl("wrap", vec![var("f")], false, vec![ret(func(vec![], false, vec![ret(call(var("f"), vec![]))]))]),
        fn_decl("callit", vec![var("f")], false, vec![ret(call(var("f"), vec![]))]),
        declare(o(1), obj(vec![pair("tag", int(1)), pair("nm", string("n1")), pair("m", var("who"))])),
        declare(o(2), obj(vec![pair("tag", int(2)), pair("nm", string("n2"))])),
        declare(o(3), obj(vec![pair("tag", int(3)), pair("nm", string("n3")), pair("inner", o(1))])),
        declare(var("l"), list(vec![null()])),
        declare(var("h"), prop(o(1), "m")),
    ]
}

fn history(digits: &[usize], style: usize) -> (Prog, Vec<&'static str>) {
    let mut stmts = prelude(style);
    let mut labels = vec![];
    for d in digits {
        let (s, l) = op(*d);
        stmts.extend(s);
        labels.push(l);
    }
    // Final observation: the moved value and the direct call.
    stmts.push(pv(call(prop(o(1), "m"), vec![])));
    stmts.push(pv(call(var("h"), vec![])));
    (Prog::new(stmts), labels)
}

fn enumerate(ctx: &Ctx, len: usize, sample_every: u64) {
    let base = N_OPS as u64;
    let total = base.pow(len as u32) * N_STYLES;
    let seen: Mutex<HashSet<u64>> = Mutex::new(HashSet::new());
    (0..total).into_par_iter().for_each(|code0| {
        if ctx.stopped() {
            return;
        }
        if sample_every > 1 && (code0.wrapping_mul(0x9E3779B97F4A7C15) >> 20) % sample_every != ctx.seed % sample_every {
            return;
        }
        let style = (code0 % N_STYLES) as usize;
        let mut c = code0 / N_STYLES;
        let mut digits = vec![];
        for _ in 0..len {
            digits.push((c % base) as usize);
            c /= base;
        }
        let (prog, labels) = history(&digits, style);
        let printed = print::print_canonical(&prog);
        if !seen.lock().unwrap().insert(fnv(printed.src.as_bytes())) {
            return;
        }
        let rr = interp::run(&prog);
        let expect = match ref_expect(&printed, &rr, DiagLevel::None) {
            Some(e) => e,
            None => { ctx.exclude("reference discards"); return; },
        };
        for l in &labels {
            ctx.label(l);
        }
        label_outcome(ctx, &rr);
        let nd = count_variants(ctx, &prog, &rr, &THIS_VARIANTS);
        let moves = labels.iter().filter(|l| !l.starts_with("call")).count();
        let case = Case{property: "C14".into(), kind: "this_history".into(), srcs: vec![printed.src.into_bytes()], pred: Pred::Expect(expect), note: format!("history {digits:?}, definition style {style}")};
        let via = if code0 % 8 == 0 { Via::Cli } else { Via::Fast };
        ctx.judge(&case, nd > 0 || moves >= 2, via, None);
    });
}

// Arity x rest x argument count, with tracing arguments and parameters that
// are assigned / mutated inside.
fn call_matrix(ctx: &Ctx) -> Vec<(Case, bool)> {
    let mut out = vec![];
    for arity in 0..=4usize {
        for rest in [false, true] {
            for count in 0..=(arity + 2) {
                for via_spread in [false, true] {
                    let mut params: Vec<Expr> = (0..arity).map(|i| var(&format!("p{i}"))).collect();
                    if rest {
                        params.push(var("more"));
                    }
                    let mut body: Vec<Stmt> = vec![pv(string("in f"))];
                    for p in &params {
                        body.push(pv(p.clone()));
                    }
                    if arity > 0 {
                        // Assigning to a parameter does not reach the caller;
                        // mutating the passed container does.
                        body.push(assign(var("p0"), string("changed")));
                    }
                    let t = fn_decl("t", vec![var("x")], false, vec![pv(var("x")), ret(var("x"))]);
                    let args: Vec<Item> = if via_spread && count >= 2 {
                        let k = count / 2;
                        let mut a: Vec<Item> = (0..k).map(|i| item(call(var("t"), vec![int(i as i64 + 1)]))).collect();
                        a.push(spread(list((k..count).map(|i| call(var("t"), vec![int(i as i64 + 1)])).collect())));
                        a
                    } else {
                        (0..count).map(|i| item(call(var("t"), vec![int(i as i64 + 1)]))).collect()
                    };
                    let stmts = vec![
                        t,
                        fn_decl("f", params, rest, body),
                        pv(call_items(var("f"), args)),
                        pv(string("after")),
                    ];
                    let prog = Prog::new(stmts);
                    let rr = interp::run(&prog);
                    let printed = print::print_canonical(&prog);
                    if let Some(e) = ref_expect(&printed, &rr, DiagLevel::None) {
                        ctx.label(if rr.is_ok() { "call matrix: accepted" } else { "call matrix: count error" });
                        out.push((Case{property: "C14".into(), kind: "call_matrix".into(), srcs: vec![printed.src.into_bytes()], pred: Pred::Expect(e), note: format!("arity {arity}, rest {rest}, {count} arguments, spread {via_spread}")}, true));
                    }
                }
            }
        }
    }
    out
}

fn catalogue() -> Vec<(Case, bool)> {
    let srcs: Vec<(&str, Option<&str>)> = vec![
        ("fn f(a, xs) {\n    a = 2\n    xs[0] = 9\n    xs = [0]\n    return a\n}\nn := 1\nys := [1]\nprint(f(n, ys))\nprint(n)\nprint(ys)\n", Some("2\n1\n[\n    9,\n]\n")),
        ("a := {\"tag\": \"a\", \"who\": fn () {\n    return this.tag\n}}\nb := {\"tag\": \"b\", \"who\": a.who}\nf := a.who\nprint(f())\nf = b.who\nprint(f())\ng := null\ng = b.who\nprint(g())\nxs := [a.who]\nxs[0] = b.who\nprint(xs[0]())\n", Some("a\nb\nb\nb\n")),
        ("f := fn () {\n    return this\n}\nprint(f())\n", None),
        ("fn outer() {\n    g := fn () {\n        return this.tag\n    }\n    return g()\n}\no := {\"tag\": 5, \"run\": outer}\nprint(o.run())\n", Some("5\n")),
        ("o := {\"tag\": 1, \"get\": fn () {\n    return this\n}}\nprint(o.get() === o)\np := {\"tag\": 2, \"get\": o.get}\nprint(p.get() === p)\nprint(p.get() === o)\n", Some("true\ntrue\nfalse\n")),
        ("o := {\"n\": 0, \"inc\": fn () {\n    this.n += 1\n    return this.n\n}}\ninc := o.inc\nprint(inc())\nprint(inc())\nprint(o.n)\n", Some("1\n2\n2\n")),
        ("fn f(..r) {\n    r[0] = 0\n}\nxs := [5, 6, 7]\nf(xs..)\nprint(xs)\nfn keep(..args) {\n    f(args..)\n    return args\n}\nprint(keep(1, 2, 3))\n", Some("[\n    5,\n    6,\n    7,\n]\n[\n    1,\n    2,\n    3,\n]\n")),
    ];
    let mut srcs: Vec<(String, Option<String>)> = srcs.into_iter().map(|(a, b)| (a.to_string(), b.map(|x| x.to_string()))).collect();
    {
        // Twenty parameters, thirty arguments through a spread, a call chain
        // fifteen deep that passes a bound method along.
        let params: Vec<String> = (0..20).map(|k| format!("p{k:02}")).collect();
        let args: Vec<String> = (0..20).map(|k| format!("{}", k * 3)).collect();
        srcs.push((format!("fn wide({}) {{\n    p00 = 100\n    return [p00, p07, p19]\n}}\nprint(wide({}) == [100, 21, 57])\nxs := 0 .. 20\nprint(wide(xs..) == [100, 7, 19])\nfn tail(a, ..r) {{\n    r[28] = 0\n    return r[28] + r[27]\n}}\nys := 0 .. 30\nprint(tail(ys..))\nprint(ys[29])\n", params.join(", "), args.join(", ")), Some("true\ntrue\n28\n29\n".to_string())));
        let mut chain = String::from("o := {\"tag\": 77, \"who\": fn () {\n    return this.tag\n}}\nfn lv15(f) {\n    return f()\n}\n");
        for k in (1..15).rev() {
            chain.push_str(&format!("fn lv{k:02}(f) {{\n    g := f\n    return lv{}([g][0])\n}}\n", if k == 14 { "15".to_string() } else { format!("{:02}", k + 1) }));
        }
        chain.push_str("print(lv01(o.who))\n");
        srcs.push((chain, Some("77\n".to_string())));
    }
    srcs.into_iter().map(|(s, e)| {
        let ex = match e {
            Some(t) => Expect::ok(t.as_bytes().to_vec()),
            None => { let mut x = Expect::err(vec![]); x.diag = vec![DiagPred::WellFormed{max_line: 5}]; x },
        };
        (Case{property: "C14".into(), kind: "catalogue".into(), srcs: vec![s.as_bytes().to_vec()], pred: Pred::Expect(ex), note: "parameters are fresh; this follows the access path".into()}, true)
    }).collect()
}

pub fn run(ctx: &Ctx) {
    ctx.set_rule("all histories of length <= 3 (thorough: length 4 complete, length 5 sampled 1:40) over 28 operations {attach h to o1/o2/o3, read by .m / [\"m\"] from each, fresh function, through argument+return, into / out of a list, chain read, closure capture, copy between variables, re-attach from o1 to o2, re-point the chain, through a fresh object literal, call h(), o.m(), chain call, list element call, call inside another function} x 6 definition styles (named, anonymous, nested closure, `this` only inside an interpolation slot / a slot of a slot / a closure called from a slot) (named fn, anonymous, nested closure), objects carrying distinct tags; arity 0..4 x rest x argument count 0..arity+2 x plain/spread with tracing arguments and a parameter that is assigned inside; catalogue of parameter freshness / this identity; oracle: reference with origin provenance; a method put into a list by range assignment / concatenation and slicing. Non-trivial = the history distinguishes one of {this = first object ever, this dropped on store, this dropped on pass, arguments copied} or has >= 2 moves; distinct = distinct source texts");
    ctx.replay_corpus(None);
    ctx.judge_all(catalogue(), Via::Cli, None);
    ctx.judge_all(call_matrix(ctx), Via::Cli, None);
    // Arguments are evaluated once, left to right: a spread argument is read
    // when its turn comes, not after the later arguments (shared with C13).
    ctx.judge_all(crate::props::c13::spread_effect_cases(ctx, "C14", true), Via::Cli, None);
    enumerate(ctx, 1, 1);
    enumerate(ctx, 2, 1);
    ctx.mark_exhaustive("this-histories of length <= 2 x 6 definition styles; call matrix");
    if ctx.tier == Tier::Quick {
        enumerate(ctx, 3, 1);
        ctx.mark_exhaustive("this-histories of length 3");
    } else {
        enumerate(ctx, 3, 1);
        enumerate(ctx, 4, 1);
        enumerate(ctx, 5, 40);
        ctx.mark_exhaustive("this-histories of length 3 and 4");
    }
}
