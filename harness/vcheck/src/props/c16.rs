// C16 — no implicit conversions: the full operator x kind x kind matrix and
// every typed context x kind, against a table read off the property text.

use sdmodel::ast::Op;
use sdmodel::ast::ALL_OPS;

use crate::engine::*;
use crate::pred::*;

#[derive(Clone, Copy, Debug, PartialEq, Eq, PartialOrd, Ord)]
pub enum K { Null, Bool, Int, Str, List, Obj, Func, Builtin }

pub const KINDS: [K; 8] = [K::Null, K::Bool, K::Int, K::Str, K::List, K::Obj, K::Func, K::Builtin];

impl K {
    pub fn type_name(self) -> &'static str {
        match self {
            K::Null => "null", K::Bool => "bool", K::Int => "int", K::Str => "string",
            K::List => "list", K::Obj => "object", K::Func | K::Builtin => "func",
        }
    }
    // Two representatives per kind (names declared by `PRELUDE`).
    pub fn reps(self) -> [&'static str; 2] {
        match self {
            K::Null => ["null", "nul"],
            K::Bool => ["true", "false"],
            K::Int => ["0", "5"],
            K::Str => ["\"\"", "\"ab\""],
            K::List => ["[]", "[1]"],
            K::Obj => ["{}", "{\"a\": 1}"],
            K::Func => ["usr", "anon"],
            K::Builtin => ["print", "\"a\"->len"],
        }
    }
}

pub const PRELUDE: &str = "nul := null\nfn usr() {\n    return 1\n}\nanon := fn () {\n    return 2\n}\n";
const PRELUDE_LINES: u32 = 7;

// Is the pair in the operator's documented domain?
pub fn in_domain(op: Op, l: K, r: K) -> bool {
    match op {
        Op::Sum => matches!((l, r), (K::Int, K::Int) | (K::Str, K::Str) | (K::List, K::List)),
        Op::Sub | Op::Mul | Op::Div | Op::Mod | Op::Lt | Op::Lte | Op::Gt | Op::Gte => (l, r) == (K::Int, K::Int),
        Op::And | Op::Or => (l, r) == (K::Bool, K::Bool),
        Op::Eq | Op::Ne => l == r && !matches!(l, K::Func | K::Builtin),
        Op::RefEq | Op::RefNe => matches!((l, r), (K::List, K::List) | (K::Obj, K::Obj) | (K::Func, K::Func)),
    }
}

fn value_of(op: Op, l: K, a: &str, b: &str) -> Option<String> {
    // Expected printed value of an in-domain cell over the representatives.
    let int = |s: &str| s.parse::<i64>().ok();
    Some(match op {
        Op::Sum => match l {
            K::Int => (int(a)? + int(b)?).to_string(),
            K::Str => format!("{}{}", a.trim_matches('"'), b.trim_matches('"')),
            _ => {
                let mut items = vec![];
                for x in [a, b] {
                    if x == "[1]" { items.push("1"); }
                }
                let mut s = String::from("[\n");
                for i in items { s.push_str(&format!("    {i},\n")); }
                s.push(']');
                s
            },
        },
        Op::Sub => (int(a)? - int(b)?).to_string(),
        Op::Mul => (int(a)? * int(b)?).to_string(),
        Op::Div => { if int(b)? == 0 { return None; } (int(a)? / int(b)?).to_string() },
        Op::Mod => { if int(b)? == 0 { return None; } (int(a)? % int(b)?).to_string() },
        Op::Lt => (int(a)? < int(b)?).to_string(),
        Op::Lte => (int(a)? <= int(b)?).to_string(),
        Op::Gt => (int(a)? > int(b)?).to_string(),
        Op::Gte => (int(a)? >= int(b)?).to_string(),
        Op::And => (a == "true" && b == "true").to_string(),
        Op::Or => (a == "true" || b == "true").to_string(),
        Op::Eq | Op::Ne => {
            // Representatives of one kind are structurally equal iff they are
            // the same literal (null / nul are both null).
            let eq = a == b || (l == K::Null);
            (if op == Op::Eq { eq } else { !eq }).to_string()
        },
        Op::RefEq | Op::RefNe => {
            // Literals build fresh containers; function names denote one value.
            let same = l == K::Func && a == b;
            (if op == Op::RefEq { same } else { !same }).to_string()
        },
    })
}

fn err_case(kind: &str, src: String, lines: u32, parts: Vec<String>, note: String) -> (Case, bool) {
    let mut e = Expect::err(vec![]);
    // Some contexts print before they reach the offending value.
    e.stdout = None;
    e.diag = vec![DiagPred::WellFormed{max_line: lines}];
    if !parts.is_empty() {
        e.diag.push(DiagPred::MsgContains(parts));
    }
    (Case{property: "C16".into(), kind: kind.into(), srcs: vec![src.into_bytes()], pred: Pred::Expect(e), note}, true)
}

fn ok_case(kind: &str, src: String, out: Option<String>, note: String) -> (Case, bool) {
    let e = Expect{stdout: out.map(|s| s.into_bytes()), status: StatusClass::Ok, diag: vec![]};
    (Case{property: "C16".into(), kind: kind.into(), srcs: vec![src.into_bytes()], pred: Pred::Expect(e), note}, true)
}

// Wrappers that put the operation at a nested position (thorough tier).
fn wrap(expr_stmt: &str, how: usize) -> (String, u32) {
    match how {
        0 => (format!("{expr_stmt}\n"), 1),
        1 => (format!("fn host() {{\n    {expr_stmt}\n}}\nhost()\n"), 4),
        2 => (format!("for kv in [1] {{\n    {expr_stmt}\n}}\n"), 3),
        _ => (format!("if true {{\n    {{\n        {expr_stmt}\n    }}\n}}\n"), 5),
    }
}

fn operator_matrix(ctx: &Ctx, cases: &mut Vec<(Case, bool)>) {
    let reps = if ctx.tier == Tier::Quick { 1 } else { 2 };
    let wraps = if ctx.tier == Tier::Quick { 1 } else { 4 };
    for op in ALL_OPS {
        for l in KINDS {
            for r in KINDS {
                for ra in 0..reps {
                    for rb in 0..reps {
                        for w in 0..wraps {
                            let (a, b) = (l.reps()[ra], r.reps()[rb]);
                            let (body, lines) = wrap(&format!("print({a} {} {b})", op.sym()), w);
                            let src = format!("{PRELUDE}{body}");
                            let cell = format!("{} {:?} {:?}", op.sym(), l, r);
                            ctx.label(if in_domain(op, l, r) { "operator cell: in domain" } else { "operator cell: type error" });
                            if in_domain(op, l, r) {
                                match value_of(op, l, a, b) {
                                    Some(v) => cases.push(ok_case("operator", src, Some(format!("{v}\n")), cell)),
                                    None => cases.push(err_case("operator", src, PRELUDE_LINES + lines, vec![], format!("{cell} (zero divisor)"))),
                                }
                            } else {
                                let parts = vec![op.sym().to_string(), l.type_name().to_string(), r.type_name().to_string()];
                                cases.push(err_case("operator", src, PRELUDE_LINES + lines, parts, cell));
                            }
                        }
                    }
                }
            }
        }
    }
}

// Whether a cell is a type error depends on the kinds alone, never on the
// values: every out-of-domain cell again over values that look convertible
// (numeric strings, empty and one-element containers, 0 / 1, large numbers).
fn zoo(k: K) -> Vec<String> {
    match k {
        K::Null => vec!["null".into(), "nul".into()],
        K::Bool => vec!["true".into(), "false".into(), "(1 < 2)".into()],
        K::Int => vec!["0".into(), "1".into(), "-1".into(), "5".into(), "1000003".into(), "65536".into(), "9223372036854775807".into(), "(2 - 2)".into()],
        K::Str => vec!["\"\"".into(), "\"5\"".into(), "\"0\"".into(), "\"-1\"".into(), "\"true\"".into(), "\"null\"".into(), "\"[]\"".into(), "\" 12 \"".into(), "\"1e3\"".into(), format!("\"{}\"", "1234567890".repeat(12)), "\"é\"".into(), "\"a\"".into()],
        K::List => vec!["[]".into(), "[5]".into(), "[\"5\"]".into(), "[[]]".into(), "[0, 0]".into(), "[true]".into(), "[null]".into(), format!("[{}]", vec!["0"; 70].join(", ")), "(0 .. 3)".into()],
        K::Obj => vec!["{}".into(), "{\"a\": 1}".into(), "{\"0\": 0}".into(), "{\"length\": 1, \"value\": 5}".into(), "{\"type\": \"int\"}".into()],
        K::Func => vec!["usr".into(), "anon".into(), "(fn () { return 5; })".into()],
        K::Builtin => vec!["print".into(), "\"a\"->len".into(), "5->type".into()],
    }
}

fn value_zoo(ctx: &Ctx, cases: &mut Vec<(Case, bool)>) {
    let stride = if ctx.tier == Tier::Quick { 7 } else { 1 };
    let mut n = 0usize;
    for op in ALL_OPS {
        for l in KINDS {
            for r in KINDS {
                if in_domain(op, l, r) {
                    continue;
                }
                for (ia, a) in zoo(l).iter().enumerate() {
                    for (ib, b) in zoo(r).iter().enumerate() {
                        n += 1;
                        // The first value pair of every cell always; the others strided.
                        if (ia, ib) != (0, 0) && n % stride != ctx.seed as usize % stride {
                            continue;
                        }
                        let src = format!("{PRELUDE}print(\"before\")\nprint({a} {} {b})\n", op.sym());
                        let parts = vec![op.sym().to_string(), l.type_name().to_string(), r.type_name().to_string()];
                        ctx.label("operator cell over look-alike values: type error");
                        let (mut c, nt) = err_case("operator_values", src, PRELUDE_LINES + 2, parts, format!("{} {:?} {:?} with {a} and {b}", op.sym(), l, r));
                        if let Pred::Expect(e) = &mut c.pred {
                            e.stdout = Some(b"before\n".to_vec());
                        }
                        cases.push((c, nt));
                    }
                }
            }
        }
    }
}

// `==` / `!=` reaching the pair below the top level (same rule, C10 covers
// the general case).
fn nested_eq_matrix(ctx: &Ctx, cases: &mut Vec<(Case, bool)>) {
    for op in [Op::Eq, Op::Ne] {
        for l in KINDS {
            for r in KINDS {
                for shape in 0..3 {
                    let (a, b) = (l.reps()[1], r.reps()[1]);
                    let (ea, eb) = match shape {
                        0 => (format!("[{a}]"), format!("[{b}]")),
                        1 => (format!("{{\"k\": {a}}}"), format!("{{\"k\": {b}}}")),
                        _ => (format!("[0, {{\"k\": [{a}]}}]"), format!("[0, {{\"k\": [{b}]}}]")),
                    };
                    let src = format!("{PRELUDE}print({ea} {} {eb})\n", op.sym());
                    let cell = format!("nested {} {:?} {:?} shape {shape}", op.sym(), l, r);
                    if in_domain(op, l, r) {
                        let v = value_of(op, l, a, b);
                        cases.push(ok_case("nested_eq", src, v.map(|v| format!("{v}\n")), cell));
                    } else {
                        let parts = vec![op.sym().to_string(), l.type_name().to_string(), r.type_name().to_string()];
                        cases.push(err_case("nested_eq", src, PRELUDE_LINES + 1, parts, cell));
                    }
                }
            }
        }
    }
}

// The ill-typed pair sits between containers that already took part in the
// same comparison with other partners (x1 against x2, y1 against y2, then x1
// against y2): every other pair is equal, so whatever the traversal order the
// pair must be reached and reported.
fn shared_eq_matrix(cases: &mut Vec<(Case, bool)>) {
    for op in [Op::Eq, Op::Ne] {
        for l in KINDS {
            for r in KINDS {
                let (a, b) = (l.reps()[1], r.reps()[1]);
                for shape in 0..5 {
                    let build = match shape {
                        0 => "left := [x1, y1, x1]\nright := [x2, y2, y2]\n",
                        1 => "left := {\"p\": x1, \"q\": y1, \"r\": x1}\nright := {\"p\": x2, \"q\": y2, \"r\": y2}\n",
                        2 => "left := [[x1], {\"k\": y1}, [[x1]]]\nright := [[x2], {\"k\": y2}, [[y2]]]\n",
                        3 => "left := [x1, y1, x1, y1, x1]\nright := [x2, y2, x2, y2, y2]\n",
                        _ => "both := [x1, y1]\nleft := [both, x1, y1, x1]\nright := [both, x2, y2, y2]\n",
                    };
                    let src = format!("{PRELUDE}x1 := [{a}]\nx2 := [{a}]\ny1 := [{b}]\ny2 := [{b}]\nprint(\"built\")\n{build}print(left {} right)\n", op.sym());
                    let cell = format!("shared sub-containers {} {:?} {:?} shape {shape}", op.sym(), l, r);
                    // Functions cannot be compared at all: x1 against x2
                    // already fails then.
                    let (fl, fr) = (matches!(l, K::Func | K::Builtin), matches!(r, K::Func | K::Builtin));
                    if fl || fr {
                        let t = if fl { l.type_name() } else { r.type_name() };
                        cases.push(err_case("shared_eq", src, PRELUDE_LINES + 9, vec![op.sym().to_string(), t.to_string()], cell));
                    } else if in_domain(op, l, r) {
                        let v = value_of(op, l, a, b);
                        cases.push(ok_case("shared_eq", src, v.map(|v| format!("built\n{v}\n")), cell));
                    } else {
                        let parts = vec![op.sym().to_string(), l.type_name().to_string(), r.type_name().to_string()];
                        cases.push(err_case("shared_eq", src, PRELUDE_LINES + 9, parts, cell));
                    }
                }
            }
        }
    }
}

fn op_assign_matrix(ctx: &Ctx, cases: &mut Vec<(Case, bool)>) {
    for op in sdmodel::ast::ARITH_OPS {
        for l in KINDS {
            for r in KINDS {
                for form in 0..4 {
                    let (a, b) = (l.reps()[1], r.reps()[1]);
                    let o = op.sym();
                    let body = match form {
                        0 => format!("x := {a}\nx {o}= {b}\nprint(x)\n"),
                        1 => format!("xs := [{a}]\nxs[0] {o}= {b}\nprint(xs[0])\n"),
                        2 => format!("ob := {{\"k\": {a}}}\nob.k {o}= {b}\nprint(ob.k)\n"),
                        _ => format!("ob := {{\"k\": {a}}}\nob[\"k\"] {o}= {b}\nprint(ob[\"k\"])\n"),
                    };
                    let src = format!("{PRELUDE}{body}");
                    let cell = format!("{o}= form {form} {:?} {:?}", l, r);
                    if in_domain(op, l, r) {
                        let v = value_of(op, l, a, b);
                        cases.push(ok_case("op_assign", src, v.map(|v| format!("{v}\n")), cell));
                    } else {
                        let parts = vec![o.to_string(), l.type_name().to_string(), r.type_name().to_string()];
                        cases.push(err_case("op_assign", src, PRELUDE_LINES + 3, parts, cell));
                    }
                }
            }
        }
    }
}

// (name, template with `@` for the value, kinds accepted, expected stdout when accepted or None = not checked)
fn contexts() -> Vec<(&'static str, &'static str, Vec<K>, Option<&'static str>)> {
    vec![
        ("if condition", "if @ {\n    print(1)\n}\nprint(2)\n", vec![K::Bool], None),
        ("else-if condition", "if false {\n    print(1)\n} else if @ {\n    print(3)\n}\nprint(2)\n", vec![K::Bool], None),
        ("while condition", "n := 0\nwhile @ {\n    n += 1\n    if n > 1 {\n        break\n    }\n}\nprint(n)\n", vec![K::Bool], None),
        ("while condition on a later pass", "fl := [true, @]\ni := 0\nwhile fl[i] {\n    i += 1\n    if i > 1 {\n        break\n    }\n}\nprint(i)\n", vec![K::Bool], None),
        ("while condition after continue", "fl := [true, @]\ni := 0\nwhile fl[i] {\n    i += 1\n    if i > 1 {\n        break\n    }\n    continue\n}\nprint(i)\n", vec![K::Bool], None),
        ("if condition on a later iteration", "for [i, c] in [true, @] {\n    if c {\n        print(i)\n    }\n}\n", vec![K::Bool], None),
        ("list index", "print([7, 8, 9, 1, 2, 3][@])\n", vec![K::Int], None),
        ("string index", "print(\"abcdef\"[@])\n", vec![K::Int], None),
        ("object index", "print({\"\": 1, \"ab\": 2}[@])\n", vec![K::Str], None),
        ("list index assignment", "xs := [7, 8, 9, 1, 2, 3]\nxs[@] = 0\nprint(xs[0])\n", vec![K::Int], None),
        ("object index assignment", "ob := {}\nob[@] = 1\nprint(1)\n", vec![K::Str], None),
        ("range-index start", "print([7, 8, 9, 1, 2, 3][@:6])\n", vec![K::Int], None),
        ("range-index end", "print(\"abcdef\"[0:@])\n", vec![K::Int], None),
        ("range-index assignment start", "xs := [7, 8, 9, 1, 2, 3]\nxs[@:6] = \"a\"\nprint(1)\n", vec![K::Int], None),
        ("range-index assignment end", "xs := [7, 8, 9, 1, 2, 3]\nxs[4:@] = \"a\"\nprint(1)\n", vec![K::Int], None),
        ("range start", "print(@ .. 6)\n", vec![K::Int], None),
        ("range end", "print(4 .. @)\n", vec![K::Int], None),
        ("computed property name", "print({@: 1})\n", vec![K::Str], None),
        ("interpolation slot", "print($\"<${@}>\")\n", vec![K::Str], None),
        ("spread in list", "print([1, @..])\n", vec![K::List], None),
        ("spread in arguments", "fn take(..r) {\n    print(r)\n}\ntake(@..)\n", vec![K::List], None),
        ("spread in object", "print({\"z\": 0, @..})\n", vec![K::Obj], None),
        ("list pattern source", "[..rest] := @\nprint(rest)\n", vec![K::List], None),
        ("object pattern source", "{..rest} := @\nprint(rest)\n", vec![K::Obj], None),
        ("list pattern assignment source", "rest := 0\n[..rest] = @\nprint(rest)\n", vec![K::List], None),
        ("parameter pattern source", "fn take([..r]) {\n    print(r)\n}\ntake(@)\n", vec![K::List], None),
        ("for iterable", "for kv in @ {\n    print(kv)\n}\nprint(0)\n", vec![K::Str, K::List, K::Obj], None),
        ("for target pattern source", "for [k, {..rest}] in [@] {\n    print(rest)\n}\n", vec![K::Obj], None),
        ("callee", "v := @\nv()\nprint(0)\n", vec![K::Func], None),
        ("property access", "v := @\nprint(v.a)\n", vec![], None),
        ("property assignment", "v := @\nv.zz = 1\nprint(1)\n", vec![K::Obj], None),
        ("range-index source", "v := @\nprint(v[0:0])\n", vec![K::Str, K::List], None),
        ("index source", "v := @\nw := v[0]\nprint(1)\n", vec![], None),
        ("range assignment target", "v := @\nv[0:1] = [5]\nprint(1)\n", vec![], None),
        ("range assignment value", "xs := [7, 8, 9, 1, 2, 3]\nxs[0:2] = @\nprint(1)\n", vec![], None),
    ]
}

fn context_matrix(ctx: &Ctx, cases: &mut Vec<(Case, bool)>) {
    for (name, tmpl, accepted, _) in contexts() {
        for k in KINDS {
            for rep in 0..2 {
                let v = k.reps()[rep];
                let src = format!("{PRELUDE}{}", tmpl.replace('@', v));
                let lines = PRELUDE_LINES + tmpl.matches('\n').count() as u32;
                let cell = format!("{name} <- {:?}", k);
                // Cells whose outcome depends on the value, not the kind,
                // are decided per representative below.
                let accept = match name {
                    "property access" => k == K::Obj && rep == 1,
                    "index source" => (k == K::Str && rep == 1) || (k == K::List && rep == 1),
                    "range assignment target" => k == K::List && rep == 1,
                    "range assignment value" => false,
                    "list index" | "string index" | "list index assignment" => k == K::Int,
                    "callee" => k == K::Func,
                    "object index" => k == K::Str,
                    _ => accepted.contains(&k),
                };
                if name == "range assignment value" {
                    // Only a list / string of exactly two elements fits.
                    if k == K::Str && rep == 1 {
                        cases.push(ok_case("context", src, Some("1\n".into()), cell));
                    } else {
                        cases.push(err_case("context", src, lines, vec![], cell));
                    }
                    continue;
                }
                if name == "callee" && k == K::Builtin {
                    // Builtins are callable; whether zero arguments suit them
                    // depends on the builtin. Never a crash.
                    cases.push((Case{property: "C16".into(), kind: "context".into(), srcs: vec![src.into_bytes()], pred: Pred::Expect(Expect::nocrash()), note: cell}, true));
                    continue;
                }
                if name.starts_with("range-index assignment") && k == K::Int {
                    // The right-hand side must have the length of the range.
                    let (src, ok) = match (name, rep) {
                        ("range-index assignment start", 0) => (format!("{PRELUDE}xs := [7, 8, 9, 1, 2, 3]\nxs[0:6] = \"abcdef\"\nprint(1)\n"), true),
                        ("range-index assignment start", _) => (format!("{PRELUDE}xs := [7, 8, 9, 1, 2, 3]\nxs[5:6] = \"a\"\nprint(1)\n"), true),
                        (_, 0) => (format!("{PRELUDE}xs := [7, 8, 9, 1, 2, 3]\nxs[0:0] = \"\"\nprint(1)\n"), false),
                        _ => (format!("{PRELUDE}xs := [7, 8, 9, 1, 2, 3]\nxs[4:5] = \"a\"\nprint(1)\n"), true),
                    };
                    if ok {
                        cases.push(ok_case("context", src, Some("1\n".into()), cell));
                    } else {
                        cases.push(err_case("context", src, lines, vec![], cell));
                    }
                    continue;
                }
                if accept {
                    ctx.label("context cell: accepted");
                    cases.push(ok_case("context", src, None, cell));
                } else {
                    ctx.label("context cell: type error");
                    // `got '<T>'` in the message, when present, must name the
                    // offending value's type.
                    let (c, _) = err_case("context", src, lines, vec![], cell);
                    let mut c = c;
                    c.pred = match c.pred {
                        Pred::Expect(mut e) => {
                            e.diag.push(DiagPred::MsgContains(vec![]));
                            Pred::Expect(e)
                        },
                        p => p,
                    };
                    // Only where the substituted value itself is what the
                    // context type-checks.
                    let direct = !matches!(name, "index source" | "property access" | "range assignment target" | "range-index source" | "property assignment" | "callee");
                    if direct {
                        c.note = format!("{} |got:{}", c.note, k.type_name());
                    }
                    cases.push((c, true));
                }
            }
        }
    }
}

fn type_function_matrix(ctx: &Ctx, cases: &mut Vec<(Case, bool)>) {
    for k in KINDS {
        for rep in 0..2 {
            let v = k.reps()[rep];
            let cell = format!("->type() on {:?}", k);
            let src = format!("{PRELUDE}v := {v}\nprint(v->type())\n");
            if k == K::Null {
                cases.push(err_case("type_function", src, PRELUDE_LINES + 2, vec![], cell));
            } else {
                cases.push(ok_case("type_function", src, Some(format!("{}\n", k.type_name())), cell));
            }
            let src = format!("{PRELUDE}v := {v}\nprint(v->missing())\n");
            cases.push(err_case("type_function", src, PRELUDE_LINES + 2, vec![], format!("->missing() on {:?}", k)));
            let src = format!("{PRELUDE}v := {v}\nprint(v->len())\n");
            if k == K::Str {
                let n = if rep == 0 { 0 } else { 2 };
                cases.push(ok_case("type_function", src, Some(format!("{n}\n")), format!("->len() on {:?}", k)));
            } else {
                cases.push(err_case("type_function", src, PRELUDE_LINES + 2, vec![], format!("->len() on {:?}", k)));
            }
            let src = format!("{PRELUDE}v := {v}\nprint(v->type(1))\n");
            cases.push(err_case("type_function", src, PRELUDE_LINES + 2, vec![], format!("->type(1) on {:?}", k)));
        }
    }
}

// `got '<T>'` check: evaluated as a custom predicate on top of Expect.
pub fn got_type_ok(stderr: &str, want: &str) -> Result<(), String> {
    if let Some(i) = stderr.find("got '") {
        let rest = &stderr[i + 5..];
        if let Some(j) = rest.find('\'') {
            let got = &rest[..j];
            if got != want {
                return Err(format!("diagnostic says got '{got}' but the offending value is a '{want}'"));
            }
        }
    }
    Ok(())
}

// `->type()` is defined for every value except null - also when the bound
// type function travels before it is called (returned, kept in a list, passed,
// spread, captured ...). Oracle: the reference run.
fn routed_type_functions(ctx: &Ctx) -> Vec<(Case, bool)> {
    let pre = format!("{PRELUDE}s := \"héllo\"\nxs := [1, 2]\nob0 := {{\"a\": 1}}\n");
    let callables = ["5->type", "true->type", "s->type", "s->len", "\"\"->len", "xs->type", "ob0->type", "usr->type", "anon->type", "print->type", "(1 .. 3)->type", "xs[0]->type", "ob0.a->type", "nul->type"];
    let mut srcs = vec![];
    for b in callables {
        for (route, body) in crate::props::common::callable_routes(b) {
            // Through an object the access path decides the receiver (C14).
            if route.starts_with("object") { continue; }
            srcs.push((format!("{pre}{body}"), format!("`{b}` called after: {route}")));
        }
    }
    crate::props::common::source_cases(ctx, "C16", "routed_type_function", "type function called after it travelled", srcs)
}

pub fn run(ctx: &Ctx) {
    ctx.set_rule("the full matrix: 15 binary operators x 8 x 8 ordered kinds (plain form), 5 arithmetic operators x 64 x 4 op-assign target forms, 35 typed contexts x 8 kinds x 2 representatives, every out-of-domain operator cell again over 2..12 look-alike values per kind (numeric strings, empty / one-element / 70-element containers, 0 / 1 / large integers; quick: one pair per cell plus a seventh of the rest), type functions x kinds, and 14 bound type functions x 16 routes before the call (variable, list, argument, return, closure, spread, rest parameter, pattern, for, slice, range assignment, capture) against the reference run; `==` / `!=` x 8 x 8 kinds with the ill-typed pair between sub-containers that already met other partners in the same comparison (5 sharing shapes, every other pair equal); oracle: the table in the property statement (in domain => value checked; otherwise exit 103 naming operator and both operand types in order with the names ->type() uses). Every cell is non-trivial; distinct = distinct cells");
    ctx.replay_corpus(None);
    let mut cases = vec![];
    operator_matrix(ctx, &mut cases);
    op_assign_matrix(ctx, &mut cases);
    nested_eq_matrix(ctx, &mut cases);
    shared_eq_matrix(&mut cases);
    value_zoo(ctx, &mut cases);
    context_matrix(ctx, &mut cases);
    type_function_matrix(ctx, &mut cases);
    cases.extend(routed_type_functions(ctx));
    ctx.mark_exhaustive("operator x kind x kind matrix, op-assign matrix, context x kind matrix");
    // The `got '<T>'` clause needs the stderr text: judged here.
    use rayon::prelude::*;
    cases.par_iter().for_each(|(c, nt)| {
        if ctx.stopped() {
            return;
        }
        if !ctx.judge(c, *nt, Via::Cli, None) {
            return;
        }
        if let Some(i) = c.note.find(" |got:") {
            let want = &c.note[i + 6..];
            let o = crate::backend::run_cli(&c.srcs[0]);
            if let Err(m) = got_type_ok(&o.err_s(), want) {
                ctx.record(c.clone(), m);
            }
        }
    });
}
