// C20 — names must be declared once per scope before use; `_` never binds.
// Exhaustive event sequences over two names with block structure, `_` in
// every target position, every non-bindable expression kind in every binding
// position; oracle: reference interpreter (outcome, stdout, undefined-name
// position, cited earlier declaration).

use std::collections::HashSet;
use std::sync::Mutex;

use rayon::prelude::*;

use sdmodel::ast::*;
use sdmodel::interp;
use sdmodel::interp::EKind;
use sdmodel::print;

use crate::engine::*;
use crate::pred::*;
use crate::props::common::*;

const SCOPE_VARIANTS: [&str; 3] = ["assign_declares", "declare_assigns_outer", "no_block_scope"];
const N_EVENTS: usize = 20;

fn pv(e: Expr) -> Stmt { sdmodel::ast::print(e) }

enum Open { Block, For, Func(String), If }

fn build(digits: &[usize]) -> (Prog, Vec<&'static str>) {
    // A stack of open bodies; closing pops and emits the construct.
    let mut stack: Vec<(Open, Vec<Stmt>)> = vec![];
    let mut top: Vec<Stmt> = vec![];
    let mut labels = vec![];
    let mut k = 0i64;
    let mut nf = 0;
    fn close(stack: &mut Vec<(Open, Vec<Stmt>)>, top: &mut Vec<Stmt>, k: &mut i64) {
        if let Some((o, body)) = stack.pop() {
            *k += 1;
            let stmts: Vec<Stmt> = match o {
                Open::Block => if body.is_empty() { vec![] } else { vec![block(body)] },
                Open::If => vec![if_(boolean(true), body, None)],
                Open::For => vec![for_(list(vec![var("_"), var("x")]), list(vec![int(*k * 100)]), body)],
                Open::Func(name) => vec![fn_decl(&name, vec![var("x")], false, body), expr_stmt(call(var(&name), vec![int(*k * 100)]))],
            };
            match stack.last_mut() {
                Some((_, b)) => b.extend(stmts),
                None => top.extend(stmts),
            }
        }
    }
    for d in digits {
        k += 1;
        let kk = int(k * 10);
        let (stmts, label): (Vec<Stmt>, &'static str) = match d {
            0 => (vec![declare(var("x"), kk)], "declare"),
            1 => (vec![declare(var("y"), kk)], "declare"),
            2 => (vec![assign(var("x"), kk)], "assign"),
            3 => (vec![assign(var("y"), kk)], "assign"),
            4 => (vec![op_assign(var("x"), Op::Sum, int(1))], "op-assign"),
            5 => (vec![pv(var("x"))], "read"),
            6 => (vec![pv(var("y"))], "read"),
            7 => (vec![declare(list(vec![var("x"), var("y")]), list(vec![kk, int(k * 10 + 1)]))], "list destructure declare"),
            8 => (vec![assign(list(vec![var("y"), var("x")]), list(vec![kk, int(k * 10 + 1)]))], "list destructure assign"),
            9 => (vec![declare(obj(vec![Prop::Pair(string("a"), var("x"))]), obj(vec![pair("a", kk)]))], "object destructure declare"),
            10 => (vec![fn_decl("x", vec![], false, vec![ret(kk)])], "fn declare"),
            11 => { stack.push((Open::Block, vec![])); (vec![], "block enter") },
            12 => { close(&mut stack, &mut top, &mut k); (vec![], "block exit") },
            13 => { stack.push((Open::For, vec![])); (vec![], "for target") },
            14 => { nf += 1; stack.push((Open::Func(format!("fun{nf}")), vec![])); (vec![], "parameter") },
            15 => (vec![declare(var("_"), kk)], "_ declare"),
            16 => (vec![declare(list(vec![var("_"), var("_"), var("y")]), list(vec![kk, int(1), int(2)]))], "_ twice in a pattern"),
            17 => (vec![pv(var("_"))], "read _"),
            18 => { stack.push((Open::If, vec![])); (vec![], "if enter") },
            _ => (vec![declare(obj(vec![Prop::Single{e: var("y"), spread: false, collect: false}, Prop::Single{e: var("_"), spread: false, collect: true}]), obj(vec![pair("y", kk), pair("q", int(1))]))], "object collect into _"),
        };
        labels.push(label);
        match stack.last_mut() {
            Some((_, b)) => b.extend(stmts),
            None => top.extend(stmts),
        }
    }
    while !stack.is_empty() {
        close(&mut stack, &mut top, &mut k);
    }
    top.push(pv(string("end")));
    (Prog::new(top), labels)
}

// Expect with the C20-specific diagnostics: undefined names are reported at
// the name; a redeclaration cites the earlier declaration's position.
fn c20_expect(printed: &print::Printed, rr: &interp::RunResult) -> Option<Expect> {
    let mut e = ref_expect(printed, rr, DiagLevel::Position)?;
    if let Some(err) = rr.err() {
        if let EKind::AlreadyDeclared{prev, prev_is_op, ..} = &err.kind {
            let p = if *prev_is_op { printed.op[*prev as usize] } else { printed.first[*prev as usize] };
            if let Some(p) = p {
                e.diag.push(DiagPred::MsgContains(vec![format!("{}:{}", p.line, p.col)]));
            }
        }
    }
    Some(e)
}

fn enumerate(ctx: &Ctx, len: usize, sample_every: u64) {
    let base = N_EVENTS as u64;
    let total = base.pow(len as u32);
    let seen: Mutex<HashSet<u64>> = Mutex::new(HashSet::new());
    (0..total).into_par_iter().for_each(|code| {
        if ctx.stopped() {
            return;
        }
        if sample_every > 1 && (code.wrapping_mul(0x9E3779B97F4A7C15) >> 20) % sample_every != ctx.seed % sample_every {
            return;
        }
        let mut digits = vec![];
        let mut c = code;
        for _ in 0..len {
            digits.push((c % base) as usize);
            c /= base;
        }
        let (prog, labels) = build(&digits);
        let printed = print::print_canonical(&prog);
        if !seen.lock().unwrap().insert(fnv(printed.src.as_bytes())) {
            return;
        }
        let rr = interp::run(&prog);
        let expect = match c20_expect(&printed, &rr) {
            Some(e) => e,
            None => { ctx.exclude("reference discards"); return; },
        };
        for l in &labels {
            ctx.label(&format!("event: {l}"));
        }
        label_outcome(ctx, &rr);
        let nd = count_variants(ctx, &prog, &rr, &SCOPE_VARIANTS);
        let interesting = labels.iter().any(|l| l.contains('_') || l.contains("enter") || l.contains("target") || l.contains("parameter"));
        let redecl = matches!(rr.err().map(|e| &e.kind), Some(EKind::AlreadyDeclared{..}) | Some(EKind::Undefined{..}));
        let case = Case{property: "C20".into(), kind: "events".into(), srcs: vec![printed.src.into_bytes()], pred: Pred::Expect(expect), note: format!("events {digits:?}")};
        let via = if code % 8 == 0 { Via::Cli } else { Via::Fast };
        ctx.judge(&case, nd > 0 || interesting || redecl, via, None);
    });
}

fn non_bindable(ctx: &Ctx) -> Vec<(Case, bool)> {
    let kinds: Vec<(&str, Expr, bool)> = vec![
        ("null", null(), false), ("boolean literal", boolean(true), false), ("integer literal", int(1), false), ("negative literal", int(-1), false),
        ("string literal", string("s"), false),
        ("interpolated string", ex(EK::Interp(vec![StrPart::Text(vec![('a', Spell::Raw)])])), false),
        ("binary operation", bin(Op::Sum, var("v"), int(1)), false), ("comparison", bin(Op::Eq, var("v"), var("v")), false),
        ("range", range(int(0), int(2)), false), ("anonymous function", func(vec![], false, vec![]), false),
        ("call", call(var("mk"), vec![]), false), ("type property", tprop(var("v"), "type"), false), ("call of a method", call(prop(var("ob"), "m"), vec![]), false),
        // Bindable forms for contrast.
        ("variable", var("v"), true), ("element", index(var("xs"), int(0)), true), ("property", prop(var("ob"), "k"), true),
        ("range target", range_index(var("xs"), Some(int(0)), Some(int(1))), true), ("list pattern", list(vec![var("v")]), true),
        ("object pattern", obj(vec![Prop::Pair(string("k"), var("v"))]), true), ("underscore", var("_"), true),
    ];
    let setup = || vec![
        declare(var("v"), int(0)), declare(var("xs"), list(vec![int(1), int(2)])),
        declare(var("ob"), obj(vec![pair("k", int(1)), pair("m", func(vec![], false, vec![ret(int(1))]))])),
        fn_decl("mk", vec![], false, vec![ret(list(vec![int(0)]))]),
        pv(string("before")),
    ];
    let mut out = vec![];
    for (kname, e, _bindable) in &kinds {
        // A value that fits every bindable shape: a one-element list whose
        // element is an object with key k... chosen per position below.
        let positions: Vec<(&str, Vec<Stmt>)> = vec![
            ("declaration", vec![declare(e.clone(), list(vec![int(5)]))]),
            ("assignment", vec![assign(e.clone(), list(vec![int(5)]))]),
            ("assignment of an object", vec![assign(e.clone(), obj(vec![pair("k", int(5))]))]),
            ("op-assignment", vec![op_assign(e.clone(), Op::Sum, int(1))]),
            ("for target", vec![for_(e.clone(), list(vec![int(5)]), vec![pv(string("body"))])]),
            ("parameter", vec![expr_stmt(call(func(vec![e.clone()], false, vec![pv(string("body"))]), vec![list(vec![int(5)])]))]),
            ("named parameter", vec![fn_decl("g", vec![e.clone()], false, vec![pv(string("body"))]), expr_stmt(call(var("g"), vec![list(vec![int(5)])]))]),
            ("inside a list pattern", vec![assign(list(vec![e.clone()]), list(vec![list(vec![int(5)])]))]),
            ("inside an object pattern", vec![assign(obj(vec![Prop::Pair(string("k"), e.clone())]), obj(vec![pair("k", list(vec![int(5)]))]))]),
            ("declared inside a list pattern", vec![declare(list(vec![e.clone(), var("fresh")]), list(vec![list(vec![int(5)]), int(6)]))]),
        ];
        for (pname, body) in positions {
            let mut stmts = setup();
            stmts.extend(body);
            stmts.push(pv(var("v")));
            stmts.push(pv(var("xs")));
            stmts.push(pv(prop(var("ob"), "k")));
            let prog = Prog::new(stmts);
            let rr = interp::run(&prog);
            let printed = print::print_canonical(&prog);
            if let Some(ex) = ref_expect(&printed, &rr, DiagLevel::Shape) {
                ctx.label(&format!("binding position: {pname}"));
                ctx.label(if rr.is_ok() { "target accepted" } else { "target rejected" });
                out.push((Case{property: "C20".into(), kind: "bind_target".into(), srcs: vec![printed.src.into_bytes()], pred: Pred::Expect(ex), note: format!("{kname} as {pname} target")}, true));
            } else {
                ctx.exclude("reference discards (undocumented target form)");
            }
        }
    }
    out
}

fn catalogue() -> Vec<(Case, bool)> {
    let ok: Vec<(&str, &str)> = vec![
        ("_ := 1\n_ := 2\n[_, _] := [3, 4]\nfor _ in [1, 2] {\n    _ := 5\n}\nfn f(_, _) {\n    return 1\n}\nprint(f(1, 2))\n{\"a\": _, .._} := {\"a\": 1, \"b\": 2}\n{\"a\": _, .._} := {\"a\": 1, \"b\": 2}\n_ = 3\n_ += 1\nprint(\"ok\")\n", "1\nok\n"),
        ("fn _() {\n    return 1\n}\nfn _() {\n    return 2\n}\nprint(\"ok\")\n", "ok\n"),
        ("x := 1\n{\n    x := 2\n    {\n        x := 3\n        print(x)\n    }\n    print(x)\n}\nprint(x)\n", "3\n2\n1\n"),
        ("x := 1\nfn f(x) {\n    return x\n}\nfor [x, y] in [5] {\n    print(x)\n}\nprint(f(2))\nprint(x)\n", "0\n2\n1\n"),
        ("x := 1\nif true {\n    fn x() {\n        return 2\n    }\n    print(x())\n}\nprint(x)\ni := 0\nwhile i < 2 {\n    i += 1\n    fn helper() {\n        return i\n    }\n    print(helper())\n}\n", "2\n1\n1\n2\n"),
        ("{\n    fn inner() {\n        return 1\n    }\n}\nfn inner() {\n    return 2\n}\nprint(inner())\n", "2\n"),
        // `_` any number of times at any depth of any pattern.
        ("fn add_values([_, x], [_, y]) {\n    return x + y\n}\nprint(add_values([0, 1], [0, 2]))\nfn pick({\"a\": _, \"b\": [_, _, z]}, _, [_, [_, _]]) {\n    return z\n}\nprint(pick({\"a\": 1, \"b\": [1, 2, 3]}, 0, [0, [0, 0]]))\ng := fn ([_, p], {\"k\": _}, [_, q]) {\n    return p + q\n}\nprint(g([0, 5], {\"k\": 0}, [0, 6]))\n", "3\n3\n11\n"),
        ("[[_, a], [_, b], _] := [[0, 1], [0, 2], 0]\nprint(a + b)\nfor [_, [_, [_, c]]] in [[0, [0, 7]]] {\n    print(c)\n}\n{\"x\": [_, _], \"y\": {\"z\": _}, .._} := {\"x\": [1, 2], \"y\": {\"z\": 3}, \"w\": 4}\n[[_, _], [_, a]] = [[1, 2], [3, 4]]\nprint(a)\n", "3\n7\n4\n"),
        // `=` through a pattern updates the nearest declared variables, the
        // collected rest included.
        ("rest := 0\nfirst := 0\n{\n    {\"a\": first, ..rest} = {\"a\": 1, \"b\": 2}\n    [first, ..rest] = [first, 5, 6]\n}\nprint(first)\nprint(rest)\n", "1\n[\n    5,\n    6,\n]\n"),
    ];
    let mut ok: Vec<(String, String)> = ok.into_iter().map(|(a, b)| (a.to_string(), b.to_string())).collect();
    {
        // Thirty declarations in one scope, each readable; inner scopes may
        // reuse all of them.
        let mut src = String::new();
        let mut sum = 0;
        for k in 0..30 {
            src.push_str(&format!("name_{k:02} := {k}\n"));
            sum += k;
        }
        src.push_str("{\n");
        for k in 0..30 {
            src.push_str(&format!("    name_{k:02} := {}\n", k * 2));
        }
        src.push_str("    print(name_17 + name_29)\n}\n");
        src.push_str(&format!("print({})\n", (0..30).map(|k| format!("name_{k:02}")).collect::<Vec<_>>().join(" + ")));
        let long = "an_identifier_that_is_quite_a_bit_longer_than_thirty_two_characters_x";
        src.push_str(&format!("{long} := 5\n{long}2 := {long} + 1\nprint({long}2)\n"));
        ok.push((src, format!("{}\n{sum}\n6\n", 17 * 2 + 29 * 2)));
    }
    let mut out: Vec<(Case, bool)> = ok.iter().map(|(s, e)| (Case{property: "C20".into(), kind: "catalogue".into(), srcs: vec![s.as_bytes().to_vec()], pred: Pred::Expect(Expect::ok(e.as_bytes().to_vec())), note: "_ never binds; inner scopes may reuse names".into()}, true)).collect();
    let errs: Vec<(String, &str, Vec<DiagPred>)> = {
        let mut many = String::new();
        for k in 0..30 {
            many.push_str(&format!("  name_{k:02} := {k}\n"));
        }
        many.push_str("name_17 := 0\n");
        let long = "an_identifier_that_is_quite_a_bit_longer_than_thirty_two_characters_x";
        let v: Vec<(String, &str, Vec<DiagPred>)> = vec![
            (many, "", vec![DiagPred::MsgContains(vec!["18:3".into()])]),
            (format!("{long} := 1\nprint({long}y)\n"), "", vec![DiagPred::Pos{line: 2, col: 7}]),
            (format!("{long} := 1\n\t{long} := 2\n"), "", vec![DiagPred::MsgContains(vec!["1:1".into()])]),
        ];
        v
    };
    let errs0: Vec<(&str, &str, Vec<DiagPred>)> = vec![
        ("print(1)\n_ := 1\nprint(_)\n", "1\n", vec![DiagPred::Pos{line: 3, col: 7}]),
        ("{a, .._} := {\"a\": 1}\nprint(_)\n", "", vec![DiagPred::Pos{line: 2, col: 7}]),
        ("fn _() {\n    return 1\n}\nprint(_())\n", "", vec![DiagPred::Pos{line: 4, col: 7}]),
        ("x := 1\n  x := 2\n", "", vec![DiagPred::MsgContains(vec!["1:1".into()])]),
        ("if true {\n    yy := 1\n    fn yy() {\n        return 1\n    }\n}\n", "", vec![DiagPred::MsgContains(vec!["2:5".into()])]),
        ("fn f(a) {\n    return 1\n}\n\tfn f() {\n    return 2\n}\n", "", vec![DiagPred::MsgContains(vec!["1:4".into()])]),
        ("[a, b] := [1, 2]\nb := 3\n", "", vec![DiagPred::MsgContains(vec!["1:5".into()])]),
        ("{\n    x := 1\n}\nprint(x)\n", "", vec![DiagPred::Pos{line: 4, col: 7}]),
        ("for q in [1] {\n}\nq = 2\n", "", vec![DiagPred::Pos{line: 3, col: 1}]),
        ("fn f(p) {\n    return p\n}\nf(1)\np += 1\n", "", vec![DiagPred::Pos{line: 5, col: 1}]),
        ("print(1)\nzz = 1\n", "1\n", vec![DiagPred::Pos{line: 2, col: 1}]),
        ("print(1)\na := 0\n{a, ..leftover} = {\"a\": 1, \"b\": 2}\nprint(leftover)\n", "1\n", vec![DiagPred::Pos{line: 3, col: 7}]),
        ("print(1)\na := 0\n[a, ..leftover] = [1, 2]\nprint(leftover)\n", "1\n", vec![DiagPred::Pos{line: 3, col: 7}]),
        ("print(1)\na := 0\n{\"a\": a, \"b\": [missing]} = {\"a\": 1, \"b\": [2]}\n", "1\n", vec![DiagPred::Pos{line: 3, col: 16}]),
    ];
    let mut errs: Vec<(String, &str, Vec<DiagPred>)> = errs.into_iter().chain(errs0.into_iter().map(|(a, b, c)| (a.to_string(), b, c))).collect();
    // The earlier declaration far to the right and far down: three-digit
    // (and four-digit) lines and columns, multi-byte text before it.
    for lines_before in [0usize, 1, 99, 127, 128, 255, 256, 300, 1023, 1024, 5000] {
        for width in [0usize, 1, 99, 127, 128, 254, 255, 256, 257, 300, 511, 512, 1000, 4100] {
            if lines_before > 300 && width > 300 && (lines_before + width) % 2 == 1 {
                continue;
            }
            let mut src = String::new();
            for k in 0..lines_before {
                src.push_str(if k % 2 == 0 { "# é\n" } else { "\n" });
            }
            // `pad := "ééé…"; count := 1` — `count` starts at column width + 11.
            let text: String = std::iter::repeat('é').take(width).collect();
            src.push_str(&format!("pad := \"{text}\"; count := 1\n"));
            let decl_line = lines_before + 1;
            let decl_col = 7 + width + 2 + 2 + 1;
            for (redecl, col2) in [("count := 2\n", 1u32), ("  fn count() {\n    return 0\n}\n", 6), ("[a, count] := [1, 2]\n", 5)] {
                let s = format!("{src}{redecl}");
                let preds = vec![DiagPred::Pos{line: decl_line as u32 + 1, col: col2}, DiagPred::MsgContains(vec![format!("{decl_line}:{decl_col}")])];
                errs.push((s, "", preds));
            }
        }
    }
    for (s, o, mut preds) in errs {
        let mut e = Expect::err(o.as_bytes().to_vec());
        preds.insert(0, DiagPred::WellFormed{max_line: s.matches('\n').count() as u32 + 1});
        let preds: Vec<DiagPred> = preds;
        e.diag = preds;
        out.push((Case{property: "C20".into(), kind: "catalogue".into(), srcs: vec![s.as_bytes().to_vec()], pred: Pred::Expect(e), note: "use before / after scope, redeclaration citing the earlier position, _ not readable".into()}, true));
    }
    out
}

// Names after a loop that was left early: what the body (or a block inside
// it) declared is gone, what the enclosing scope declared is still declared
// once. Loop kind x where the inner declaration sits x way of leaving x the
// event afterwards x where the whole thing stands.
fn after_loop_cases(ctx: &Ctx) -> Vec<(Case, bool)> {
    let loops = ["for [_, v] in [1, 2, 3] {", "i := 0\nwhile i < 3 {\n    i += 1", "for [k, v] in {\"p\": 1, \"q\": 2} {"];
    // (opening lines, closing lines) around `y := ...` and the jump
    let nests = [("", ""), ("if true {\n", "}\n"), ("{\n", "}\n"), ("if true {\n{\n", "}\n}\n"), ("for [_, w] in [0] {\n", "}\n")];
    let leaves = ["break", "continue", "print(\"turn\")"];
    let afters = ["print(y)", "y := 5\nprint(y)", "x := 6\nprint(x)", "y = 7", "print(x)", "x += 1\nprint(x)", "fn y() {\n    return 8\n}\nprint(y())", "[x, y] := [1, 2]", "{\n    print(y)\n}", "fn peek() {\n    return y\n}\nprint(peek())"];
    let hosts = [("", ""), ("fn host() {\n", "}\nhost()\n"), ("{\n", "}\n"), ("if true {\n", "}\n")];
    let mut srcs = vec![];
    for lp in loops {
        for (no, nc) in nests {
            for leave in leaves {
                // Leaving an inner `for` by break only leaves that one.
                for after in afters {
                    for (ho, hc) in hosts {
                        let src = format!("{ho}x := 1\n{lp}\n{no}y := 2\nx := 3\nprint([x, y])\n{leave}\n{nc}}}\n{after}\nprint(\"end\")\n{hc}");
                        srcs.push((src, format!("`{}` body left by `{leave}` inside `{}`; then `{}`", lp.lines().last().unwrap_or(""), no.replace('\n', " "), after.lines().next().unwrap_or(""))));
                    }
                }
            }
        }
    }
    source_cases(ctx, "C20", "after_loop", "names after a loop left by break / continue", srcs)
}

pub fn run(ctx: &Ctx) {
    ctx.set_rule("all event sequences of length <= 4 (quick: length 4 sampled 1:2; thorough: length 5 complete) over 20 events on the names x, y, _: declare, assign, op-assign, read, list / object destructure as declaration and assignment, fn declaration, block / if / for-target / parameter scopes opened and closed (nested), _ as declaration / twice in a pattern / read / object collect; 20 expression kinds (13 non-bindable, 7 bindable) x 10 binding positions; a catalogue for _ and for cited positions; oracle: reference interpreter on stdout and outcome, Undefined reported at the name, a redeclaration citing the earlier declaration's line:col; the earlier declaration at lines up to 5000 and columns up to 4100 (cited position must be exact). names after a loop left early: 3 loop kinds x 5 places of the inner declarations (body, if, block, if + block, inner for) x {break, continue, runs on} x 10 events afterwards (read / declare / assign / redeclare / fn / pattern / closure over the inner and the outer name) x 4 hosts (top level, function, block, if), reference run. Non-trivial = the sequence has a scope event, an underscore, ends in an undefined-name / redeclaration error, or distinguishes {assignment declares, declaration assigns outer, no block scope}; distinct = distinct source texts");
    ctx.replay_corpus(None);
    ctx.judge_all(catalogue(), Via::Cli, None);
    ctx.judge_all(non_bindable(ctx), Via::Cli, None);
    ctx.judge_all(after_loop_cases(ctx), Via::Cli, None);
    for len in 1..=3 {
        enumerate(ctx, len, 1);
    }
    ctx.mark_exhaustive("event sequences of length <= 3; expression kind x binding position matrix");
    if ctx.tier == Tier::Quick {
        enumerate(ctx, 4, 2);
    } else {
        enumerate(ctx, 4, 1);
        enumerate(ctx, 5, 1);
    }
}
