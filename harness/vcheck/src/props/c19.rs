// C19 — runs are deterministic and printing is a canonical function of the
// value. (a) the same script run repeatedly under varied working directory,
// path spelling, environment, locale, stdin and stdout must give
// byte-identical results; (b) print(v) against an independent renderer for
// values built along different construction histories.

use std::fs;
use std::path::PathBuf;

use serde_json::json;
use serde_json::Value;

use sdmodel::gen;
use sdmodel::interp;
use sdmodel::print;
use sdmodel::tape::Tape;

use crate::backend::*;
use crate::engine::*;
use crate::pred::*;
use crate::props::c10;
use crate::props::c10::V;
use crate::props::common::*;

const N_CONFIGS: usize = 8;

// Runs `src` under configuration `k`; stderr is returned with the echoed
// path replaced by `case.sd`.
fn run_config(src: &[u8], k: usize, big_env: &[(String, String)]) -> Obs {
    let dir = thread_dir().join("c19");
    let sub = dir.join("sub");
    let _ = fs::create_dir_all(&sub);
    fs::write(dir.join("case.sd"), src).expect("write case");
    let _ = fs::write(dir.join("other.sd"), b"print(\"other\")\n");
    let _ = fs::write(dir.join("case.sd.bak"), b"junk");
    let abs = dir.join("case.sd").to_string_lossy().to_string();
    let dname = dir.file_name().unwrap().to_string_lossy().to_string();
    let parent: PathBuf = dir.parent().unwrap().to_path_buf();
    let mut o = CliOpts::default();
    let arg;
    match k {
        0 => { arg = "case.sd".to_string(); o.cwd = Some(dir.clone()); },
        1 => { arg = "./case.sd".to_string(); o.cwd = Some(dir.clone()); o.env = vec![("LANG".into(), "tr_TR.UTF-8".into()), ("LC_ALL".into(), "tr_TR.UTF-8".into())]; },
        2 => { arg = abs.clone(); o.cwd = Some(dir.clone()); o.stdout_pipe = true; },
        3 => { arg = format!("{dname}/case.sd"); o.cwd = Some(parent); o.env = big_env.to_vec(); },
        4 => { arg = abs.clone(); o.cwd = Some(PathBuf::from("/")); o.stdin_closed = true; o.env = vec![("LC_ALL".into(), "C".into()), ("RUST_BACKTRACE".into(), "full".into())]; },
        5 => { arg = "../case.sd".to_string(); o.cwd = Some(sub); o.stdin_pipe = true; },
        6 => { arg = format!("./sub/../case.sd"); o.cwd = Some(dir.clone()); o.env = vec![("LANG".into(), "en_US.UTF-8".into()), ("HOME".into(), "/nonexistent".into()), ("TZ".into(), "Pacific/Kiritimati".into())]; o.stdout_pipe = true; },
        _ => { arg = "case.sd".to_string(); o.cwd = Some(dir.clone()); },
    }
    o.arg = Some(arg.clone());
    let mut obs = run_cli_at(&dir, &o);
    let e = obs.err_s().replace(&format!("{arg}:"), "case.sd:");
    obs.err = e.into_bytes();
    obs
}

pub fn custom(case: &Case, v: &Value, _via: Via) -> Verdict {
    let cfgs: Vec<usize> = v["configs"].as_array().map(|a| a.iter().filter_map(|x| x.as_u64().map(|n| n as usize)).collect()).unwrap_or_default();
    let big_env: Vec<(String, String)> = (0..150).map(|i| (format!("VAR_{i}"), format!("value {i} é {}", "x".repeat(i % 40)))).collect();
    let mut first: Option<(usize, Obs)> = None;
    for k in cfgs {
        let o = run_config(&case.srcs[0], k, &big_env);
        if o.status == Status::Timeout {
            return Verdict::Fail("no termination within the time limit".into());
        }
        if o.crashed() {
            return Verdict::Fail(format!("crash under configuration {k}: {}", o.brief()));
        }
        match &first {
            None => {
                // Generated programs: what the executed prints wrote, in
                // order, is known from the reference run - also when the run
                // ends in a reported error.
                if let Some(want) = v.get("stdout").and_then(crate::pred::bytes_from) {
                    let ok = v["ok"].as_bool().unwrap_or(true);
                    if o.out != want || o.ok() != ok {
                        return Verdict::Fail(format!("stdout is not the renderings of the executed prints: {} (expected {} bytes, {})", o.brief(), want.len(), if ok { "success" } else { "a reported error" }));
                    }
                }
                first = Some((k, o));
            },
            Some((k0, o0)) => {
                if o.out != o0.out || o.status != o0.status || o.err != o0.err {
                    return Verdict::Fail(format!("configuration {k} differs from configuration {k0}: {} vs {}", o.brief(), o0.brief()));
                }
            },
        }
    }
    Verdict::Pass
}

fn det_case(src: String, t: &mut Tape, note: &str) -> Case {
    // Base configuration twice (fresh process: new hash seeds), plus three
    // other configurations.
    let mut cfgs = vec![0, 7];
    for _ in 0..3 {
        cfgs.push(1 + t.pick(N_CONFIGS - 2));
    }
    Case{property: "C19".into(), kind: "determinism".into(), srcs: vec![src.into_bytes()], pred: Pred::Custom(json!({"configs": cfgs})), note: note.to_string()}
}

// A program comparing / printing / destructuring objects with many keys and
// several simultaneous differences, mismatches and faults.
// Failures with several equally eligible culprits (two or more names each
// repeated in a parameter list or pattern, several missing properties,
// several ill-typed entries): which one is reported must not vary from run
// to run.
fn multi_culprit_program(t: &mut Tape) -> String {
    let pool = ["red", "green", "blue", "cyan", "k", "v", "x1", "y2"];
    let n = 2 + t.pick(3);
    let mut names: Vec<&str> = vec![];
    for i in 0..n {
        names.push(pool[i]);
        names.push(pool[i]);
    }
    for _ in 0..t.pick(3) {
        names.push(pool[n + t.pick(pool.len() - n)]);
    }
    for i in (1..names.len()).rev() {
        let j = t.pick(i + 1);
        names.swap(i, j);
    }
    let vals: Vec<String> = (0..names.len()).map(|i| i.to_string()).collect();
    match t.pick(6) {
        0 => format!("print(\"start\")\nfn paint({}) {{\n    return 0\n}}\nprint(paint({}))\n", names.join(", "), vals.join(", ")),
        1 => format!("print(\"start\")\n[{}] := [{}]\n", names.join(", "), vals.join(", ")),
        2 => format!("print(\"start\")\n{{{}}} := {{}}\n", names.iter().enumerate().map(|(i, n)| format!("\"p{i}\": {n}")).collect::<Vec<_>>().join(", ")),
        3 => format!("print(\"start\")\npaint := fn ({}) {{\n    return 0\n}}\nprint(paint({}))\n", names.join(", "), vals.join(", ")),
        4 => format!("print(\"start\")\nfor [{}] in [[{}]] {{\n    print(0)\n}}\n", names.join(", "), vals.join(", ")),
        _ => format!("print(\"start\")\no := {{{}}}\n{{{}}} := o\n", names.iter().take(2).map(|n| format!("\"{n}\": 1")).collect::<Vec<_>>().join(", "), pool.iter().map(|n| format!("\"{n}\": w_{n}")).collect::<Vec<_>>().join(", ")),
    }
}

fn many_key_program(t: &mut Tape) -> String {
    let base = ["alpha", "b", "c3", "delta", "e", "foxtrot", "g", "h8", "india", "j", "kilo", "l", "mike", "n", "oscar", "p"];
    // One program in four has 33..130 keys (generated names follow the base ones).
    let n = if t.chance(1, 4) { [33usize, 64, 65, 100, 130][t.pick(5)] } else { 8 + t.pick(8) };
    let keys: Vec<String> = (0..n).map(|i| if i < base.len() { base[i].to_string() } else { format!("q{:03}_{}", (i * 37) % 1000, ["x", "yy", "é"][i % 3]) }).collect();
    let mut a = vec![];
    let mut b = vec![];
    for k in keys.iter().take(n) {
        let va = format!("{}", t.range(0, 9));
        let vb = match t.pick(6) {
            0 => format!("\"{}\"", t.range(0, 9)),
            1 => format!("{}", t.range(0, 9)),
            2 => "null".to_string(),
            3 => "[1]".to_string(),
            _ => va.clone(),
        };
        a.push(format!("\"{k}\": {va}"));
        if !t.chance(1, 10) {
            b.push(format!("\"{k}\": {vb}"));
        }
    }
    // Insertion order of `b` is shuffled.
    for i in (1..b.len()).rev() {
        let j = t.pick(i + 1);
        b.swap(i, j);
    }
    let mut s = format!("oa := {{{}}}\nob := {{{}}}\nprint(oa)\nprint(ob)\n", a.join(", "), b.join(", "));
    s.push_str("for [k, v] in ob {\n    print(k)\n}\n");
    s.push_str("{alpha, ..rest} := oa\nprint(rest)\n");
    match t.pick(5) {
        0 => s.push_str("print(oa == ob)\n"),
        1 => s.push_str("print(oa != ob)\n"),
        2 => s.push_str("print([oa, ob] == [ob, oa])\n"),
        3 => s.push_str("{alpha, b, c3, nope1, nope2} := ob\n"),
        _ => s.push_str("print({oa.., ob..})\nprint(ob == {ob..})\n"),
    }
    s
}

// Independent renderer of the documented print format over descriptions.
fn render(v: &V, depth: usize, out: &mut String) {
    let pad = |out: &mut String, d: usize| { for _ in 0..d { out.push_str("    "); } };
    match v {
        V::Null => out.push_str("<null>"),
        V::Bool(b) => out.push_str(&b.to_string()),
        V::Int(n) => out.push_str(&n.to_string()),
        V::Str(s) => out.push_str(s),
        V::List(items) => {
            out.push_str("[\n");
            for x in items {
                pad(out, depth + 1);
                render(x, depth + 1, out);
                out.push_str(",\n");
            }
            pad(out, depth);
            out.push(']');
        },
        V::Obj(m) => {
            out.push_str("{\n");
            for (k, x) in m {
                pad(out, depth + 1);
                out.push_str(&format!("\"{k}\": "));
                render(x, depth + 1, out);
                out.push_str(",\n");
            }
            pad(out, depth);
            out.push('}');
        },
        V::Func(_) | V::Builtin => out.push_str("<func>"),
    }
}

fn has_func(v: &V) -> bool {
    match v {
        V::Func(_) | V::Builtin => true,
        V::List(x) => x.iter().any(has_func),
        V::Obj(m) => m.values().any(has_func),
        _ => false,
    }
}

fn depth_of(v: &V) -> usize {
    match v {
        V::List(x) => 1 + x.iter().map(depth_of).max().unwrap_or(0),
        V::Obj(m) => 1 + m.values().map(depth_of).max().unwrap_or(0),
        _ => 0,
    }
}

fn print_checks(ctx: &Ctx) {
    let pool = c10::build_pool(true);
    let mut snippets = vec![];
    for e in pool.entries.iter().filter(|e| !has_func(&e.v)) {
        let mut exp = String::new();
        render(&e.v, 0, &mut exp);
        let nt = depth_of(&e.v) >= 2 || e.history != "literal";
        ctx.label(&format!("history: {}", e.history));
        snippets.push((format!("print({})\n", e.name), format!("{exp}\n"), nt));
        snippets.push((format!("print(print({}))\n", e.name), format!("{exp}\n<null>\n"), nt));
    }
    // One container at two different depths of one printed value, empty
    // containers nested, depth 4.
    let extra: Vec<(&str, &str)> = vec![
        ("row := [0, 1]\nprint([row, [row]])\n", "[\n    [\n        0,\n        1,\n    ],\n    [\n        [\n            0,\n            1,\n        ],\n    ],\n]\n"),
        ("c := {\"k\": [1]}\nprint({\"a\": c, \"b\": {\"a\": c}, \"c\": [[c]]})\n", "{\n    \"a\": {\n        \"k\": [\n            1,\n        ],\n    },\n    \"b\": {\n        \"a\": {\n            \"k\": [\n                1,\n            ],\n        },\n    },\n    \"c\": [\n        [\n            {\n                \"k\": [\n                    1,\n                ],\n            },\n        ],\n    ],\n}\n"),
        ("e := []\nprint([e, [e, {}], {\"z\": e, \"a\": {}}])\n", "[\n    [\n    ],\n    [\n        [\n        ],\n        {\n        },\n    ],\n    {\n        \"a\": {\n        },\n        \"z\": [\n        ],\n    },\n]\n"),
        ("s := \"two\\nlines\"\nprint(s)\nprint([s])\n", "two\nlines\n[\n    two\n    lines,\n]\n"),
        ("o := {\"two\\nlines\": 2, \"a\": [\"x\\ny\"]}\nprint(o)\nprint([o])\nprint({\"k\": [o]})\n", "{\n    \"a\": [\n        x\n        y,\n    ],\n    \"two\nlines\": 2,\n}\n[\n    {\n        \"a\": [\n            x\n            y,\n        ],\n        \"two\n    lines\": 2,\n    },\n]\n{\n    \"k\": [\n        {\n            \"a\": [\n                x\n                y,\n            ],\n            \"two\n        lines\": 2,\n        },\n    ],\n}\n"),
        ("print([[[[1]]]])\n", "[\n    [\n        [\n            [\n                1,\n            ],\n        ],\n    ],\n]\n"),
        ("x := [1]\ny := x\nprint([x, y, x])\nx[0] = 2\nprint([y, [x]])\n", "[\n    [\n        1,\n    ],\n    [\n        1,\n    ],\n    [\n        1,\n    ],\n]\n[\n    [\n        2,\n    ],\n    [\n        [\n            2,\n        ],\n    ],\n]\n"),
        ("print(-0)\nprint(007)\nprint(true)\nprint(null)\nprint(\"\")\n", "0\n7\ntrue\n<null>\n\n"),
    ];
    let mut cases = vec![];
    // Large containers (renderings of 0.3 .. 8 KiB) shared at several depths
    // of one printed value, against the renderer and against a value built
    // from separate copies.
    let ob = |v: Vec<(&str, V)>| -> V { V::Obj(v.into_iter().map(|(k, x)| (k.to_string(), x)).collect()) };
    for n in [20i64, 90, 150, 600] {
        for records in [false, true] {
            let (build, big): (String, V) = if records {
                (format!("rws := []\nfor [_, i] in 0 .. {n} {{\n    rws += [{{\"id\": i, \"tag\": \"r\"}}]\n}}\n"), V::List((0..n).map(|i| ob(vec![("id", V::Int(i)), ("tag", V::Str("r".to_string()))])).collect()))
            } else {
                (format!("rws := 0 .. {n}\n"), V::List((0..n).map(V::Int).collect()))
            };
            let shapes: Vec<(&str, V)> = vec![
                ("[rws, [[rws]], {\"k\": rws}]", V::List(vec![big.clone(), V::List(vec![V::List(vec![big.clone()])]), ob(vec![("k", big.clone())])])),
                ("{\"index\": {\"by_id\": {\"all\": rws}}, \"rows\": rws}", ob(vec![("index", ob(vec![("by_id", ob(vec![("all", big.clone())]))])), ("rows", big.clone())])),
                ("[[[[rws]]], rws, [rws]]", V::List(vec![V::List(vec![V::List(vec![V::List(vec![big.clone()])])]), big.clone(), V::List(vec![big.clone()])])),
            ];
            for (expr, v) in shapes {
                let mut exp = String::new();
                render(&v, 0, &mut exp);
                let copied = expr.replace("rws", "rws[:]");
                let src = format!("{build}print({expr})\nprint({copied})\nprint({expr})\n");
                ctx.label("print of a large container shared at several depths");
                cases.push((Case{property: "C19".into(), kind: "print".into(), srcs: vec![src.into_bytes()], pred: Pred::Expect(Expect::ok(format!("{exp}\n{exp}\n{exp}\n").into_bytes())), note: format!("{n} {} shared at several depths, then as separate copies", if records { "records" } else { "ints" })}, true));
            }
        }
    }
    for (src, exp) in extra {
        cases.push((Case{property: "C19".into(), kind: "print".into(), srcs: vec![src.as_bytes().to_vec()], pred: Pred::Expect(Expect::ok(exp.as_bytes().to_vec())), note: "print of shared / empty / deep values".into()}, true));
    }
    ctx.judge_all(cases, Via::Cli, None);
    // Batched: one process per 60 prints, sharing the pool set-up.
    use rayon::prelude::*;
    let chunks: Vec<&[(String, String, bool)]> = snippets.chunks(60).collect();
    chunks.par_iter().for_each(|chunk| {
        let mut src = pool.setup.clone();
        let mut exp = String::new();
        for (b, e, _) in chunk.iter() {
            src.push_str(b);
            exp.push_str(e);
        }
        let o = run_cli(src.as_bytes());
        if o.ok() && o.out_s() == exp && o.err.is_empty() {
            for (b, e, nt) in chunk.iter() {
                let c = Case{property: "C19".into(), kind: "print".into(), srcs: vec![b.clone().into_bytes()], pred: Pred::Expect(Expect::ok(e.clone().into_bytes())), note: String::new()};
                ctx.count(&c, *nt);
            }
        } else {
            for (b, e, nt) in chunk.iter() {
                let c = Case{property: "C19".into(), kind: "print".into(), srcs: vec![format!("{}{b}", pool.setup).into_bytes()], pred: Pred::Expect(Expect::ok(e.clone().into_bytes())), note: "print(v) against the independent renderer".into()};
                ctx.judge(&c, *nt, Via::Cli, None);
            }
        }
    });
}

// Every print that was executed is on stdout, in order, however control left
// the constructs before it and however the run ends: loop kind x way of
// leaving the loop x what follows (success, or one of several reported
// errors at top level, in a function, in a later loop).
fn executed_print_cases(ctx: &Ctx) -> Vec<(Case, bool)> {
    let loops = [
        ("for [_, v] in [1, 2, 3] {", "v"), ("for [_, v] in \"abc\" {", "v"), ("for [k, v] in {\"p\": 1, \"q\": 2} {", "k"),
        ("i := 0\n    while i < 3 {\n        i += 1", "i"),
    ];
    let leaves = ["return 7", "break", "continue", "print(\"turn\")", "if true {\n            {\n                return [8]\n            }\n        }"];
    let endings = [
        "print(\"end\")\n", "print(nope)\n", "print(1 + \"a\")\n", "print(1 / 0)\n", "fn bad() {\n    print(\"in bad\")\n    return [1][3]\n}\nprint(bad())\n",
        "for [_, w] in [1, 2] {\n    print(w)\n    print({\"k\": w}.missing)\n}\n", "x := 9223372036854775807\nprint(x)\nx += 1\n",
    ];
    let mut srcs = vec![];
    for (head, var) in loops {
        for leave in leaves {
            for ending in endings {
                for twice in [false, true] {
                    let call = if twice { "print(search())\nprint(search())\n" } else { "print(search())\n" };
                    let src = format!("fn search() {{\n    {head}\n        print({var})\n        {leave}\n    }}\n    print(\"after the loop\")\n    return 0\n}}\n{call}print(\"after the search\")\nprint([1, [2, {{\"k\": \"v\"}}]])\n{ending}");
                    srcs.push((src, format!("`{head}` left by `{leave}`, then `{}`", ending.lines().next().unwrap_or(""))));
                }
            }
        }
    }
    source_cases(ctx, "C19", "executed_prints", "every executed print reaches stdout, whatever came before and however the run ends", srcs)
}

pub fn run(ctx: &Ctx) {
    ctx.set_rule("(a) generated programs (tape decoder, plus programs over objects with 8..16 keys built in shuffled insertion order with several simultaneous differences / type mismatches / missing keys, collect patterns and multi-fault destructuring) each run 5 times: twice in the base configuration (fresh hash seeds) and under 3 of 6 other configurations (cwd = script dir / parent / root / sub-directory, path relative / ./ / absolute / via .., environment empty / 150 variables / LANG, LC_ALL in {C, en_US, tr_TR} / RUST_BACKTRACE, stdin /dev/null / closed / pipe, stdout file / pipe, neighbouring files): stdout, status and stderr (echoed path normalised) must be byte-identical, and for the tape-decoded programs stdout must be exactly what the executed prints render to according to the reference run, whether the run ends normally or in a reported error; (b) print(v) and print(print(v)) for every function-free value of the C10 pool (construction histories: literal, incremental insertion orders, spread / slice / concatenation / collected copies, aliases, shared children) and for values with one container at two depths, against an independent renderer; objects of up to 130 keys; programs failing with several equally eligible culprits; containers rendering to 0.3..8 KiB shared at several depths of one printed value. (c) 4 loop kinds x 5 ways of leaving the loop x 7 endings (success and six reported errors at top level, in a function, in a later loop) x one or two calls: every executed print is on stdout, in order, against the reference run. Non-trivial = (a) every case (5 runs), (b) depth >= 2 or a non-literal history; distinct = distinct programs");
    ctx.replay_corpus(Some(&custom));
    print_checks(ctx);
    ctx.judge_all(executed_print_cases(ctx), Via::Cli, None);
    let n = ctx.n(5_000, 60_000);
    let cfg = gen::GenCfg::balanced();
    let big = gen::GenCfg::big();
    ctx.proptest_tapes("determinism", n, 700, Via::Cli, Some(&custom), |t| {
        let src = if t.chance(1, 6) {
            ctx.label("program failing with several eligible culprits");
            multi_culprit_program(t)
        } else if t.chance(1, 2) {
            ctx.label("many-key object program");
            many_key_program(t)
        } else {
            let which = if t.chance(1, 5) { ctx.label("big profile"); &big } else { &cfg };
            let prog = gen::gen_prog(t, which);
            let rr = interp::run(&prog);
            if rr.is_discard() {
                return None;
            }
            label_outcome(ctx, &rr);
            let src = print::print_prog(&prog, &print::Style::wild(8), Some(t)).src;
            let mut case = det_case(src, t, "five runs under varied configurations; stdout = the renderings of the executed prints (reference run)");
            if let Pred::Custom(v) = &mut case.pred {
                v["stdout"] = crate::pred::bytes_json(&rr.out);
                v["ok"] = json!(rr.is_ok());
                ctx.label("stdout compared with the reference run");
            }
            return Some((case, true));
        };
        Some((det_case(src, t, "five runs under varied configurations"), true))
    });
}
