// C08 — expressions group by fixed operator tiers, left to right; parentheses
// override. Oracle: the real parser's tree (in-process) against the tree that
// was written, and against the grouping computed from the documented tier
// table; plus a value-level cross-check through the binary.

use sdmodel::ast::*;
use sdmodel::dbgtree;
use sdmodel::interp;
use sdmodel::print;
use sdmodel::tape::Tape;

use crate::backend::worker_available;
use crate::engine::*;
use crate::pred::*;

// Binary operator tokens incl. `..`, with their documented tier.
const BINOPS: [(&str, u8); 16] = [
    ("+", 3), ("-", 3), ("*", 4), ("/", 4), ("%", 4), ("&&", 2), ("||", 2), ("==", 4), ("!=", 4),
    (">", 4), (">=", 4), ("<", 4), ("<=", 4), ("===", 4), ("!==", 4), ("..", 1),
];

fn op_of(sym: &str) -> Option<Op> { ALL_OPS.iter().copied().find(|o| o.sym() == sym) }

fn mk(sym: &str, l: Expr, r: Expr) -> Expr {
    match op_of(sym) {
        Some(op) => bin(op, l, r),
        None => range(l, r),
    }
}

// Grouping of a flat operand/operator sequence by the documented rule:
// higher tiers bind tighter, equal tiers group left to right.
fn group(operands: &[Expr], ops: &[(&str, u8)]) -> Expr {
    // Shunting-yard with all operators left-associative.
    let mut out: Vec<Expr> = vec![operands[0].clone()];
    let mut stack: Vec<(&str, u8)> = vec![];
    for (i, op) in ops.iter().enumerate() {
        while let Some(top) = stack.last() {
            if top.1 >= op.1 {
                let (sym, _) = stack.pop().unwrap();
                let r = out.pop().unwrap();
                let l = out.pop().unwrap();
                out.push(mk(sym, l, r));
            } else {
                break;
            }
        }
        stack.push(*op);
        out.push(operands[i + 1].clone());
    }
    while let Some((sym, _)) = stack.pop() {
        let r = out.pop().unwrap();
        let l = out.pop().unwrap();
        out.push(mk(sym, l, r));
    }
    out.pop().unwrap()
}

fn operand_shapes() -> Vec<(&'static str, Expr)> {
    vec![
        ("a", var("a")),
        ("f(x)", call(var("f"), vec![var("x")])),
        ("xs[0]", index(var("xs"), int(0))),
        ("xs[1:2]", range_index(var("xs"), Some(int(1)), Some(int(2)))),
        ("o.k", prop(var("o"), "k")),
        ("v->type", tprop(var("v"), "type")),
        ("-1", int(-1)),
        ("7", int(7)),
        ("o.k(1)[2]", index(call(prop(var("o"), "k"), vec![int(1)]), int(2))),
    ]
}

fn expected_tree(e: &Expr) -> String {
    let prog = Prog::new(vec![expr_stmt(e.clone())]);
    let img = dbgtree::Image{printed: None, n_ids: prog.n_ids as usize}.prog(&prog);
    dbgtree::fmt_d(&img)
}

fn tree_case(kind: &str, src: String, e: &Expr, note: String) -> Case {
    Case{property: "C08".into(), kind: kind.into(), srcs: vec![src.into_bytes()], pred: Pred::Tree{expected: expected_tree(e), strip: true}, note}
}

fn sequences(ctx: &Ctx, len: usize) -> Vec<(Case, bool)> {
    let shapes = operand_shapes();
    let mut cases = vec![];
    let n = BINOPS.len();
    let total = n.pow(len as u32);
    for code in 0..total {
        let mut ops = vec![];
        let mut c = code;
        for _ in 0..len {
            ops.push(BINOPS[c % n]);
            c /= n;
        }
        // Operand shapes rotate with the code so that every shape meets every
        // operator on both sides.
        let mut operands = vec![];
        let mut texts = vec![];
        for k in 0..=len {
            let (t, e) = &shapes[(code / 7 + k * 3 + code) % shapes.len()];
            operands.push(e.clone());
            texts.push(*t);
        }
        let mut src = String::new();
        for k in 0..=len {
            if k > 0 {
                src.push_str(&format!(" {} ", ops[k - 1].0));
            }
            src.push_str(texts[k]);
        }
        src.push('\n');
        let e = group(&operands, &ops);
        let tiers: std::collections::BTreeSet<u8> = ops.iter().map(|o| o.1).collect();
        let nt = len >= 2 && (tiers.len() >= 2 || ops.windows(2).any(|w| w[0].0 != w[1].0));
        for o in &ops {
            ctx.label(&format!("operator {}", o.0));
        }
        cases.push((tree_case("sequence", src, &e, format!("flat sequence of {len} operators")), nt));
    }
    cases
}

// A random expression over every syntactic form (untyped: only parsed).
fn random_expr(t: &mut Tape, d: usize) -> Expr {
    let atoms = ["a", "b", "xs", "o", "f", "v"];
    if d == 0 || t.chance(1, 6) {
        return match t.pick(7) {
            0 => int(t.range(-3, 9)),
            1 => null(),
            2 => boolean(t.chance(1, 2)),
            3 => string(["", "s", "two words"][t.pick(3)]),
            _ => var(atoms[t.pick(atoms.len())]),
        };
    }
    let mut e = match t.weighted(&[10, 2, 2, 2, 2, 2, 2, 1, 1, 1]) {
        0 => {
            let (sym, _) = BINOPS[t.pick(BINOPS.len())];
            let l = random_expr(t, d - 1);
            let r = random_expr(t, d - 1);
            mk(sym, l, r)
        },
        1 => call(random_expr(t, d - 1), (0..t.pick(3)).map(|_| random_expr(t, d - 1)).collect()),
        2 => index(random_expr(t, d - 1), random_expr(t, d - 1)),
        3 => {
            let s = random_expr(t, d - 1);
            let a = if t.chance(1, 2) { Some(random_expr(t, d - 1)) } else { None };
            let b = if t.chance(1, 2) { Some(random_expr(t, d - 1)) } else { None };
            range_index(s, a, b)
        },
        4 => prop(random_expr(t, d - 1), ["k", "name", "x1"][t.pick(3)]),
        5 => tprop(random_expr(t, d - 1), ["type", "len"][t.pick(2)]),
        6 => {
            let n = t.pick(4);
            let items: Vec<Item> = (0..n).map(|_| Item{e: random_expr(t, d - 1), spread: t.chance(1, 5)}).collect();
            list_items(items, false)
        },
        7 => {
            let n = t.pick(3);
            let mut props = vec![];
            for _ in 0..n {
                if t.chance(1, 4) {
                    props.push(Prop::Single{e: var(atoms[t.pick(atoms.len())]), spread: t.chance(1, 2), collect: false});
                } else {
                    props.push(Prop::Pair(random_expr(t, d - 1), random_expr(t, d - 1)));
                }
            }
            obj(props)
        },
        8 => func(vec![var("p")], false, vec![ret(random_expr(t, d - 1))]),
        _ => {
            let w = ["t", "é ", ""][t.pick(3)];
            let mut slot = random_expr(t, d.min(2) - 1);
            sdmodel::gen::strip_braces_from_strings(&mut slot);
            ex(EK::Interp(vec![StrPart::Text(w.chars().map(|c| (c, Spell::Raw)).collect()), StrPart::Slot(Box::new(slot))]))
        },
    };
    if t.chance(1, 5) {
        e.parens = 1 + t.pick(2) as u8;
    }
    e
}

fn strip_parens(e: &mut Expr) {
    e.parens = 0;
    match &mut e.k {
        EK::Bin(_, l, r) | EK::Range(l, r) | EK::Index(l, r) => { strip_parens(l); strip_parens(r); },
        EK::List(items, _) => for it in items { strip_parens(&mut it.e); },
        EK::Obj(props) => for p in props {
            match p {
                Prop::Pair(k, v) => { strip_parens(k); strip_parens(v); },
                Prop::Single{e, ..} => strip_parens(e),
            }
        },
        EK::RangeIndex(s, a, b) => {
            strip_parens(s);
            if let Some(a) = a { strip_parens(a); }
            if let Some(b) = b { strip_parens(b); }
        },
        EK::Prop(s, _, _) => strip_parens(s),
        EK::Call(f, args) => { strip_parens(f); for a in args { strip_parens(&mut a.e); } },
        EK::Func(_, _, body) => for s in body {
            if let SK::Return(e) = &mut s.k { strip_parens(e); }
        },
        // The text of a slot is part of the string literal: left as written.
        EK::Interp(_) => {},
        _ => {},
    }
}

fn fully_parenthesise(e: &mut Expr) {
    // One explicit layer around every binary / range / postfix sub-expression.
    match &mut e.k {
        EK::Bin(_, l, r) | EK::Range(l, r) => { fully_parenthesise(l); fully_parenthesise(r); e.parens = e.parens.max(1); },
        EK::Index(l, r) => { fully_parenthesise(l); fully_parenthesise(r); },
        EK::Call(f, args) => { fully_parenthesise(f); for a in args { fully_parenthesise(&mut a.e); } },
        EK::Prop(s, _, _) => fully_parenthesise(s),
        EK::List(items, _) => for it in items { fully_parenthesise(&mut it.e); },
        _ => {},
    }
}

fn count_ops(e: &Expr) -> usize {
    match &e.k {
        EK::Bin(_, l, r) | EK::Range(l, r) => 1 + count_ops(l) + count_ops(r),
        EK::Index(l, r) => count_ops(l) + count_ops(r),
        EK::Call(f, args) => count_ops(f) + args.iter().map(|a| count_ops(&a.e)).sum::<usize>(),
        EK::Prop(s, _, _) => count_ops(s),
        EK::List(items, _) => items.iter().map(|a| count_ops(&a.e)).sum(),
        _ => 0,
    }
}

// Long flat chains (left-associated by the rule) and deeply parenthesised
// operands, compared as trees.
fn long_cases() -> Vec<(Case, bool)> {
    let mut out = vec![];
    for n in [17usize, 33, 64] {
        for (k, ops) in [vec!["+"], vec!["-"], vec!["*"], vec!["&&", "||"], vec!["+", "*", "-", "/"], vec!["==", "<", "+"], vec!["..", "+"]].into_iter().enumerate() {
            let mut operands = vec![];
            let mut chosen = vec![];
            let mut src = String::new();
            for j in 0..n {
                let name = format!("v{j}");
                if j > 0 {
                    let sym = ops[(j + k) % ops.len()];
                    chosen.push(BINOPS.iter().copied().find(|o| o.0 == sym).unwrap());
                    src.push_str(&format!(" {sym} "));
                }
                src.push_str(&name);
                operands.push(var(&name));
            }
            src.push('\n');
            let e = group(&operands, &chosen);
            out.push((tree_case("long_chain", src, &e, format!("flat chain of {n} operands")), true));
        }
        // ((((a + 1) + 2) ...)) and a + (1 + (2 + ...)) written with explicit parentheses.
        let mut left = var("a");
        let mut src_l = String::from("a");
        for j in 0..n {
            left = bin(Op::Sub, left, int(j as i64));
            src_l = format!("({src_l} - {j})");
        }
        out.push((tree_case("deep_parens", format!("{src_l}\n"), &left, format!("{n} nested parenthesised left operands")), true));
        let mut right = var("z");
        let mut src_r = String::from("z");
        for j in 0..n {
            right = bin(Op::Sub, int(j as i64), right);
            src_r = format!("({j} - {src_r})");
        }
        out.push((tree_case("deep_parens", format!("{src_r}\n"), &right, format!("{n} nested parenthesised right operands")), true));
    }
    out
}

// Grouping is also what gets evaluated: flat chains of 3..64 operands of one
// tier, with values, against the left fold computed here and against the
// same chain with every left group parenthesised.
fn evaluated_chains(ctx: &Ctx) -> Vec<(Case, bool)> {
    let mut out = vec![];
    let mut t = sdmodel::tape::tape_from_seed(ctx.sub_seed("evaluated_chains", 0), 200_000);
    let rounds = ctx.n(300, 2_000);
    for n in [3usize, 5, 9, 16, 17, 18, 24, 32, 33, 40, 64] {
        for _ in 0..rounds {
            // Logical tier.
            let vals: Vec<bool> = (0..n).map(|_| t.chance(1, 2)).collect();
            let ops: Vec<bool> = (0..n - 1).map(|_| t.chance(1, 2)).collect(); // true = &&
            let mut acc = vals[0];
            let mut flat = vals[0].to_string();
            let mut grouped = vals[0].to_string();
            for k in 1..n {
                let sym = if ops[k - 1] { "&&" } else { "||" };
                acc = if ops[k - 1] { acc && vals[k] } else { acc || vals[k] };
                flat = format!("{flat} {sym} {}", vals[k]);
                grouped = format!("({grouped} {sym} {})", vals[k]);
            }
            let pre = "fn id(v) {\n    return v\n}\n";
            // Literals, and the same through variables / calls.
            let as_vars: String = vals.iter().enumerate().map(|(k, v)| format!("b{k} := {v}\n")).collect();
            let mut flat_vars = "b0".to_string();
            for k in 1..n {
                flat_vars = format!("{flat_vars} {} {}", if ops[k - 1] { "&&" } else { "||" }, if k % 5 == 0 { format!("id(b{k})") } else { format!("b{k}") });
            }
            ctx.label("evaluated chain: logical tier");
            out.push((Case{property: "C08".into(), kind: "evaluated_chain".into(), srcs: vec![format!("{pre}{as_vars}print({flat})\nprint({flat_vars})\nprint({grouped})\n").into_bytes()], pred: Pred::Expect(Expect::ok(format!("{acc}\n{acc}\n{acc}\n").into_bytes())), note: format!("{n} operands of && / ||: value of the left fold")}, n > 4));
            // Additive tier over small ints (no overflow possible).
            let ivals: Vec<i64> = (0..n).map(|_| t.range(0, 99)).collect();
            let iops: Vec<bool> = (0..n - 1).map(|_| t.chance(1, 2)).collect(); // true = +
            let mut iacc = ivals[0];
            let mut iflat = ivals[0].to_string();
            for k in 1..n {
                iacc = if iops[k - 1] { iacc + ivals[k] } else { iacc - ivals[k] };
                iflat = format!("{iflat} {} {}", if iops[k - 1] { "+" } else { "-" }, ivals[k]);
            }
            ctx.label("evaluated chain: additive tier");
            out.push((Case{property: "C08".into(), kind: "evaluated_chain".into(), srcs: vec![format!("print({iflat})\n").into_bytes()], pred: Pred::Expect(Expect::ok(format!("{iacc}\n").into_bytes())), note: format!("{n} operands of + / -: value of the left fold")}, n > 4));
            // Multiplicative tier with comparisons: ((a * b) % c) == d ... as
            // a metamorphic pair (flat vs fully grouped), whatever the outcome.
            let mops = ["*", "/", "%", "*", "%"];
            let mut mflat = format!("{}", 1 + t.range(0, 9));
            let mut mgrouped = mflat.clone();
            for k in 1..n.min(24) {
                let sym = mops[t.pick(mops.len())];
                let v = 1 + t.range(0, 9);
                mflat = format!("{mflat} {sym} {v}");
                mgrouped = format!("({mgrouped} {sym} {v})");
                let _ = k;
            }
            ctx.label("evaluated chain: multiplicative tier");
            out.push((Case{property: "C08".into(), kind: "evaluated_chain".into(), srcs: vec![format!("print({mflat})\n").into_bytes(), format!("print({mgrouped})\n").into_bytes()], pred: Pred::Same{same_msg: true, positions: None}, note: format!("{} operands of * / %: flat vs every left group parenthesised", n.min(24))}, n > 4));
        }
    }
    out
}

// Parentheses override grouping in what is evaluated too: random binary trees
// over `+` and `-` with operands near the 64-bit limits, written with exactly
// the parentheses the tree needs; the value (or the overflow) computed here
// step by step in the order of the tree.
fn parenthesised_sums(ctx: &Ctx) -> Vec<(Case, bool)> {
    enum T { Leaf(i64), Node(bool, Box<T>, Box<T>) }
    fn build(t: &mut sdmodel::tape::Tape, n: usize) -> T {
        if n == 1 {
            let v = match t.pick(5) {
                0 => i64::MAX - t.range(0, 40),
                1 => -(i64::MAX - t.range(0, 40)),
                2 => t.range(-50, 50),
                3 => (1i64 << 62) + t.range(-5, 5),
                _ => t.range(0, 20),
            };
            return T::Leaf(v);
        }
        let l = 1 + t.pick(n - 1);
        T::Node(t.chance(1, 2), Box::new(build(t, l)), Box::new(build(t, n - l)))
    }
    fn eval(x: &T) -> Option<i64> {
        match x {
            T::Leaf(v) => Some(*v),
            T::Node(plus, l, r) => { let (a, b) = (eval(l)?, eval(r)?); if *plus { a.checked_add(b) } else { a.checked_sub(b) } },
        }
    }
    // Left operands need no parentheses (same tier groups left to right);
    // a right operand that is itself a node does. Literals go through
    // variables so that `- -5` never arises.
    fn show(x: &T, names: &mut Vec<(String, i64)>, right: bool) -> String {
        match x {
            T::Leaf(v) => { let n = format!("v{}", names.len()); names.push((n.clone(), *v)); n },
            T::Node(plus, l, r) => {
                let s = format!("{} {} {}", show(l, names, false), if *plus { "+" } else { "-" }, show(r, names, true));
                if right { format!("({s})") } else { s }
            },
        }
    }
    let mut out = vec![];
    let mut t = sdmodel::tape::tape_from_seed(ctx.sub_seed("parenthesised_sums", 0), 400_000);
    for _ in 0..ctx.n(1_500, 60_000) {
        let n = 2 + t.pick(7);
        let tree = build(&mut t, n);
        let mut names = vec![];
        let expr = show(&tree, &mut names, false);
        let decls: String = names.iter().map(|(n, v)| format!("{n} := {}\n", crate::props::common::int_src(*v))).collect();
        let src = format!("{decls}print(\"go\")\nprint({expr})\n");
        let e = match eval(&tree) {
            Some(v) => Expect::ok(format!("go\n{v}\n").into_bytes()),
            None => Expect::err(b"go\n".to_vec()),
        };
        ctx.label(if eval(&tree).is_some() { "parenthesised sum: value" } else { "parenthesised sum: overflow in some group" });
        out.push((Case{property: "C08".into(), kind: "parenthesised_sum".into(), srcs: vec![src.into_bytes()], pred: Pred::Expect(e), note: format!("{n} operands of + / - grouped by parentheses")}, expr.contains('(')));
    }
    out
}

fn minus_cases() -> Vec<(Case, bool)> {
    let a = || var("a");
    let list: Vec<(&str, Expr)> = vec![
        ("a - 1\n", bin(Op::Sub, a(), int(1))),
        ("a -1\n", bin(Op::Sub, a(), int(1))),
        ("a-1\n", bin(Op::Sub, a(), int(1))),
        ("a - -1\n", bin(Op::Sub, a(), int(-1))),
        ("a--1\n", bin(Op::Sub, a(), int(-1))),
        ("-1 - -1\n", bin(Op::Sub, int(-1), int(-1))),
        ("-1\n", int(-1)),
        ("- 1\n", int(-1)),
        ("-\n1\n", int(-1)),
        ("[-1, -2]\n", list(vec![int(-1), int(-2)])),
        ("f(-1)\n", call(var("f"), vec![int(-1)])),
        ("xs[-1]\n", index(var("xs"), int(-1))),
        ("xs[-1:-2]\n", range_index(var("xs"), Some(int(-1)), Some(int(-2)))),
        ("a * -1\n", bin(Op::Mul, a(), int(-1))),
        ("-1 * a\n", bin(Op::Mul, int(-1), a())),
        ("-1 .. -2\n", range(int(-1), int(-2))),
        ("a + -1 * -2\n", bin(Op::Sum, a(), bin(Op::Mul, int(-1), int(-2)))),
        ("-1->type\n", tprop(int(-1), "type")),
        ("a - 1 - 2\n", bin(Op::Sub, bin(Op::Sub, a(), int(1)), int(2))),
        ("(a) - (1)\n", bin(Op::Sub, a(), int(1))),
        ("((a - 1))\n", bin(Op::Sub, a(), int(1))),
        ("a - (1 - 2)\n", bin(Op::Sub, a(), bin(Op::Sub, int(1), int(2)))),
        ("a + (b + c)\n", bin(Op::Sum, a(), bin(Op::Sum, var("b"), var("c")))),
        ("a * (b * c)\n", bin(Op::Mul, a(), bin(Op::Mul, var("b"), var("c")))),
        ("a && (b && c)\n", bin(Op::And, a(), bin(Op::And, var("b"), var("c")))),
        ("a || (b || c)\n", bin(Op::Or, a(), bin(Op::Or, var("b"), var("c")))),
        ("a .. (b .. c)\n", range(a(), range(var("b"), var("c")))),
        ("a == (b == c)\n", bin(Op::Eq, a(), bin(Op::Eq, var("b"), var("c")))),
    ];
    list.into_iter().map(|(s, e)| (tree_case("minus_and_parens", s.to_string(), &e, "literal minus / parentheses".into()), true)).collect()
}

// Every operator between every kind of left operand (names, literals, calls,
// indexes, properties, parenthesised groups) and a literal / negative literal
// / name on the right, under the four spacings `a - 1`, `a -1`, `a- 1`,
// `a-1`: whether a `-` is an operator or the sign of a literal depends on
// its being in operand position, never on the spacing or on which token ends
// the left operand.
fn spacing_cases() -> Vec<(Case, bool)> {
    let mut lefts = operand_shapes();
    lefts.extend(vec![
        ("(a)", var("a")), ("(a * 2)", bin(Op::Mul, var("a"), int(2))), ("(a + 2)", bin(Op::Sum, var("a"), int(2))), ("f(x)(y)", call(call(var("f"), vec![var("x")]), vec![var("y")])),
        ("f()", call(var("f"), vec![])), ("\"s\"", string("s")), ("[1]", list(vec![int(1)])), ("[a][0]", index(list(vec![var("a")]), int(0))), ("xs[:]", range_index(var("xs"), None, None)),
        ("true", boolean(true)), ("null", null()), ("(-1)", int(-1)), ("o[\"k\"]", index(var("o"), string("k"))),
    ]);
    let rights: Vec<(&str, Expr)> = vec![("1", int(1)), ("-1", int(-1)), ("a", var("a")), ("(1)", int(1)), ("-1 - 2", int(0))];
    let mut out = vec![];
    for (ls, l) in &lefts {
        for op in ALL_OPS.iter().map(|o| o.sym()).chain([".."]) {
            for (rs, r) in &rights {
                for (before, after) in [(" ", " "), (" ", ""), ("", " "), ("", "")] {
                    let src = format!("{ls}{before}{op}{after}{rs}\n");
                    let e = if *rs == "-1 - 2" {
                        // A further `- 2` after the right operand: `L op -1 - 2`
                        // groups by the tiers.
                        let tier = |o: &str| if o == ".." { 1 } else { op_of(o).unwrap().tier() };
                        if tier(op) >= 3 { bin(Op::Sub, mk(op, l.clone(), int(-1)), int(2)) } else { mk(op, l.clone(), bin(Op::Sub, int(-1), int(2))) }
                    } else {
                        mk(op, l.clone(), r.clone())
                    };
                    out.push((tree_case("operator_spacing", src, &e, format!("`{ls}` `{op}` `{rs}` with spacing '{before}' / '{after}'")), before != after || ls.ends_with(')') || ls.ends_with(']')));
                }
            }
        }
    }
    out
}

// Value-level cross-check through the binary: integer / boolean operands
// chosen so that different groupings give different results.
fn value_check(ctx: &Ctx, n: u64) {
    let via = Via::Cli;
    ctx.proptest_tapes("values", n, 60, via, None, |t| {
        let k = 2 + t.pick(3);
        let int_ops = ["+", "-", "*", "/", "%"];
        let mut operands = vec![];
        let mut ops = vec![];
        let primes = [2i64, 3, 5, 7, 11, 13];
        for j in 0..=k {
            operands.push(int(primes[(t.pick(6) + j) % 6] * if t.chance(1, 4) { -1 } else { 1 }));
        }
        let with_cmp = t.chance(1, 3);
        for j in 0..k {
            if with_cmp && j == k - 1 {
                let sym = ["<", "==", ">="][t.pick(3)];
                ops.push(BINOPS.iter().copied().find(|o| o.0 == sym).unwrap());
            } else {
                let sym = int_ops[t.pick(5)];
                ops.push(BINOPS.iter().copied().find(|o| o.0 == sym).unwrap());
            }
        }
        let e = group(&operands, &ops);
        let mut src = String::from("print(");
        for j in 0..=k {
            if j > 0 {
                src.push_str(&format!(" {} ", ops[j - 1].0));
            }
            if let EK::Int{v, ..} = &operands[j].k {
                src.push_str(&v.to_string());
            }
        }
        src.push_str(")\n");
        let prog = Prog::new(vec![sdmodel::ast::print(e)]);
        let rr = interp::run(&prog);
        let expect = match &rr.outcome {
            interp::Outcome::Ok => Expect::ok(rr.out.clone()),
            interp::Outcome::Err(_) => Expect::err(rr.out.clone()),
            interp::Outcome::Discard(_) => return None,
        };
        ctx.label("value-level cross-check");
        Some((Case{property: "C08".into(), kind: "value".into(), srcs: vec![src.into_bytes()], pred: Pred::Expect(expect), note: "value of a flat operator sequence".into()}, true))
    });
}

pub fn run(ctx: &Ctx) {
    ctx.set_rule("(a) every sequence of 1..3 (thorough: 4) binary operators over all 16 (incl. `..`) with operand shapes rotating over names, calls, index, range-index, .name, ->name and negative literals: parsed tree == grouping computed from the tier table; (b) random deep expression trees over every syntactic form printed with minimal, full and random redundant parentheses in random layouts: parsed tree == written tree; (c) literal-minus and parenthesis-override catalogue; (d) value-level cross-check of flat integer sequences through the binary against the reference; flat chains of 17..64 operands and 64 nested parentheses as trees; evaluated chains of 3..64 operands per tier against the left fold / the fully parenthesised chain; every operator between 22 kinds of left operand (names, literals, calls, indexes, properties, parenthesised groups) and {1, -1, a, (1), -1 - 2} under the four spacings `a - 1` / `a -1` / `a- 1` / `a-1` as trees. Non-trivial = >= 2 operators with two different tiers or operators; distinct = distinct source texts");
    ctx.replay_corpus(None);
    if !worker_available() {
        ctx.note("in-process back-end unavailable: tree checks skipped, only the value-level cross-check ran");
    }
    let maxlen = if ctx.tier == Tier::Quick { 3 } else { 4 };
    for len in 1..=maxlen {
        let cases = sequences(ctx, len);
        ctx.judge_all(cases, Via::Cli, None);
    }
    ctx.mark_exhaustive(&format!("all operator sequences of length 1..={maxlen} over 16 binary operators"));
    ctx.judge_all(minus_cases(), Via::Cli, None);
    let sp = spacing_cases();
    ctx.label_n("operator spacing x left operand kind", sp.len() as u64);
    ctx.judge_all(sp, Via::Cli, None);
    ctx.judge_all(long_cases(), Via::Cli, None);
    ctx.judge_all(evaluated_chains(ctx), Via::Fast, None);
    ctx.judge_all(parenthesised_sums(ctx), Via::Fast, None);
    let n = ctx.n(100_000, 2_000_000);
    ctx.proptest_tapes("trees", n, 300, Via::Cli, None, |t| {
        let dd = 2 + t.pick(6);
        let mut e = random_expr(t, dd);
        let mode = t.pick(3);
        let mut bare = e.clone();
        strip_parens(&mut bare);
        match mode {
            0 => strip_parens(&mut e),
            1 => fully_parenthesise(&mut e),
            _ => {},
        }
        ctx.label(["minimal parentheses", "full parentheses", "random redundant parentheses"][mode]);
        let prog = Prog::new(vec![expr_stmt(e)]);
        let style = if t.chance(1, 2) { print::Style::wild(15) } else { print::Style::canonical() };
        let printed = print::print_prog(&prog, &style, Some(t));
        let nt = count_ops(&bare) >= 2;
        Some((tree_case("tree", printed.src, &bare, "random expression tree".into()), nt))
    });
    value_check(ctx, ctx.n(3_000, 100_000));
}
