// C10 — `==` is a structural equivalence, `===` is identity, comparing never
// mutates. Oracle: structural comparison of value *descriptions* kept by the
// harness next to the set-up code that builds them (independent of the
// reference interpreter).

use std::collections::BTreeMap;
use std::collections::BTreeSet;

use sdmodel::tape::Tape;

use crate::backend::run_cli;
use crate::engine::*;
use crate::pred::*;
use crate::props::common::*;

#[derive(Clone, Debug, PartialEq)]
pub enum V {
    Null,
    Bool(bool),
    Int(i64),
    Str(String),
    List(Vec<V>),
    Obj(BTreeMap<String, V>),
    // User function with an identity.
    Func(u32),
    Builtin,
}

impl V {
    fn type_name(&self) -> &'static str {
        match self {
            V::Null => "null", V::Bool(_) => "bool", V::Int(_) => "int", V::Str(_) => "string",
            V::List(_) => "list", V::Obj(_) => "object", V::Func(_) | V::Builtin => "func",
        }
    }
    fn has_func(&self) -> bool {
        match self {
            V::Func(_) | V::Builtin => true,
            V::List(v) => v.iter().any(|x| x.has_func()),
            V::Obj(m) => m.values().any(|x| x.has_func()),
            _ => false,
        }
    }
    fn lit(&self) -> String {
        match self {
            V::Null => "null".into(),
            V::Bool(b) => b.to_string(),
            V::Int(n) => n.to_string(),
            V::Str(s) => format!("\"{s}\""),
            V::List(v) => format!("[{}]", v.iter().map(|x| x.lit()).collect::<Vec<_>>().join(", ")),
            V::Obj(m) => format!("{{{}}}", m.iter().map(|(k, x)| format!("\"{k}\": {}", x.lit())).collect::<Vec<_>>().join(", ")),
            V::Func(id) => format!("fun{id}"),
            V::Builtin => "print".into(),
        }
    }
    fn depth(&self) -> usize {
        match self {
            V::List(v) => 1 + v.iter().map(|x| x.depth()).max().unwrap_or(0),
            V::Obj(m) => 1 + m.values().map(|x| x.depth()).max().unwrap_or(0),
            _ => 0,
        }
    }
}

#[derive(Default, Debug)]
struct Cmp {
    // Type-name pairs of mismatching (or function) pairs at corresponding positions.
    mismatches: BTreeSet<(String, String)>,
    // An ordinary difference (scalar, length, key set) somewhere.
    difference: bool,
}

fn compare(a: &V, b: &V, c: &mut Cmp) {
    match (a, b) {
        (V::Null, V::Null) => {},
        (V::Bool(x), V::Bool(y)) => if x != y { c.difference = true; },
        (V::Int(x), V::Int(y)) => if x != y { c.difference = true; },
        (V::Str(x), V::Str(y)) => if x != y { c.difference = true; },
        (V::List(x), V::List(y)) => {
            if x.len() != y.len() {
                c.difference = true;
            }
            for (p, q) in x.iter().zip(y.iter()) {
                compare(p, q, c);
            }
        },
        (V::Obj(x), V::Obj(y)) => {
            if x.len() != y.len() || x.keys().any(|k| !y.contains_key(k)) {
                c.difference = true;
            }
            for (k, p) in x {
                if let Some(q) = y.get(k) {
                    compare(p, q, c);
                }
            }
        },
        _ => {
            c.mismatches.insert((a.type_name().to_string(), b.type_name().to_string()));
        },
    }
}

pub struct Entry {
    pub name: String,
    pub v: V,
    // Identity of the root container / function (aliases share it).
    pub ident: u32,
    pub history: &'static str,
    // The set-up involves sharing (alias, shared child, inside comparand).
    pub shared: bool,
}

pub struct Pool {
    pub setup: String,
    pub entries: Vec<Entry>,
    next_ident: u32,
}

impl Pool {
    fn new() -> Pool {
        let mut p = Pool{setup: String::new(), entries: vec![], next_ident: 100};
        for id in 0..3 {
            p.setup.push_str(&format!("fn fun{id}() {{\n    return {id}\n}}\n"));
        }
        p
    }
    fn ident(&mut self) -> u32 { self.next_ident += 1; self.next_ident }
    fn add(&mut self, code: &str, v: V, ident: u32, history: &'static str, shared: bool) -> usize {
        let name = format!("p{}", self.entries.len());
        self.setup.push_str(&code.replace('@', &name));
        self.setup.push('\n');
        self.entries.push(Entry{name, v, ident, history, shared});
        self.entries.len() - 1
    }
    fn lit(&mut self, v: V) -> usize {
        let id = match &v { V::Func(f) => *f, _ => self.ident() };
        let code = format!("@ := {}", v.lit());
        self.add(&code, v, id, "literal", false)
    }
}

fn l(v: Vec<V>) -> V { V::List(v) }
fn o(v: Vec<(&str, V)>) -> V { V::Obj(v.into_iter().map(|(k, x)| (k.to_string(), x)).collect()) }
fn i(n: i64) -> V { V::Int(n) }
fn s(x: &str) -> V { V::Str(x.to_string()) }

pub fn build_pool(thorough: bool) -> Pool {
    let mut p = Pool::new();
    let base = vec![
        V::Null, V::Bool(true), V::Bool(false), i(0), i(1), s(""), s("a"),
        l(vec![]), l(vec![i(1)]), l(vec![i(1), i(2)]), l(vec![i(1), i(3)]), l(vec![l(vec![i(1)])]), l(vec![l(vec![])]),
        l(vec![l(vec![i(1)]), i(2)]), l(vec![V::Null]), l(vec![s("a")]), l(vec![i(1), s("a")]), l(vec![i(2), s("a"), i(5)]), l(vec![i(1), i(3), i(5)]),
        o(vec![]), o(vec![("a", i(1))]), o(vec![("a", i(2))]), o(vec![("b", i(1))]), o(vec![("a", i(1)), ("b", i(2))]), o(vec![("a", i(1)), ("c", i(2))]),
        o(vec![("a", l(vec![i(1)]))]), o(vec![("a", o(vec![("b", i(1))]))]), l(vec![o(vec![("a", i(1))])]), o(vec![("a", s("x")), ("b", i(2))]),
        V::Func(0), V::Func(1), V::Builtin, l(vec![V::Func(0)]), o(vec![("a", V::Func(0))]), l(vec![i(1), V::Func(1)]), l(vec![i(2), V::Func(1)]),
        l(vec![l(vec![l(vec![i(1)])])]), o(vec![("a", o(vec![("b", l(vec![i(1), i(2)]))]))]),
    ];
    for v in base {
        p.lit(v);
    }
    // Same object built incrementally in every key order, and with `[]`.
    let target = o(vec![("a", i(1)), ("b", i(2)), ("c", l(vec![i(3)]))]);
    p.lit(target.clone());
    for order in [["a", "b", "c"], ["c", "b", "a"], ["b", "c", "a"], ["c", "a", "b"]] {
        let mut code = String::from("@ := {}");
        for k in order {
            let val = match k { "a" => "1", "b" => "2", _ => "[3]" };
            if k == "b" { code.push_str(&format!("\n@[\"{k}\"] = {val}")); } else { code.push_str(&format!("\n@.{k} = {val}")); }
        }
        let id = p.ident();
        p.add(&code, target.clone(), id, "incremental insertion order", false);
    }
    // Copies of one list by every building operation, and an alias.
    let xs = l(vec![i(1), l(vec![i(2)])]);
    let x0 = p.lit(xs.clone());
    let x0n = p.entries[x0].name.clone();
    let x0id = p.entries[x0].ident;
    p.add(&format!("@ := {x0n}"), xs.clone(), x0id, "alias", true);
    for (code, h) in [(format!("@ := [{x0n}..]"), "spread copy"), (format!("@ := {x0n}[:]"), "slice copy"), (format!("@ := {x0n} + []"), "concatenation copy"), (format!("@ := [1] + {x0n}[1:]"), "rebuilt from parts")] {
        let id = p.ident();
        p.add(&code, xs.clone(), id, h, true);
    }
    let ob = o(vec![("k", l(vec![i(1)])), ("z", i(0))]);
    let o0 = p.lit(ob.clone());
    let o0n = p.entries[o0].name.clone();
    let o0id = p.entries[o0].ident;
    p.add(&format!("@ := {o0n}"), ob.clone(), o0id, "alias", true);
    let id = p.ident();
    p.add(&format!("@ := {{{o0n}..}}"), ob.clone(), id, "spread copy", true);
    let id = p.ident();
    p.add(&format!("{{..@}} := {o0n}"), ob.clone(), id, "collected copy", true);
    // Shared child within one operand vs. separate children.
    let id = p.ident();
    p.add("c@ := [1]\n@ := [c@, c@]", l(vec![l(vec![i(1)]), l(vec![i(1)])]), id, "shared child twice", true);
    p.lit(l(vec![l(vec![i(1)]), l(vec![i(1)])]));
    // One child at two positions of an operand, against operands that differ
    // only opposite the second occurrence.
    let id = p.ident();
    p.add("d@ := [1]\n@ := [d@, d@, d@]", l(vec![l(vec![i(1)]), l(vec![i(1)]), l(vec![i(1)])]), id, "shared child three times", true);
    p.lit(l(vec![l(vec![i(1)]), l(vec![i(2)])]));
    p.lit(l(vec![l(vec![i(1)]), l(vec![V::Bool(true)])]));
    p.lit(l(vec![l(vec![i(1)]), l(vec![i(1)]), l(vec![i(3)])]));
    let id = p.ident();
    p.add("e@ := {\"n\": 1}\n@ := {\"a\": e@, \"b\": e@}", o(vec![("a", o(vec![("n", i(1))])), ("b", o(vec![("n", i(1))]))]), id, "shared child twice", true);
    p.lit(o(vec![("a", o(vec![("n", i(1))])), ("b", o(vec![("n", i(2))]))]));
    p.lit(o(vec![("a", o(vec![("n", i(1))])), ("b", o(vec![("n", s("x"))]))]));
    p.lit(o(vec![("a", o(vec![("n", i(1))])), ("b", o(vec![("n", i(1))]))]));
    // Values well beyond the small scope: a difference or a mismatch only at
    // the far end of long lists and many-key objects.
    let long: Vec<V> = (0..40).map(i).collect();
    let mut long2 = long.clone();
    long2[39] = i(99);
    let mut long3 = long.clone();
    long3[33] = s("x");
    p.lit(l(long.clone()));
    p.lit(l(long2));
    p.lit(l(long3));
    let id = p.ident();
    p.add("@ := 0 .. 40", l(long.clone()), id, "range of 40", false);
    let id = p.ident();
    p.add("@ := (0 .. 17) + (17 .. 40)", l(long.clone()), id, "concatenation of ranges", false);
    let keys: Vec<String> = (0..33).map(|k| format!("key{k:02}")).collect();
    let big: Vec<(&str, V)> = keys.iter().enumerate().map(|(k, n)| (n.as_str(), i(k as i64))).collect();
    p.lit(o(big.clone()));
    let mut big2 = big.clone();
    big2[32].1 = i(-1);
    p.lit(o(big2));
    let mut big3 = big.clone();
    big3[20].1 = V::Null;
    p.lit(o(big3));
    let id = p.ident();
    p.add("@ := {}\nfor [_, n] in 0 .. 33 {\n    @[\"key\" + \"0123\"[n / 10] + \"0123456789\"[n % 10]] = 32 - n\n}\nfor [k, v] in {@..} {\n    @[k] = 32 - v\n}", o(big.clone()), id, "33 keys inserted in descending value order by a loop", false);
    // The same child shared between two operands.
    p.setup.push_str("shared := [1, 2]\n");
    for _ in 0..2 {
        let id = p.ident();
        p.add("@ := [shared, 0]", l(vec![l(vec![i(1), i(2)]), i(0)]), id, "child shared between operands", true);
    }
    let id = p.ident();
    p.add("@ := {\"k\": shared}", o(vec![("k", l(vec![i(1), i(2)]))]), id, "child shared between operands", true);
    let id = p.ident();
    p.add("@ := {\"k\": shared}", o(vec![("k", l(vec![i(1), i(2)]))]), id, "child shared between operands", true);
    // A container inside its comparand (acyclic).
    let id = p.ident();
    let inner = p.add("@ := [[]]", l(vec![l(vec![])]), id, "inner of a nest", true);
    let inn = p.entries[inner].name.clone();
    let id = p.ident();
    p.add(&format!("@ := [{inn}]"), l(vec![l(vec![l(vec![])])]), id, "contains its comparand", true);
    let id = p.ident();
    p.add(&format!("@ := [[{inn}]]"), l(vec![l(vec![l(vec![l(vec![])])])]), id, "contains its comparand (deeper)", true);
    let id = p.ident();
    let oin = p.add("@ := {\"k\": {}}", o(vec![("k", o(vec![]))]), id, "inner of a nest", true);
    let oinn = p.entries[oin].name.clone();
    let id = p.ident();
    p.add(&format!("@ := {{\"k\": {oinn}}}"), o(vec![("k", o(vec![("k", o(vec![]))]))]), id, "contains its comparand", true);
    let id = p.ident();
    let inner1 = p.add("@ := [[1]]", l(vec![l(vec![i(1)])]), id, "inner of a nest", true);
    let in1 = p.entries[inner1].name.clone();
    let id = p.ident();
    p.add(&format!("@ := [{in1}]"), l(vec![l(vec![l(vec![i(1)])])]), id, "contains its comparand", true);
    // The same function inside two containers; a function alias.
    let id = p.ident();
    p.add("@ := [fun0]", l(vec![V::Func(0)]), id, "same function in another container", true);
    p.add("@ := fun0", V::Func(0), 0, "function alias", true);
    let id = p.ident();
    p.add("@ := {\"h\": [fun2], \"n\": 1}", o(vec![("h", l(vec![V::Func(2)])), ("n", i(1))]), id, "function nested in object", false);
    let id = p.ident();
    p.add("@ := {\"h\": [fun2], \"n\": 1}", o(vec![("h", l(vec![V::Func(2)])), ("n", i(1))]), id, "function nested in object", false);
    let id = p.ident();
    p.add("@ := {\"h\": [fun2], \"n\": 2}", o(vec![("h", l(vec![V::Func(2)])), ("n", i(2))]), id, "function nested in object", false);
    if thorough {
        let extra = vec![
            l(vec![i(1), i(2), i(3), i(4)]), l(vec![i(1), i(2), i(3), i(5)]), l(vec![i(0), i(2), i(3), s("x")]),
            o(vec![("a", i(1)), ("b", i(2)), ("c", i(3)), ("d", i(4))]), o(vec![("a", i(1)), ("b", i(2)), ("c", i(3)), ("e", i(4))]),
            o(vec![("a", V::Null), ("b", V::Bool(true))]), o(vec![("a", V::Null), ("b", i(1))]),
            l(vec![s(""), s("a"), s("ab")]), l(vec![s(""), s("a"), s("abc")]), l(vec![l(vec![]), o(vec![])]), l(vec![o(vec![]), l(vec![])]),
            s("é"), s("e"), s("ab"), i(-1), i(9223372036854775807),
        ];
        for v in extra {
            p.lit(v);
        }
    }
    p
}

// What `a op b` must do. Ok(bool) = exactly this boolean; Err = acceptable set.
pub enum Oracle {
    Exactly(bool),
    // An error naming one of these type pairs; `false_ok`: `false` is
    // acceptable too (an earlier difference may decide); `true_ok` only for
    // the identity carve-out.
    Error{pairs: BTreeSet<(String, String)>, false_ok: bool, true_ok: bool},
}

pub fn eq_oracle(a: &Entry, b: &Entry) -> Oracle {
    let mut c = Cmp::default();
    compare(&a.v, &b.v, &mut c);
    if c.mismatches.is_empty() {
        return Oracle::Exactly(!c.difference);
    }
    // Mismatch at the top level always errors.
    let top = !matches!((&a.v, &b.v), (V::List(_), V::List(_)) | (V::Obj(_), V::Obj(_)));
    if top {
        return Oracle::Error{pairs: c.mismatches, false_ok: false, true_ok: false};
    }
    // Identical containers holding functions: an identity short-cut may
    // answer `true` before the functions are reached.
    let same = a.ident == b.ident;
    Oracle::Error{pairs: c.mismatches, false_ok: c.difference, true_ok: same}
}

fn refeq_oracle(a: &Entry, b: &Entry) -> Option<bool> {
    match (&a.v, &b.v) {
        (V::List(_), V::List(_)) | (V::Obj(_), V::Obj(_)) | (V::Func(_), V::Func(_)) => Some(a.ident == b.ident),
        _ => None,
    }
}

fn printable(e: &Entry) -> bool { !e.v.has_func() }

fn judge_error(ctx: &Ctx, src: String, note: String, pairs: &BTreeSet<(String, String)>, op: &str, false_ok: bool, true_ok: bool, negate: bool, nt: bool) {
    let lines = src.matches('\n').count() as u32 + 1;
    let case = Case{property: "C10".into(), kind: "eq_mismatch".into(), srcs: vec![src.clone().into_bytes()], pred: Pred::Custom(serde_json::json!({
        "pairs": pairs.iter().map(|(a, b)| vec![a.clone(), b.clone()]).collect::<Vec<_>>(),
        "op": op, "false_ok": false_ok, "true_ok": true_ok, "negate": negate, "lines": lines,
    })), note};
    ctx.judge(&case, nt, Via::Cli, Some(&custom));
}

// Custom predicate: error naming one of the pairs, or an allowed boolean.
pub fn custom(case: &Case, v: &serde_json::Value, _via: Via) -> Verdict {
    let o = run_cli(&case.srcs[0]);
    if o.status == crate::backend::Status::Timeout {
        return Verdict::Fail("no termination within the time limit".into());
    }
    if o.crashed() {
        return Verdict::Fail(format!("crash: {}", o.brief()));
    }
    let op = v["op"].as_str().unwrap_or("==");
    let negate = v["negate"].as_bool().unwrap_or(false);
    let lines = v["lines"].as_u64().unwrap_or(1000) as u32;
    if o.ok() {
        let out = o.out_s();
        let last = out.lines().last().unwrap_or("");
        let allowed_false = v["false_ok"].as_bool().unwrap_or(false);
        let allowed_true = v["true_ok"].as_bool().unwrap_or(false);
        // For `!=` the boolean is the negation.
        let (f, t) = if negate { ("true", "false") } else { ("false", "true") };
        if (last == f && allowed_false) || (last == t && allowed_true) {
            return Verdict::Pass;
        }
        return Verdict::Fail(format!("comparison reached differently-typed values (or two functions) but answered {last:?} silently: {}", o.brief()));
    }
    let pairs = v["pairs"].as_array().cloned().unwrap_or_default();
    let mut last_err = String::new();
    for p in pairs {
        let parts = vec![op.to_string(), p[0].as_str().unwrap_or("").to_string(), p[1].as_str().unwrap_or("").to_string()];
        match check_diag(&o.err_s(), "case.sd", &[DiagPred::WellFormed{max_line: lines}, DiagPred::MsgContains(parts)]) {
            Ok(()) => return Verdict::Pass,
            Err(e) => last_err = e,
        }
    }
    Verdict::Fail(format!("error does not name a mismatching pair of types in operand order: {last_err}"))
}

fn pairs_check(ctx: &Ctx, pool: &Pool) {
    let n = pool.entries.len();
    let mut ok: Vec<Snippet> = vec![];
    let mut errs = vec![];
    for a in 0..n {
        for b in 0..n {
            let (ea, eb) = (&pool.entries[a], &pool.entries[b]);
            let nt = ea.shared || eb.shared || ea.history != "literal" || eb.history != "literal" || ea.v.depth() >= 2;
            for (op, negate) in [("==", false), ("!=", true)] {
                let expr = format!("{} {op} {}", ea.name, eb.name);
                match eq_oracle(ea, eb) {
                    Oracle::Exactly(v) => {
                        ctx.label("==/!=: boolean");
                        ok.push(Snippet{body: format!("print({expr})"), expect: format!("{}\n", v != negate), nontrivial: nt, note: format!("{} [{}] {op} {} [{}]", ea.v.lit(), ea.history, eb.v.lit(), eb.history)});
                    },
                    Oracle::Error{pairs, false_ok, true_ok} => {
                        ctx.label("==/!=: mismatch reachable");
                        errs.push((expr, format!("{} [{}] {op} {} [{}]", ea.v.lit(), ea.history, eb.v.lit(), eb.history), pairs, op, false_ok, true_ok, negate, true));
                    },
                }
            }
            for (op, negate) in [("===", false), ("!==", true)] {
                let expr = format!("{} {op} {}", ea.name, eb.name);
                match refeq_oracle(ea, eb) {
                    Some(v) => {
                        ctx.label("===/!==: boolean");
                        ok.push(Snippet{body: format!("print({expr})"), expect: format!("{}\n", v != negate), nontrivial: nt, note: format!("identity {} [{}] vs {} [{}]", ea.name, ea.history, eb.name, eb.history)});
                    },
                    None => {
                        ctx.label("===/!==: type error");
                        let mut pr = BTreeSet::new();
                        pr.insert((ea.v.type_name().to_string(), eb.v.type_name().to_string()));
                        errs.push((expr, format!("identity on {} and {}", ea.v.type_name(), eb.v.type_name()), pr, op, false, false, negate, false));
                    },
                }
            }
        }
    }
    // Booleans in batches that share the set-up; each batch also prints every
    // printable pool value before and after, to show nothing was mutated.
    use rayon::prelude::*;
    let dump: String = pool.entries.iter().filter(|e| printable(e)).map(|e| format!("print({})\n", e.name)).collect();
    let chunks: Vec<&[Snippet]> = ok.chunks(400).collect();
    chunks.par_iter().for_each(|chunk| {
        if ctx.stopped() {
            return;
        }
        let mut src = pool.setup.clone();
        src.push_str(&dump);
        src.push_str("print(\"----\")\n");
        for sn in chunk.iter() {
            src.push_str(&sn.body);
            src.push('\n');
        }
        src.push_str("print(\"----\")\n");
        src.push_str(&dump);
        let o = run_cli(src.as_bytes());
        let out = o.out_s();
        let parts: Vec<&str> = out.split("----\n").collect();
        let expected: String = chunk.iter().map(|s| s.expect.clone()).collect();
        if o.ok() && parts.len() == 3 && parts[1] == expected && parts[0] == parts[2] && o.err.is_empty() {
            for sn in chunk.iter() {
                let c = Case{property: "C10".into(), kind: "eq_bool".into(), srcs: vec![format!("{}{}\n", pool.setup, sn.body).into_bytes()], pred: Pred::Expect(Expect::ok(sn.expect.clone().into_bytes())), note: sn.note.clone()};
                ctx.count(&c, sn.nontrivial);
            }
            return;
        }
        if o.ok() && parts.len() == 3 && parts[1] == expected && parts[0] != parts[2] {
            let c = Case{property: "C10".into(), kind: "no_mutation".into(), srcs: vec![src.clone().into_bytes()], pred: Pred::Expect(Expect::ok(vec![])), note: "values printed differently after the comparisons".into()};
            ctx.record(c, "evaluating comparisons changed a value: the dump of all pool values differs before and after".into());
            return;
        }
        for sn in chunk.iter() {
            if ctx.stopped() {
                return;
            }
            let c = Case{property: "C10".into(), kind: "eq_bool".into(), srcs: vec![format!("{}{}\n", pool.setup, sn.body).into_bytes()], pred: Pred::Expect(Expect::ok(sn.expect.clone().into_bytes())), note: sn.note.clone()};
            ctx.judge(&c, sn.nontrivial, Via::Cli, None);
        }
    });
    errs.par_iter().for_each(|(expr, note, pairs, op, false_ok, true_ok, negate, nt)| {
        if ctx.stopped() {
            return;
        }
        judge_error(ctx, format!("{}print({expr})\n", pool.setup), note.clone(), pairs, op, *false_ok, *true_ok, *negate, *nt);
    });
}

fn triples_check(ctx: &Ctx, pool: &Pool, limit: usize) {
    // Transitivity and symmetry, evaluated by the interpreter itself, over
    // function-free values of one kind.
    let data: Vec<&Entry> = pool.entries.iter().filter(|e| !e.v.has_func() && matches!(e.v, V::List(_) | V::Obj(_))).collect();
    let mut ok = vec![];
    let mut count = 0;
    'outer: for a in &data {
        for b in &data {
            for c in &data {
                let same_kind = a.v.type_name() == b.v.type_name() && b.v.type_name() == c.v.type_name();
                if !same_kind {
                    continue;
                }
                let (ab, bc, ac, ba) = (eq_oracle(a, b), eq_oracle(b, c), eq_oracle(a, c), eq_oracle(b, a));
                if let (Oracle::Exactly(x), Oracle::Exactly(y), Oracle::Exactly(z), Oracle::Exactly(w)) = (ab, bc, ac, ba) {
                    if !(x && y) {
                        // Only triples with two equalities say something about transitivity; keep a thin sample of the rest.
                        if count % 37 != 0 {
                            count += 1;
                            continue;
                        }
                    }
                    count += 1;
                    ok.push(Snippet{
                        body: format!("print([{0} == {1}, {1} == {2}, {0} == {2}, {1} == {0}])", a.name, b.name, c.name),
                        expect: format!("[\n    {x},\n    {y},\n    {z},\n    {w},\n]\n"),
                        nontrivial: x && y, note: "transitivity / symmetry triple".into(),
                    });
                    if ok.len() >= limit {
                        break 'outer;
                    }
                }
            }
        }
    }
    ctx.label_n("triples", ok.len() as u64);
    use rayon::prelude::*;
    let chunks: Vec<&[Snippet]> = ok.chunks(300).collect();
    chunks.par_iter().for_each(|chunk| {
        let mut src = pool.setup.clone();
        for sn in chunk.iter() {
            src.push_str(&sn.body);
            src.push('\n');
        }
        let expected: String = chunk.iter().map(|s| s.expect.clone()).collect();
        let o = run_cli(src.as_bytes());
        if o.ok() && o.out_s() == expected {
            for sn in chunk.iter() {
                let c = Case{property: "C10".into(), kind: "triple".into(), srcs: vec![sn.body.clone().into_bytes()], pred: Pred::Expect(Expect::ok(vec![])), note: sn.note.clone()};
                ctx.count(&c, sn.nontrivial);
            }
        } else {
            for sn in chunk.iter() {
                let c = Case{property: "C10".into(), kind: "triple".into(), srcs: vec![format!("{}{}\n", pool.setup, sn.body).into_bytes()], pred: Pred::Expect(Expect::ok(sn.expect.clone().into_bytes())), note: sn.note.clone()};
                ctx.judge(&c, sn.nontrivial, Via::Cli, None);
            }
        }
    });
}

// Random deeper values: a value, a deep copy, and a perturbed copy.
fn random_value(t: &mut Tape, depth: usize) -> V {
    let w: &[u32] = if depth == 0 { &[1, 2, 3, 2, 0, 0] } else { &[1, 1, 2, 1, 4, 4] };
    match t.weighted(w) {
        0 => V::Null,
        1 => V::Bool(t.chance(1, 2)),
        2 => V::Int(t.range(-2, 5)),
        3 => V::Str(["", "a", "b", "é"][t.pick(4)].to_string()),
        4 => {
            let n = t.pick(4);
            V::List((0..n).map(|_| random_value(t, depth - 1)).collect())
        },
        _ => {
            let n = t.pick(4);
            let mut m = BTreeMap::new();
            for _ in 0..n {
                m.insert(["a", "b", "c", "k", "zz"][t.pick(5)].to_string(), random_value(t, depth - 1));
            }
            V::Obj(m)
        },
    }
}

fn perturb(t: &mut Tape, v: &V) -> V {
    match v {
        V::List(items) if !items.is_empty() && t.chance(3, 4) => {
            let k = t.pick(items.len());
            let mut items = items.clone();
            items[k] = perturb(t, &items[k]);
            V::List(items)
        },
        V::Obj(m) if !m.is_empty() && t.chance(3, 4) => {
            let k = m.keys().nth(t.pick(m.len())).unwrap().clone();
            let mut m = m.clone();
            let nv = perturb(t, &m[&k]);
            m.insert(k, nv);
            V::Obj(m)
        },
        V::Int(n) => V::Int(n + 1),
        V::Bool(b) => V::Bool(!b),
        V::Str(s) => V::Str(format!("{s}x")),
        V::Null => if t.chance(1, 2) { V::Int(0) } else { V::Null },
        V::List(items) => { let mut items = items.clone(); items.push(V::Null); V::List(items) },
        V::Obj(m) => { let mut m = m.clone(); m.insert("q".into(), V::Null); V::Obj(m) },
        other => other.clone(),
    }
}

fn random_check(ctx: &Ctx, n: u64) {
    let mut t = sdmodel::tape::tape_from_seed(ctx.sub_seed("random", 0), (n * 400) as usize);
    let mut ok = vec![];
    let mut errs = vec![];
    for _ in 0..n {
        let a = random_value(&mut t, 5);
        let b = if t.chance(1, 3) { a.clone() } else { perturb(&mut t, &a) };
        let ea = Entry{name: "x".into(), v: a.clone(), ident: 1, history: "random", shared: false};
        let eb = Entry{name: "y".into(), v: b.clone(), ident: 2, history: "random", shared: false};
        let setup = format!("x := {}\ny := {}\n", a.lit(), b.lit());
        for (op, negate, l, r) in [("==", false, &ea, &eb), ("!=", true, &eb, &ea)] {
            match eq_oracle(l, r) {
                Oracle::Exactly(v) => ok.push(Snippet{body: format!("{setup}print({} {op} {})", l.name, r.name), expect: format!("{}\n", v != negate), nontrivial: a.depth() >= 3, note: "random deep pair".into()}),
                Oracle::Error{pairs, false_ok, true_ok} => errs.push((format!("{setup}print({} {op} {})\n", l.name, r.name), pairs, op, false_ok, true_ok, negate)),
            }
        }
    }
    judge_snippets(ctx, "random_pair", &ok, 80);
    use rayon::prelude::*;
    errs.par_iter().for_each(|(src, pairs, op, false_ok, true_ok, negate)| {
        judge_error(ctx, src.clone(), "random deep pair with a reachable mismatch".into(), pairs, op, *false_ok, *true_ok, *negate, true);
    });
}

// Comparison results depend only on the current contents: compare, mutate
// one operand (every kind of write), compare the same pair again.
fn mutation_histories(ctx: &Ctx) {
    use sdmodel::interp;
    let setups = [
        ("a := [1, 2, 3]\nb := [1, 2, 3]\n", "list"),
        ("a := [[1, 2], 3]\nb := [[1, 2], 3]\n", "nested list"),
        ("a := {\"k\": [1, 2], \"n\": 1}\nb := {\"k\": [1, 2], \"n\": 1}\n", "object"),
    ];
    let writes: Vec<(&str, [&str; 3])> = vec![
        ("index assignment", ["b[0] = 9", "b[1] = 9", "b.n = 9"]),
        ("index assignment back", ["b[0] = 1", "b[1] = 3", "b.n = 1"]),
        ("range assignment", ["b[0:2] = [7, 8]", "b[0:1] = [5]", "b.k[0:2] = [7, 8]"]),
        ("range assignment back", ["b[0:2] = [1, 2]", "b[0:1] = [[1, 2]]", "b.k[0:2] = [1, 2]"]),
        ("nested write", ["b[2] = [3]", "b[0][1] = 9", "b.k[1] = 9"]),
        ("nested write back", ["b[2] = 3", "b[0][1] = 2", "b.k[1] = 2"]),
        ("op-assign", ["b[0] += 1", "b[1] += 1", "b.n += 1"]),
        ("op-assign back", ["b[0] -= 1", "b[1] -= 1", "b[\"n\"] -= 1"]),
        ("write to the other operand", ["a[0] = 9", "a[0][0] = 9", "a.k[0] = 9"]),
        ("range write to the other operand", ["a[1:3] = [2, 3]", "a[0][0:1] = [1]", "a.k[0:1] = [1]"]),
    ];
    let mut cases = vec![];
    let n = writes.len();
    // One comparison per step (the same pair, in the same order, with nothing
    // else compared in between) and three comparisons per step.
    for cmp in ["print(a == b)\n", "print(a != b)\n", "print(b == a)\n", "print([a == b, a != b, b == a])\n"] {
    for (si, (setup, sname)) in setups.iter().enumerate() {
        for len in 1..=3usize {
            if len == 3 && cmp.len() < 20 && cmp != "print(a == b)\n" {
                continue;
            }
            for code in 0..n.pow(len as u32) {
                let mut src = format!("{setup}{cmp}");
                let mut c = code;
                let mut names = vec![];
                for _ in 0..len {
                    let (wname, forms) = &writes[c % n];
                    c /= n;
                    src.push_str(forms[si]);
                    src.push('\n');
                    src.push_str(cmp);
                    names.push(*wname);
                }
                let prog = match crate::util::model_from_source(&src) {
                    Ok(p) => p,
                    Err(_) => { ctx.exclude("history not parseable without the in-process back-end"); continue; },
                };
                let rr = interp::run(&prog);
                if !rr.is_ok() {
                    continue;
                }
                ctx.label("compare / mutate / compare history");
                cases.push((Case{property: "C10".into(), kind: "history".into(), srcs: vec![src.into_bytes()], pred: Pred::Expect(Expect::ok(rr.out.clone())), note: format!("{sname}: {}", names.join(", "))}, true));
            }
        }
    }
    }
    ctx.judge_all(cases, Via::Fast, None);
}

// `===` is true exactly for the same container: two evaluations of anything
// that builds a container give two containers, also when both are empty.
fn fresh_identity_cases(ctx: &Ctx) -> Vec<(Case, bool)> {
    let pre = "fn rest_of(x, ..rest) {\n    return rest\n}\nfn lit() {\n    return []\n}\nfn olit() {\n    return {}\n}\nfn node(name, ..children) {\n    return {\"name\": name, \"children\": children}\n}\nsrc := [1]\nosrc := {\"a\": 1}\n";
    // (first, second): two expressions building equal containers.
    let makers = [
        ("rest_of(1)", "rest_of(2)"), ("rest_of(1, 5)", "rest_of(2, 5)"), ("lit()", "lit()"), ("olit()", "olit()"), ("[]", "[]"), ("{}", "{}"),
        ("src[1:]", "src[1:]"), ("src[:0]", "src[1:1]"), ("[] + []", "[] + []"), ("[src[1:]..]", "[src[1:]..]"), ("(0 .. 0)", "(0 .. 0)"), ("(3 .. 3)", "(0 .. 0)"),
        ("node(\"a\").children", "node(\"b\").children"), ("{osrc..}", "{osrc..}"), ("src[:]", "src[:]"), ("[src..]", "[src..]"), ("rest_of(src..)", "rest_of(src..)"),
    ];
    let mut out = vec![];
    for (a, b) in makers {
        let src = format!("{pre}p := {a}\nq := {b}\nprint([p === q, p !== q, q === p, p === p, p == q])\n");
        ctx.label("two evaluations of a building expression");
        out.push((Case{property: "C10".into(), kind: "fresh_identity".into(), srcs: vec![src.into_bytes()], pred: Pred::Expect(Expect::ok(b"[\n    false,\n    true,\n    false,\n    true,\n    true,\n]\n".to_vec())), note: format!("{a} against {b}")}, true));
    }
    // Through destructuring.
    for (decl, a, b) in [
        ("[x1, ..p] := [1]\n[x2, ..q] := [2]\n", "p", "q"), ("[..p] := []\n[..q] := []\n", "p", "q"), ("{..p} := {}\n{..q} := {}\n", "p", "q"),
        ("{a, ..p} := osrc\n{a: a2, ..q} := osrc\n".replace("a: a2", "\"a\": a2").as_str(), "p", "q"), ("[x1, ..p] := [1]\nq := rest_of(1)\n", "p", "q"),
        ("fn two(..r) {\n    [..s] := r\n    return [r, s]\n}\n[p, q] := two()\n", "p", "q"),
    ] {
        let src = format!("{pre}{decl}print([{a} === {b}, {a} !== {b}, {b} === {a}, {a} == {b}])\n");
        ctx.label("two evaluations of a building expression");
        out.push((Case{property: "C10".into(), kind: "fresh_identity".into(), srcs: vec![src.into_bytes()], pred: Pred::Expect(Expect::ok(b"[\n    false,\n    true,\n    false,\n    true,\n]\n".to_vec())), note: format!("collected rests: {}", decl.replace('\n', "; "))}, true));
    }
    out
}

// Values far deeper than the pool (chains of 100..400 containers built in a
// loop) and self-containing operands compared with finite ones.
fn deep_and_cyclic(ctx: &Ctx) {
    let mut cases = vec![];
    let helpers = "fn mk(n, leaf, j) {\n    v := leaf\n    for [i, _] in 0 .. n {\n        val := 1\n        if i == j {\n            val = 2\n        }\n        v = {\"next\": v, \"val\": val}\n    }\n    return v\n}\nfn ml(n, leaf, j) {\n    v := leaf\n    for [i, _] in 0 .. n {\n        if i == j {\n            v = [v, 2]\n        } else {\n            v = [v, 1]\n        }\n    }\n    return v\n}\n";
    for n in [100i64, 127, 128, 129, 130, 200, 255, 256, 257, 400] {
        for (mkf, shape) in [("mk", "linked objects"), ("ml", "nested lists")] {
            for j in [0, 1, n / 2, n - 1] {
                let src = format!("{helpers}a := {mkf}({n}, 0, -1)\nb := {mkf}({n}, 0, -1)\nc := {mkf}({n}, 1, -1)\nf := {mkf}({n}, 0, {j})\nprint([a == b, a != b, b == a, a === b, a == a])\nprint([a == c, a != c, c == a, c != a])\nprint([a == f, a != f, f == a, f != a])\nprint([a == b, a == c, a == f])\n");
                let want = "[\n    true,\n    false,\n    true,\n    false,\n    true,\n]\n[\n    false,\n    true,\n    false,\n    true,\n]\n[\n    false,\n    true,\n    false,\n    true,\n]\n[\n    true,\n    false,\n    false,\n]\n";
                ctx.label("deep chain");
                cases.push((Case{property: "C10".into(), kind: "deep".into(), srcs: vec![src.into_bytes()], pred: Pred::Expect(Expect::ok(want.as_bytes().to_vec())), note: format!("{shape}, {n} deep, copies differing at the leaf or at level {j}")}, true));
            }
            for (la, lb, ta, tb) in [("0", "\"s\"", "int", "string"), ("\"s\"", "0", "string", "int"), ("null", "[]", "null", "list"), ("{}", "true", "object", "bool")] {
                let src = format!("{helpers}a := {mkf}({n}, {la}, -1)\nd := {mkf}({n}, {lb}, -1)\nprint(\"before\")\nprint(a == d)\n");
                let mut e = Expect::err(b"before\n".to_vec());
                e.diag = vec![DiagPred::MsgContains(vec!["==".into(), ta.to_string(), tb.to_string()])];
                ctx.label("deep chain");
                cases.push((Case{property: "C10".into(), kind: "deep".into(), srcs: vec![src.into_bytes()], pred: Pred::Expect(e), note: format!("{shape}, {n} deep, leaves of type {ta} and {tb}")}, true));
            }
        }
    }
    // A self-containing operand against a finite one: every answer below
    // follows from lengths / key sets / the first differing scalar alone.
    let cyc: Vec<(&str, &str, &str)> = vec![
        ("x := [0, 0]\nx[0] = x\n", "x", "[[0, 0, 0], 0]"),
        ("x := [0, 0]\nx[0] = x\n", "x", "[[[0, 0, 0], 0], 0]"),
        ("x := [0, 0]\nx[0] = x\n", "x", "[[[[[0], 0], 0], 0], 0]"),
        ("x := [0, 0]\nx[1] = x\n", "x", "[0, [0, [0, [0, 0, 0]]]]"),
        ("x := [0, 0]\nx[1] = x\n", "x", "[0, [1, 0]]"),
        ("x := [0]\ny := [x]\nx[0] = y\n", "x", "[[[[[]]]]]"),
        ("x := [0]\ny := [x]\nx[0] = y\n", "y", "[[[[0, 0]]]]"),
        ("o := {\"k\": 0, \"n\": 1}\no.k = o\n", "o", "{\"k\": {\"a\": 0}, \"n\": 1}"),
        ("o := {\"k\": 0, \"n\": 1}\no.k = o\n", "o", "{\"k\": {\"k\": {\"k\": {}, \"n\": 1}, \"n\": 1}, \"n\": 1}"),
        ("o := {\"k\": 0, \"n\": 1}\no.k = o\n", "o", "{\"k\": {\"k\": {\"k\": 0, \"n\": 1, \"z\": 0}, \"n\": 1}, \"n\": 1}"),
        ("o := {\"l\": [0]}\no.l[0] = o\n", "o", "{\"l\": [{\"l\": [{\"l\": []}]}]}"),
        ("o := {\"l\": [0]}\no.l[0] = o\n", "o.l", "[{\"l\": [{\"l\": [0, 0]}]}]"),
    ];
    for (setup, l, r) in &cyc {
        let src = format!("{setup}fin := {r}\nprint([{l} == fin, {l} != fin, fin == {l}, fin != {l}])\nprint({l} == {r})\nprint({r} != {l})\n");
        let want = "[\n    false,\n    true,\n    false,\n    true,\n]\nfalse\ntrue\n";
        ctx.label("self-containing operand against a finite one");
        cases.push((Case{property: "C10".into(), kind: "cyclic_vs_finite".into(), srcs: vec![src.into_bytes()], pred: Pred::Expect(Expect::ok(want.as_bytes().to_vec())), note: format!("{l} (contains itself) against {r}")}, true));
    }
    // ... and where the finite operand runs out at a scalar: a type mismatch.
    for (setup, l, r, ta, tb) in [
        ("x := [0, 0]\nx[0] = x\n", "x", "[[0, 0], 0]", "list", "int"),
        ("x := [0, 0]\nx[0] = x\n", "x", "[[[[\"s\", 0], 0], 0], 0]", "list", "string"),
        ("o := {\"k\": 0}\no.k = o\n", "o", "{\"k\": {\"k\": {\"k\": null}}}", "object", "null"),
    ] {
        for flip in [false, true] {
            let (a, b, t1, t2) = if flip { (r, l, tb, ta) } else { (l, r, ta, tb) };
            let src = format!("{setup}print(\"before\")\nprint({a} == {b})\n");
            let mut e = Expect::err(b"before\n".to_vec());
            e.diag = vec![DiagPred::MsgContains(vec!["==".into(), t1.to_string(), t2.to_string()])];
            ctx.label("self-containing operand against a finite one");
            cases.push((Case{property: "C10".into(), kind: "cyclic_vs_finite".into(), srcs: vec![src.into_bytes()], pred: Pred::Expect(e), note: format!("{a} == {b}: the finite operand ends in a scalar")}, true));
        }
    }
    ctx.judge_all(cases, Via::Cli, None);
}

pub fn run(ctx: &Ctx) {
    ctx.set_rule("all ordered pairs of a pool of nested values (depth <= 3; literals, incremental key orders, spread / slice / concatenation / collected copies, aliases, shared children within and between operands, containers inside their comparand, functions nested) x {== != === !==}, transitivity/symmetry triples, compare / write / compare-again histories (1..3 writes of every kind: element, range, nested, op-assign, on either operand; expected values from the reference interpreter), random deeper pairs, chains 100..400 containers deep (equal copies, copies differing at one level, leaves of different types), self-containing operands against finite ones; oracle: structural comparison of the descriptions (mismatch-free => exactly the structural boolean; reachable mismatch => error naming a mismatching pair in operand order, or false when a difference may decide; never true, never a crash); values dumped before and after every batch of comparisons; two evaluations of every building expression (17 forms, 6 destructuring forms) give two containers, also when both are empty. 9 set-ups that make one value reachable by two routes (two properties, property and variable, spread copy, rows of a grid, through a call) x `slot += v` through a property / index / element, once and twice: contents and all of == != === !== against the other route and an independent copy (reference run). Non-trivial = a pair with shared sub-structure, a non-literal construction history, or depth >= 2; distinct = distinct comparison expressions");
    ctx.replay_corpus(Some(&custom));
    ctx.judge_all(crate::props::common::slot_op_assign_cases(ctx, "C10"), Via::Cli, None);
    let pool = build_pool(ctx.tier == Tier::Thorough);
    ctx.set_extra("pool_size", serde_json::json!(pool.entries.len()));
    pairs_check(ctx, &pool);
    ctx.mark_exhaustive(&format!("all ordered pairs of the {}-value pool x 4 operators", pool.entries.len()));
    mutation_histories(ctx);
    deep_and_cyclic(ctx);
    ctx.judge_all(fresh_identity_cases(ctx), Via::Cli, None);
    triples_check(ctx, &pool, ctx.n(20_000, 1_000_000) as usize);
    random_check(ctx, ctx.n(3_000, 2_000_000));
}
