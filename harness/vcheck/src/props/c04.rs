// C04 — lexical scoping; closures capture their defining scope by reference.
// (a) exhaustive programs over a scope-operation alphabet (digit strings
// decoded into nested programs), (b) random larger programs with heavy
// shadowing / closures, (c) consistent renaming is behaviour-preserving.

use std::collections::HashSet;
use std::sync::Mutex;

use rayon::prelude::*;

use sdmodel::ast::*;
use sdmodel::gen;
use sdmodel::interp;
use sdmodel::print;
use sdmodel::tape::Tape;

use crate::engine::*;
use crate::pred::*;
use crate::props::common::*;

const SCOPE_VARIANTS: [&str; 6] = ["dynamic_scope", "capture_by_value", "no_block_scope", "shared_iteration_frame", "assign_declares", "declare_assigns_outer"];

const BASE: usize = 13;

struct Dec<'a> {
    digits: &'a [u8],
    pos: usize,
    k: i64,
    fns: usize,
}

impl Dec<'_> {
    fn next(&mut self) -> Option<usize> {
        let d = self.digits.get(self.pos).copied()?;
        self.pos += 1;
        Some(d as usize)
    }
    fn fresh(&mut self) -> i64 {
        self.k += 1;
        self.k * 10
    }
    // Body of 1..=3 statements.
    fn body(&mut self, depth: usize) -> Vec<Stmt> {
        let n = 1 + self.next().unwrap_or(0) % 3;
        let mut b = vec![];
        for _ in 0..n {
            if let Some(s) = self.stmt(depth) {
                b.extend(s);
            }
        }
        if b.is_empty() {
            b.push(sdmodel::ast::print(var("x")));
        }
        b
    }
    fn stmt(&mut self, depth: usize) -> Option<Vec<Stmt>> {
        let d = self.next()?;
        let d = if depth == 0 { d % 5 } else { d % BASE };
        Some(match d {
            0 => vec![sdmodel::ast::print(var("x"))],
            1 => { let k = self.fresh(); vec![declare(var("x"), int(k))] },
            2 => { let k = self.fresh(); vec![assign(var("x"), int(k))] },
            3 => vec![op_assign(var("x"), Op::Sum, int(1))],
            4 => vec![expr_stmt(call(var("f"), vec![]))],
            5 => vec![block(self.body(depth - 1))],
            6 => vec![if_(boolean(true), self.body(depth - 1), None)],
            7 => vec![for_(var("_"), list(vec![int(1), int(2)]), self.body(depth - 1))],
            8 => vec![fn_decl("f", vec![], false, self.body(depth - 1))],
            9 => vec![assign(var("f"), func(vec![], false, self.body(depth - 1)))],
            10 => {
                // A closure made by a maker function that has its own `x`.
                let k = self.fresh();
                self.fns += 1;
                let mk = format!("mk{}", self.fns);
                vec![
                    fn_decl(&mk, vec![], false, vec![declare(var("x"), int(k)), ret(func(vec![], false, self.body(depth - 1)))]),
                    assign(var("f"), call(var(&mk), vec![])),
                ]
            },
            11 => {
                // Self-recursive function with fuel: re-enters its own scope.
                self.fns += 1;
                let r = format!("rec{}", self.fns);
                let mut b = self.body(depth - 1);
                b.push(if_(bin(Op::Gt, var("n"), int(0)), vec![expr_stmt(call(var(&r), vec![bin(Op::Sub, var("n"), int(1))]))], None));
                vec![fn_decl(&r, vec![var("n")], false, b), expr_stmt(call(var(&r), vec![int(1)]))]
            },
            _ => {
                // A parameter named like the variable.
                let k = self.fresh();
                vec![expr_stmt(call(func(vec![var("x")], false, self.body(depth - 1)), vec![int(k)]))]
            },
        })
    }
}

// `wrapped`: `x` is declared globally and the decoded statements run inside
// a function (so most reads succeed and declarations shadow); otherwise `x`
// starts undeclared at the top level.
// Wraps `body` in `k` nested scopes of mixed kinds (block, branch, one-turn
// loop, named function called at once, closure called at once).
fn nest(mut body: Vec<Stmt>, k: usize, seed: usize) -> Vec<Stmt> {
    for level in 0..k {
        body = match (seed + level * 3 + level / 2) % 5 {
            0 => vec![block(body)],
            1 => vec![if_(boolean(true), body, None)],
            2 => vec![for_(var("_"), list(vec![int(1)]), body)],
            3 => { let n = format!("lv{level}"); vec![fn_decl(&n, vec![], false, body), expr_stmt(call(var(&n), vec![]))] },
            _ => vec![expr_stmt(call(func(vec![], false, body), vec![]))],
        };
    }
    body
}

// The decoded statements at the bottom of `k` nested scopes, `x` and `f`
// declared globally.
fn decode_deep(digits: &[u8], k: usize, seed: usize) -> Prog {
    let mut d = Dec{digits, pos: 0, k: 0, fns: 0};
    let mut body = vec![];
    while d.pos < digits.len() {
        if let Some(s) = d.stmt(2) {
            body.extend(s);
        }
    }
    body.push(sdmodel::ast::print(var("x")));
    let f0 = declare(var("f"), func(vec![], false, vec![sdmodel::ast::print(string("f0"))]));
    let mut stmts = vec![declare(var("x"), int(5)), f0];
    stmts.extend(nest(body, k, seed));
    stmts.push(sdmodel::ast::print(var("x")));
    Prog::new(stmts)
}

// The pattern behind a stale resolution: use a name that resolves outward,
// make a closure that uses it, declare the name locally, call the closure —
// every combination of the four steps, at every nesting depth 0..12.
fn resolution_templates(ctx: &Ctx) {
    let uses: Vec<Option<Stmt>> = vec![None, Some(sdmodel::ast::print(var("x"))), Some(op_assign(var("x"), Op::Sum, int(1))), Some(assign(var("x"), int(7)))];
    let bodies: Vec<Stmt> = vec![sdmodel::ast::print(var("x")), op_assign(var("x"), Op::Sum, int(100)), assign(var("x"), int(40)), ret(var("x"))];
    let mut progs = vec![];
    for k in 0..=12usize {
        for seed in 0..5usize {
            if k > 0 && k < 6 && seed > 1 {
                continue;
            }
            for (ui, u) in uses.iter().enumerate() {
                for (bi, b) in bodies.iter().enumerate() {
                    for mk in 0..3usize {
                        for dk in 0..4usize {
                            let mut body = vec![];
                            if let Some(u) = u {
                                body.push(u.clone());
                            }
                            let mut fb = vec![b.clone()];
                            if bi != 3 {
                                fb.push(ret(var("x")));
                            }
                            match mk {
                                0 => body.push(fn_decl("g", vec![], false, fb)),
                                1 => body.push(declare(var("g"), func(vec![], false, fb))),
                                _ => {
                                    body.push(fn_decl("mkg", vec![], false, vec![ret(func(vec![], false, fb))]));
                                    body.push(declare(var("g"), call(var("mkg"), vec![])));
                                },
                            }
                            let calls = vec![sdmodel::ast::print(call(var("g"), vec![])), sdmodel::ast::print(var("x")), sdmodel::ast::print(call(var("g"), vec![]))];
                            match dk {
                                0 => { body.extend(calls); },
                                1 => { body.push(declare(var("x"), int(10))); body.extend(calls); },
                                2 => { body.push(for_(list(vec![var("_"), var("x")]), list(vec![int(20), int(21)]), calls)); },
                                _ => { body.push(expr_stmt(call(func(vec![var("x")], false, calls), vec![int(30)]))); },
                            }
                            body.push(sdmodel::ast::print(var("x")));
                            let mut stmts = vec![declare(var("x"), int(5))];
                            stmts.extend(nest(body, k, seed));
                            stmts.push(sdmodel::ast::print(var("x")));
                            progs.push((Prog::new(stmts), format!("depth {k}, use {ui}, closure body {bi}, closure made by {mk}, local declaration {dk}")));
                        }
                    }
                }
            }
        }
    }
    progs.par_iter().for_each(|(prog, note)| {
        if ctx.stopped() {
            return;
        }
        let printed = print::print_canonical(prog);
        let rr = interp::run(prog);
        let expect = match ref_expect(&printed, &rr, DiagLevel::None) {
            Some(e) => e,
            None => { ctx.exclude("reference discards"); return; },
        };
        ctx.label("resolution template");
        let case = Case{property: "C04".into(), kind: "resolution_template".into(), srcs: vec![printed.src.into_bytes()], pred: Pred::Expect(expect), note: note.clone()};
        ctx.judge(&case, true, Via::Fast, None);
    });
}

// Every plan of four loop turns over {plain, capture, capture then continue,
// continue, capture then break} x three loop kinds: a closure made in one turn
// keeps that turn's variables whatever the other turns do and however its own
// turn ends. Oracle: the reference interpreter.
fn loop_capture_plans(ctx: &Ctx) {
    if !crate::backend::worker_available() {
        ctx.note("in-process back-end unavailable: loop-capture plans skipped (their model is read back from the parser)");
        return;
    }
    let body = "    w := v + 1\n    if b == 1 {\n        fs += [fn () {\n            return [v, w]\n        }]\n    }\n    if b == 2 {\n        fs += [fn () {\n            w += 100\n            return [v, w]\n        }]\n        continue\n    }\n    if b == 3 {\n        continue\n    }\n    if b == 4 {\n        fs += [fn () {\n            return [v, w]\n        }]\n        break\n    }\n    w += 5\n";
    let tail = "for [_, f] in fs {\n    print(f())\n    print(f())\n}\nprint(\"end\")\n";
    let mut srcs = vec![];
    for code in 0..625usize {
        let plan: Vec<usize> = (0..4).map(|k| (code / 5usize.pow(k)) % 5).collect();
        let plan_src = format!("plan := [{}]\nfs := []\n", plan.iter().map(|p| p.to_string()).collect::<Vec<_>>().join(", "));
        srcs.push((format!("{plan_src}for [i, v] in [10, 20, 30, 40] {{\n    b := plan[i]\n{body}}}\n{tail}"), format!("for over a list, plan {plan:?}")));
        srcs.push((format!("{plan_src}for [i, v] in 10 .. 14 {{\n    b := plan[i]\n{body}}}\n{tail}"), format!("for over a range, plan {plan:?}")));
        srcs.push((format!("{plan_src}i := 0\nwhile i < 4 {{\n    v := (i + 1) * 10\n    i += 1\n    b := plan[i - 1]\n{body}}}\n{tail}"), format!("while, plan {plan:?}")));
    }
    srcs.par_iter().for_each(|(src, note)| {
        if ctx.stopped() {
            return;
        }
        let prog = match crate::util::model_from_source(src) { Ok(p) => p, Err(_) => { ctx.exclude("loop-capture plan not readable"); return; } };
        let rr = interp::run(&prog);
        let e = match &rr.outcome {
            interp::Outcome::Ok => Expect::ok(rr.out.clone()),
            interp::Outcome::Err(_) => Expect::err(rr.out.clone()),
            interp::Outcome::Discard(w) => { ctx.exclude(w); return; },
        };
        ctx.label("loop-capture plan");
        let case = Case{property: "C04".into(), kind: "loop_capture_plan".into(), srcs: vec![src.clone().into_bytes()], pred: Pred::Expect(e), note: note.clone()};
        ctx.judge(&case, true, Via::Fast, None);
    });
}

fn decode(digits: &[u8], wrapped: bool) -> Prog {
    let mut d = Dec{digits, pos: 0, k: 0, fns: 0};
    let mut body = vec![];
    while d.pos < digits.len() {
        if let Some(s) = d.stmt(2) {
            body.extend(s);
        }
    }
    body.push(sdmodel::ast::print(string("end")));
    let f0 = declare(var("f"), func(vec![], false, vec![sdmodel::ast::print(string("f0"))]));
    if wrapped {
        body.push(sdmodel::ast::print(var("x")));
        Prog::new(vec![declare(var("x"), int(5)), f0, fn_decl("main", vec![], false, body), expr_stmt(call(var("main"), vec![])), sdmodel::ast::print(var("x"))])
    } else {
        let mut stmts = vec![f0];
        stmts.extend(body);
        Prog::new(stmts)
    }
}

fn enumerate(ctx: &Ctx, len: usize, sample_every: u64) {
    let total = (BASE as u64).pow(len as u32);
    let seen: Mutex<HashSet<u64>> = Mutex::new(HashSet::new());
    (0..total).into_par_iter().for_each(|code| {
        if ctx.stopped() {
            return;
        }
        if sample_every > 1 && (code.wrapping_mul(0x9E3779B97F4A7C15) >> 20) % sample_every != ctx.seed % sample_every {
            return;
        }
        let mut digits = vec![];
        let mut c = code;
        for _ in 0..len {
            digits.push((c % BASE as u64) as u8);
            c /= BASE as u64;
        }
        for mode in 0..3usize {
        // Mode 2: the same statements under 7..12 nested scopes (all strings
        // up to length 3, a quarter of the longer ones).
        if mode == 2 && len > 3 && code % 4 != ctx.seed % 4 {
            continue;
        }
        let deep_k = 7 + (code as usize * 7 + len) % 6;
        let prog = if mode == 2 { decode_deep(&digits, deep_k, code as usize) } else { decode(&digits, mode == 1) };
        if mode == 2 { ctx.label("scope operations under 7..12 nested scopes"); }
        let printed = print::print_canonical(&prog);
        if !seen.lock().unwrap().insert(fnv(printed.src.as_bytes())) {
            continue;
        }
        let rr = interp::run(&prog);
        let expect = match ref_expect(&printed, &rr, DiagLevel::None) {
            Some(e) => e,
            None => { ctx.exclude("reference discards"); continue; },
        };
        let nd = count_variants(ctx, &prog, &rr, &SCOPE_VARIANTS);
        label_outcome(ctx, &rr);
        let case = Case{property: "C04".into(), kind: "scope_ops".into(), srcs: vec![printed.src.into_bytes()], pred: Pred::Expect(expect), note: format!("scope-operation digits {digits:?}")};
        // In-process first (every failure is re-judged through the binary),
        // and a stratified part directly through the binary.
        let via = if code % 16 == 0 { Via::Cli } else { Via::Fast };
        ctx.judge(&case, nd > 0, via, None);
        }
    });
}

// Renames every occurrence of identifier `from` to `to` (all bindings of that
// name at once: a consistent renaming).
fn rename_expr(e: &mut Expr, from: &str, to: &str) {
    match &mut e.k {
        EK::Var(n) => if n == from { *n = to.to_string(); },
        EK::Bin(_, l, r) | EK::Range(l, r) | EK::Index(l, r) => { rename_expr(l, from, to); rename_expr(r, from, to); },
        EK::List(items, _) => for it in items { rename_expr(&mut it.e, from, to); },
        EK::Obj(props) => for p in props.iter_mut() {
            let mut repl = None;
            match p {
                Prop::Pair(k, v) => { rename_expr(k, from, to); rename_expr(v, from, to); },
                Prop::Single{e, spread, collect} => {
                    if !*spread && !*collect {
                        if let EK::Var(n) = &e.k {
                            if n == from {
                                // `{a}` means `{"a": a}`: keep the key.
                                repl = Some(Prop::Pair(string(from), var(to)));
                            }
                        }
                    }
                    if repl.is_none() {
                        rename_expr(e, from, to);
                    }
                },
            }
            if let Some(r) = repl {
                *p = r;
            }
        },
        EK::RangeIndex(s, a, b) => {
            rename_expr(s, from, to);
            if let Some(a) = a { rename_expr(a, from, to); }
            if let Some(b) = b { rename_expr(b, from, to); }
        },
        EK::Prop(s, _, _) => rename_expr(s, from, to),
        EK::Func(ps, _, body) => { for p in ps { rename_expr(p, from, to); } rename_block(body, from, to); },
        EK::Call(f, args) => { rename_expr(f, from, to); for a in args { rename_expr(&mut a.e, from, to); } },
        EK::Interp(parts) => for p in parts { if let StrPart::Slot(e) = p { rename_expr(e, from, to); } },
        _ => {},
    }
}

fn rename_block(b: &mut [Stmt], from: &str, to: &str) {
    for s in b {
        match &mut s.k {
            SK::Block(b) => rename_block(b, from, to),
            SK::Expr(e) | SK::Return(e) => rename_expr(e, from, to),
            SK::Declare(l, r) | SK::Assign(l, r) | SK::OpAssign(l, _, r) => { rename_expr(l, from, to); rename_expr(r, from, to); },
            SK::If(br, els) => {
                for (c, b) in br { rename_expr(c, from, to); rename_block(b, from, to); }
                if let Some(b) = els { rename_block(b, from, to); }
            },
            SK::While(c, b) => { rename_expr(c, from, to); rename_block(b, from, to); },
            SK::For(a, i, b) => { rename_expr(a, from, to); rename_expr(i, from, to); rename_block(b, from, to); },
            SK::FuncDecl(n, ps, _, b) => {
                if n == from { *n = to.to_string(); }
                for p in ps { rename_expr(p, from, to); }
                rename_block(b, from, to);
            },
            SK::Break | SK::Continue => {},
        }
    }
}

fn declared_names(p: &Prog) -> Vec<String> {
    let src = print::print_canonical(p).src;
    let mut names: Vec<String> = vec![];
    let mut cur = String::new();
    for c in src.chars().chain(std::iter::once(' ')) {
        if c.is_ascii_alphanumeric() || c == '_' {
            cur.push(c);
        } else {
            if cur.len() > 1 && cur.chars().next().map(|c| c.is_ascii_lowercase()).unwrap_or(false) && cur.chars().any(|c| c.is_ascii_digit()) && !names.contains(&cur) {
                names.push(cur.clone());
            }
            cur.clear();
        }
    }
    names
}

fn scoping_cfg() -> gen::GenCfg {
    let mut c = gen::GenCfg::balanced();
    c.shadow = 60;
    c.w_fn = 8;
    c.w_closure = 6;
    c.w_idiom = 10;
    c.w_block = 6;
    c.w_assign = 10;
    c.sloppy = 1;
    c
}

pub fn run(ctx: &Ctx) {
    ctx.set_rule("(a) every digit string of length <= N over a 13-symbol scope-operation alphabet on one variable and one function name {read, declare fresh constant, assign fresh constant, += 1, call f, block, if, two-iteration for, fn f, f = closure, f = closure returned by a maker with its own x, self-recursive function with fuel, call with a parameter of the same name} with bodies drawn from the same alphabet to depth 2, at top level, inside a function and at the bottom of 7..12 nested scopes of mixed kinds; the use / closure / local declaration / call pattern in all 192 combinations at nesting depth 0..12 (quick: N = 4 complete, N = 5 sampled; thorough: N = 6 complete), (b) random larger programs with 60% shadowing and many closures, (c) renaming every occurrence of one generated identifier to an unused name; oracle: (a)(b) the reference interpreter on stdout and success/failure, (c) identical stdout and status; all 625 plans of four loop turns over {plain, capture, capture then continue, continue, capture then break} x 3 loop kinds. Non-trivial = the case distinguishes at least one of the wrong semantics dynamic scoping / capture by value / one frame per function / frame shared by iterations / assignment declares / declaration assigns to an outer variable (counts per variant under labels); distinct = distinct source texts");
    ctx.replay_corpus(None);
    for len in 1..=4 {
        enumerate(ctx, len, 1);
    }
    ctx.mark_exhaustive("all scope-operation digit strings of length <= 4 (13-symbol alphabet, bodies to depth 2)");
    if ctx.tier == Tier::Quick {
        enumerate(ctx, 5, 12);
    } else {
        enumerate(ctx, 5, 1);
        enumerate(ctx, 6, 1);
        ctx.mark_exhaustive("all scope-operation digit strings of length 5 and 6");
    }
    resolution_templates(ctx);
    loop_capture_plans(ctx);
    // (b) random programs, scoping profile.
    let cfg = scoping_cfg();
    let mut big = gen::GenCfg::big();
    big.shadow = 60;
    big.w_closure = 6;
    big.w_idiom = 10;
    let n = ctx.n(25_000, 1_000_000);
    let via = if ctx.tier == Tier::Quick { Via::Cli } else { Via::Fast };
    ctx.proptest_tapes("scoping_random", n, 700, via, None, |t| {
        let which = if t.chance(1, 6) { ctx.label("big profile"); &big } else { &cfg };
        let (case, rr, prog, _) = crate::props::c01::build_case("C04", "random", t, which, 0, ctx, DiagLevel::None)?;
        let nd = if t.chance(1, 3) { count_variants(ctx, &prog, &rr, &SCOPE_VARIANTS) } else { 0 };
        Some((case, nd > 0))
    });
    // (c) rename metamorphic.
    let n = ctx.n(10_000, 300_000);
    ctx.proptest_tapes("rename", n, 700, via, None, |t: &mut Tape| {
        let prog = gen::gen_prog(t, &cfg);
        let rr = interp::run(&prog);
        if rr.is_discard() {
            return None;
        }
        let names = declared_names(&prog);
        if names.is_empty() {
            return None;
        }
        let from = names[t.pick(names.len())].clone();
        let to = format!("renamed_{}", t.pick(3));
        let mut q = prog.clone();
        rename_block(&mut q.stmts, &from, &to);
        q.number();
        let a = print::print_canonical(&prog).src;
        let b = print::print_canonical(&q).src;
        if a == b {
            return None;
        }
        ctx.label("renaming");
        let uses = a.matches(&from).count();
        Some((Case{property: "C04".into(), kind: "rename".into(), srcs: vec![a.into_bytes(), b.into_bytes()], pred: Pred::Same{same_msg: false, positions: None}, note: format!("rename {from} -> {to}")}, uses >= 3))
    });
}
