// C03 — the front end accepts or cleanly rejects every input, before running
// anything. Totality / format oracle; the in-process front end classifies an
// input as accepted or rejected, the binary must then behave accordingly.

use serde_json::json;
use serde_json::Value;

use sdmodel::gen;
use sdmodel::interp;
use sdmodel::print;
use sdmodel::tape::Tape;

use crate::backend::*;
use crate::diag::take_loc;
use crate::engine::*;
use crate::pred::*;
use crate::repotests;

pub const ALPHABET: [&str; 50] = [
    "a", "_", "1", "0", "fn", "if", "in", " ", "\n", "\t", "\r", ";", "#", "\"", "$", "\\", "{", "}", "(", ")",
    "[", "]", ":", ",", ".", "=", "+", "-", "*", "/", "%", "<", ">", "!", "&", "|", "x", "n", "é", "日",
    "🙂", "\u{0}", "\u{7f}", "\u{85}", "'", "@", "?", "~", "^", "`",
];

fn n_lines(b: &[u8]) -> u32 { 1 + b.iter().filter(|c| **c == b'\n').count() as u32 }

// Expectation: "any" (accept or reject cleanly), "reject" (must be a front-end
// rejection), "accept" (valid by construction: must be parsed and run), "read_error" (not UTF-8), with an optional minimum line.
pub fn front_contract(src: &[u8], expect: &str, min_line: u32, classify_inproc: bool) -> Result<&'static str, String> {
    let quick = CliOpts{timeout: std::time::Duration::from_secs(3), patient: false, mem_limit: true, ..CliOpts::default()};
    let mut o = run_cli_opts(src, &quick);
    if o.status == Status::Timeout {
        // An accepted program may simply not terminate (a mutation can turn a
        // counter loop into an endless one): that is not the front end's
        // doing. The in-process front end tells the two apart.
        if std::str::from_utf8(src).is_ok() && worker_available() {
            if let Ok(FrontRes::Accepted) = inproc_front(src) {
                return Ok("accepted, does not terminate (not judged)");
            }
        } else if std::str::from_utf8(src).is_ok() {
            return Ok("undecided without the in-process front end");
        }
        o = run_cli_opts(src, &CliOpts{timeout: std::time::Duration::from_secs(30), patient: false, mem_limit: true, ..CliOpts::default()});
        if o.status == Status::Timeout {
            return Err("no termination within the time limit while scanning / parsing".to_string());
        }
    }
    if o.crashed() {
        // A mutated program that the front end accepts may recurse without
        // bound (`fib(n - - 1)`): what it does at run time is not the front
        // end's doing. A crash counts here only if the in-process lexer and
        // parser do not come back with "accepted" either.
        if std::str::from_utf8(src).is_ok() && worker_available() {
            if let Ok(FrontRes::Accepted) = inproc_front(src) {
                return Ok("accepted, fails at run time (not judged here: C02)");
            }
        }
        return Err(format!("crash: {}", o.brief()));
    }
    let utf8 = std::str::from_utf8(src).is_ok();
    if !utf8 {
        let e = o.err_s();
        if !o.reported() || !o.out.is_empty() {
            return Err(format!("non-UTF-8 input must be rejected with exit 103 and empty stdout: {}", o.brief()));
        }
        if !e.starts_with("case.sd: couldn't read script") || e.trim_end().lines().count() != 1 {
            return Err(format!("non-UTF-8 input must give exactly one read error: {}", o.brief()));
        }
        return Ok("read_error");
    }
    if expect == "read_error" {
        return Err("input is UTF-8 but a read error was expected".to_string());
    }
    let text = std::str::from_utf8(src).unwrap();
    let rejected = if classify_inproc && worker_available() {
        match inproc_front(src) {
            Ok(FrontRes::Accepted) => false,
            Ok(FrontRes::Rejected) => true,
            Ok(FrontRes::Panicked(m)) => return Err(format!("front end panicked in-process ({m}) but the binary did not crash: {}", o.brief())),
            _ => is_front_error(&o),
        }
    } else {
        is_front_error(&o)
    };
    if expect == "reject" && !rejected {
        return Err(format!("input must be rejected by the front end but was accepted: {}", o.brief()));
    }
    if expect == "accept" && rejected {
        return Err(format!("a program that is valid by construction was rejected by the front end: {}", o.brief()));
    }
    if !rejected {
        // Parsed and run: success or a reported run-time error.
        return Ok("accepted");
    }
    if !o.reported() {
        return Err(format!("rejected input must exit 103: {}", o.brief()));
    }
    if !o.out.is_empty() {
        return Err(format!("statements ran before a lexical/syntax error was reported (stdout not empty): {}", o.brief()));
    }
    let e = match String::from_utf8(o.err.clone()) {
        Ok(e) => e,
        Err(_) => return Err("stderr is not UTF-8".to_string()),
    };
    let first = e.lines().next().unwrap_or("");
    let (line, _col, msg) = take_loc(first, "case.sd").ok_or_else(|| format!("diagnostic is not `<path>:<line>:<col>: <message>`: {:?}", clip(&e, 300)))?;
    if msg.is_empty() {
        return Err("empty message".to_string());
    }
    if e.lines().skip(1).any(|l| l.starts_with("case.sd:") || l.starts_with("Stacktrace")) {
        return Err(format!("more than one diagnostic: {:?}", clip(&e, 400)));
    }
    let lines = n_lines(text.as_bytes());
    if line < 1 || line > lines + 1 {
        return Err(format!("reported line {line} exceeds the number of lines ({lines}) plus one"));
    }
    if line < min_line {
        return Err(format!("reported line {line} lies before the broken part (which starts at line {min_line})"));
    }
    Ok("rejected")
}

pub fn custom(case: &Case, v: &Value, _via: Via) -> Verdict {
    let expect = v["expect"].as_str().unwrap_or("any");
    let min_line = v["min_line"].as_u64().unwrap_or(0) as u32;
    match front_contract(&case.srcs[0], expect, min_line, true) {
        Ok(_) => Verdict::Pass,
        Err(m) => Verdict::Fail(m),
    }
}

fn front_case(kind: &str, src: Vec<u8>, expect: &str, min_line: u32, note: &str) -> Case {
    Case{property: "C03".into(), kind: kind.into(), srcs: vec![src], pred: Pred::Custom(json!({"expect": expect, "min_line": min_line})), note: note.to_string()}
}

// Fast in-process probe: only "does not panic / does not stall". Returns
// Some(rejected) or None when undecidable here.
fn probe(ctx: &Ctx, kind: &str, src: &[u8], note: &str) -> Option<bool> {
    match inproc_front(src) {
        Ok(FrontRes::Accepted) => Some(false),
        Ok(FrontRes::Rejected) => Some(true),
        Ok(FrontRes::NotUtf8) => None,
        Ok(FrontRes::Panicked(_)) | Err(WorkerErr::Died) | Err(WorkerErr::Stalled) => {
            // Confirm through the binary (the authoritative back-end).
            let c = front_case(kind, src.to_vec(), "any", 0, note);
            ctx.judge(&c, true, Via::Cli, Some(&custom));
            None
        },
        Err(WorkerErr::Unavailable) => None,
    }
}

fn alphabet_string(code: usize, len: usize) -> String {
    let mut s = String::new();
    let mut c = code;
    for _ in 0..len {
        s.push_str(ALPHABET[c % ALPHABET.len()]);
        c /= ALPHABET.len();
    }
    s
}

fn exhaustive_short(ctx: &Ctx) {
    use rayon::prelude::*;
    let n = ALPHABET.len();
    let mut codes: Vec<(usize, usize)> = vec![];
    for len in 1..=3usize {
        for code in 0..n.pow(len as u32) {
            codes.push((code, len));
        }
    }
    let via_cli_every = if ctx.tier == Tier::Quick { 23 } else { 5 };
    codes.par_iter().for_each(|(code, len)| {
        if ctx.stopped() {
            return;
        }
        let s = alphabet_string(*code, *len);
        let c = front_case("alphabet", s.clone().into_bytes(), "any", 0, "short string over the punctuation alphabet");
        if worker_available() && code % via_cli_every != 0 {
            let r = probe(ctx, "alphabet", s.as_bytes(), "short string over the punctuation alphabet");
            ctx.count(&c, r.unwrap_or(true));
            if r == Some(true) { ctx.label("alphabet: rejected"); } else { ctx.label("alphabet: accepted"); }
        } else {
            ctx.judge(&c, true, Via::Cli, Some(&custom));
            ctx.label("alphabet: through the binary");
        }
    });
    ctx.mark_exhaustive("all strings of length 1..3 over the 50-symbol alphabet (127 550)");
}

fn random_text(t: &mut Tape) -> String {
    let n = 1 + t.pick(40);
    let mut s = String::new();
    for _ in 0..n {
        match t.pick(10) {
            0..=5 => s.push_str(ALPHABET[t.pick(ALPHABET.len())]),
            6 => s.push(char::from_u32(0x20 + t.pick(0x5f) as u32).unwrap_or(' ')),
            7 => s.push(char::from_u32([0x80u32, 0xa0, 0x2028, 0xfeff, 0x10ffff, 0xe9, 0x142, 0x5c71, 0x1f600][t.pick(9)]).unwrap_or('?')),
            8 => s.push_str(["print(", "x := ", "\"a\\", "$\"${", "\\x4", "while true {", "..", "->", "===", "0_", "1e", "fn (", "return "][t.pick(13)]),
            _ => s.push(char::from_u32(t.pick(0x20) as u32).unwrap_or('\t')),
        }
    }
    s
}

fn corpus(ctx: &Ctx) -> Vec<String> {
    let mut c: Vec<String> = repotests::load().into_iter().map(|t| t.src).collect();
    // Generated programs, canonical and in wild layouts.
    let cfg = gen::GenCfg::small();
    for i in 0..60u64 {
        let mut t = sdmodel::tape::tape_from_seed(ctx.sub_seed("corpus", i), 300);
        let p = gen::gen_prog(&mut t, &cfg);
        c.push(print::print_prog(&p, &print::Style::wild(15), Some(&mut t)).src);
    }
    c
}

// Token boundaries of a text as seen by the real lexer (fallback: spaces).
fn token_offsets(src: &str) -> Vec<usize> {
    let mut offs = vec![0];
    if let Ok((toks, _)) = inproc_lex(src) {
        let mut line_starts = vec![0usize];
        for (i, c) in src.char_indices() {
            if c == '\n' {
                line_starts.push(i + 1);
            }
        }
        for tk in toks {
            if tk.sc == 0 || tk.sl == 0 {
                continue;
            }
            if let Some(ls) = line_starts.get(tk.sl as usize - 1) {
                let byte = src[*ls..].char_indices().nth(tk.sc as usize - 1).map(|(b, _)| ls + b);
                if let Some(b) = byte {
                    offs.push(b);
                }
            }
        }
    }
    offs.push(src.len());
    offs.sort();
    offs.dedup();
    offs
}

fn mutate(t: &mut Tape, src: &str, offs: &[usize]) -> Vec<u8> {
    let pick_span = |t: &mut Tape| -> (usize, usize) {
        let i = t.pick(offs.len().saturating_sub(1).max(1));
        (offs[i], offs[(i + 1).min(offs.len() - 1)])
    };
    let (a, b) = pick_span(t);
    let b = b.max(a);
    let mut out: Vec<u8> = vec![];
    match t.pick(9) {
        0 => { out.extend_from_slice(&src.as_bytes()[..a]); out.extend_from_slice(&src.as_bytes()[b..]); },
        1 => { out.extend_from_slice(&src.as_bytes()[..b]); out.extend_from_slice(&src.as_bytes()[a..]); },
        2 => {
            let (c, d) = pick_span(t);
            let d = d.max(c);
            if b <= c {
                out.extend_from_slice(&src.as_bytes()[..a]);
                out.extend_from_slice(&src.as_bytes()[c..d]);
                out.extend_from_slice(&src.as_bytes()[b..c]);
                out.extend_from_slice(&src.as_bytes()[a..b]);
                out.extend_from_slice(&src.as_bytes()[d..]);
            } else {
                out.extend_from_slice(src.as_bytes());
            }
        },
        3 => {
            out.extend_from_slice(&src.as_bytes()[..a]);
            out.extend_from_slice(ALPHABET[t.pick(ALPHABET.len())].as_bytes());
            out.push(b' ');
            out.extend_from_slice(&src.as_bytes()[b..]);
        },
        4 => {
            // A multi-byte character glued to a token boundary.
            out.extend_from_slice(&src.as_bytes()[..b]);
            out.extend_from_slice(["é", "日", "🙂", "ł", "²", "€"][t.pick(6)].as_bytes());
            out.extend_from_slice(&src.as_bytes()[b..]);
        },
        5 => {
            // Truncation at a token boundary.
            out.extend_from_slice(&src.as_bytes()[..a]);
        },
        6 => {
            // Truncation at an arbitrary character boundary.
            let mut k = t.pick(src.len() + 1);
            while !src.is_char_boundary(k) { k -= 1; }
            out.extend_from_slice(&src.as_bytes()[..k]);
        },
        7 => {
            out.extend_from_slice(&src.as_bytes()[..a]);
            out.extend_from_slice(["\"abc", "\"\\", "\"\\x", "\"\\x4", "$\"${", "$\"${a", "$\"$", "$", "\"${", "#"][t.pick(10)].as_bytes());
        },
        _ => {
            // A control / odd character in place of a blank.
            out.extend_from_slice(&src.as_bytes()[..a]);
            out.extend_from_slice(["\u{0}", "\u{b}", "\u{c}", "\u{85}", "\u{a0}", "\u{2028}", "\u{feff}"][t.pick(7)].as_bytes());
            out.extend_from_slice(&src.as_bytes()[a..]);
        },
    }
    out
}

// Invalid UTF-8 placed inside a comment or a string literal of a valid
// program, or anywhere.
fn non_utf8(t: &mut Tape, src: &str) -> Vec<u8> {
    let bad: [&[u8]; 6] = [b"\xfc", b"\xe9", b"\xff\xfe", b"\xc3", b"\xf0\x9f", b"\x80"];
    let b = bad[t.pick(bad.len())];
    let mut spots: Vec<usize> = vec![];
    let bytes = src.as_bytes();
    let mut in_str = false;
    let mut in_comment = false;
    for (i, c) in bytes.iter().enumerate() {
        match *c {
            b'\n' => { in_comment = false; },
            b'#' if !in_str => { in_comment = true; },
            b'"' if !in_comment && (i == 0 || bytes[i - 1] != b'\\') => { in_str = !in_str; },
            _ => {},
        }
        if (in_str || in_comment) && src.is_char_boundary(i + 1) {
            spots.push(i + 1);
        }
    }
    let mut out = vec![];
    let at = if !spots.is_empty() && t.chance(3, 4) {
        spots[t.pick(spots.len())]
    } else {
        let mut k = t.pick(src.len() + 1);
        while !src.is_char_boundary(k) { k -= 1; }
        k
    };
    out.extend_from_slice(&bytes[..at]);
    out.extend_from_slice(b);
    out.extend_from_slice(&bytes[at..]);
    out
}

const BROKEN_TAILS: [&str; 16] = [
    ")", "1 2", "x := )", "\"\\q\"", "\"$x\"", "@", "1 +* 2", "99999999999999999999", "if { }", "x = = 1",
    "fn (", "[1, 2", "\"a\\xZ1\"", "$\"$x\"", "print(1))", "else { }",
];

fn prefix_tail_cases(ctx: &Ctx, n: u64) -> Vec<(Case, bool)> {
    let mut out = vec![];
    let cfg = gen::GenCfg::small();
    let mut i = 0u64;
    while (out.len() as u64) < n && i < n * 4 {
        i += 1;
        let mut t = sdmodel::tape::tape_from_seed(ctx.sub_seed("prefix", i), 300);
        let p = gen::gen_prog(&mut t, &cfg);
        let rr = interp::run(&p);
        if !rr.is_ok() || rr.out.is_empty() {
            continue;
        }
        let mut src = print::print_canonical(&p).src;
        let min_line = n_lines(src.as_bytes());
        let tail = BROKEN_TAILS[t.pick(BROKEN_TAILS.len())];
        // Optionally more valid statements after the broken one.
        src.push_str(tail);
        src.push('\n');
        if t.chance(1, 2) {
            src.push_str("print(\"after\")\n");
        }
        ctx.label("valid printing prefix + broken tail");
        out.push((front_case("prefix_tail", src.into_bytes(), "reject", min_line, "a valid prefix that prints, followed by a lexical/syntax error: nothing may run"), true));
    }
    out
}

// A character that cannot start any token, placed at a token boundary of a
// valid program (outside strings and comments): the whole file must be
// rejected, at that character, and nothing may run.
fn illegal_char_cases(ctx: &Ctx, corp: &[String], offs: &[Vec<usize>], n: u64) -> Vec<(Case, bool)> {
    let bad = ["\u{0}", "@", "?", "~", "^", "`", "'", "\u{7f}", "\u{85}", "\u{a0}", "\u{1}", "€", "²", "\\", "!", "&", "|"];
    let mut out = vec![];
    let mut t = sdmodel::tape::tape_from_seed(ctx.sub_seed("illegal", 0), (n * 8) as usize);
    let mut tries = 0;
    while (out.len() as u64) < n && tries < n * 6 {
        tries += 1;
        let i = t.pick(corp.len());
        let src = &corp[i];
        // Only programs that print something and are accepted as they are.
        if !src.contains("print(") || offs[i].len() < 3 {
            continue;
        }
        if !matches!(inproc_front(src.as_bytes()), Ok(FrontRes::Accepted)) && worker_available() {
            continue;
        }
        let k = 1 + t.pick(offs[i].len() - 2);
        let at = offs[i][k];
        if !src.is_char_boundary(at) {
            continue;
        }
        let c = bad[t.pick(bad.len())];
        let c = match c { "\u{0}" => "\u{0}".replace("\u{0}", "\0"), other => other.to_string() };
        let c: String = match c.as_str() {
            "\0" => "\u{0}".chars().next().map(|_| '\u{0}'.to_string()).unwrap(),
            "\u{7f}" => '\u{7f}'.to_string(), "\u{85}" => '\u{85}'.to_string(), "\u{a0}" => '\u{a0}'.to_string(), "\u{1}" => '\u{1}'.to_string(),
            "\\" => "\\".to_string(),
            other => other.to_string(),
        };
        // `!`, `&`, `|` alone are illegal only when not followed by `=`, `&`, `|`.
        let tail = &src[at..];
        if (c == "!" && tail.starts_with('=')) || (c == "&" && tail.starts_with('&')) || (c == "|" && tail.starts_with('|')) {
            continue;
        }
        let text = format!("{}{} {}", &src[..at], c, tail);
        let line = 1 + src[..at].matches('\n').count() as u32;
        ctx.label("illegal character at a token boundary");
        out.push((front_case("illegal_char", text.into_bytes(), "reject", line, &format!("character {:?} inserted at a token boundary of a valid program", c)), true));
    }
    out
}

// Lexical errors inside a string literal that already contains escapes
// (decoded newlines must not count as lines) on the last line of the file.
fn escape_then_error_cases(ctx: &Ctx) -> Vec<(Case, bool)> {
    let mut out = vec![];
    let bads = ["\\q", "\\xZ1", "$x", "\\x4", "\\ "];
    for lines_before in [0usize, 1, 3] {
        for k in 0..=6usize {
            for (bi, bad) in bads.iter().enumerate() {
                for open in ["\"", "$\""] {
                    if *bad == "$x" && open == "$\"" {
                        // `$x` in an interpolated literal is a bad slot start: still an error.
                    }
                    let esc = ["\\n", "\\r", "\\\\", "\\x41", "\\\"", "\\n\\n"][(k + bi) % 6];
                    let mut src = String::new();
                    for i in 0..lines_before {
                        src.push_str(&format!("print({i})\n"));
                    }
                    src.push_str(&format!("v := {open}{}{} tail\"", esc.repeat(k), bad));
                    if (k + bi) % 2 == 0 {
                        src.push('\n');
                    }
                    ctx.label("lexical error after escapes in the same literal");
                    out.push((front_case("escape_then_error", src.into_bytes(), "reject", lines_before as u32 + 1, "a lexical error after k escapes in the same literal, on the last line"), k > 0));
                }
            }
        }
    }
    out
}

// Inputs beyond the small scope whose fate is known: long tokens, long lines,
// deep nesting, many statements.
fn large_inputs(ctx: &Ctx) -> Vec<(Case, bool)> {
    let mut out = vec![];
    let mut push = |src: String, expect: &str, min_line: u32, note: &str| {
        ctx.label("large input");
        out.push((front_case("large", src.into_bytes(), expect, min_line, note), true));
    };
    // A long token as the *unexpected* token of a syntax error (it is echoed
    // in the diagnostic): every kind of token, multi-byte text at every
    // alignment around 32 / 64 / 128 / 256 bytes.
    for units in ["é", "日本", "🙂", "aé", "ab"] {
        for target in [30usize, 62, 126, 254, 510] {
            for shift in 0..5usize {
                let pad = "x".repeat(shift);
                let mut text = pad.clone();
                while text.len() < target + 8 {
                    text.push_str(units);
                }
                let toks = [
                    format!("\"{text}\""), format!("$\"{text}\""), format!("$\"{text}${{v}}{text}\""),
                    format!("id_{}", "long_name_".repeat(target / 10 + 1)), "1".repeat(target.min(18)),
                ];
                for tok in toks {
                    push(format!("print(1)\nv := \"a\" {tok}\nprint(2)\n"), "reject", 2, "a long token where none is expected");
                    push(format!("print(1)\nw := [1, 2 {tok}]\n"), "reject", 2, "a long token inside brackets where none is expected");
                }
                push(format!("v := \"z\"\nprint($\"${{v {}}}\")\n", format!("\\\"{text}\\\"").replace("\\\"", "\"")), "any", 0, "a long token where none is expected, inside an interpolation slot (parsed when evaluated)");
            }
        }
    }
    for n in [31usize, 64, 65, 127, 128, 255, 256, 257, 1000, 5000] {
        let id: String = std::iter::repeat("ab_9").take(n / 4 + 1).collect::<String>()[..n].to_string();
        push(format!("{id} := 1\nprint({id})\n"), "any", 0, "long identifier");
        push(format!("{id} := 1\nprint({id}) @\n"), "reject", 2, "long identifier, then an illegal character");
        let digits: String = "1234567890".repeat(n / 10 + 1)[..n].to_string();
        push(format!("print(1)\nx := {digits}\n"), if n <= 18 { "any" } else { "reject" }, if n <= 18 { 0 } else { 2 }, "long integer literal");
        let zeros = "0".repeat(n);
        push(format!("x := {zeros}7\nprint(x) )\n"), "reject", 2, "many leading zeros, then a stray parenthesis");
        let text = "é日a ".repeat(n / 4 + 1);
        push(format!("s := \"{text}\"\nprint(s->len()) ]\n"), "reject", 2, "long multi-byte string literal, then a stray bracket");
        push(format!("# {text}\nprint(1) }}\n"), "reject", 2, "long multi-byte comment, then a stray brace");
        push(format!("print({}1{})\n", "(".repeat(n.min(120)), ")".repeat(n.min(120))), "any", 0, "deep parentheses");
        push(format!("print({}1{})\n", "(".repeat(n.min(120)), ")".repeat(n.min(120) - 1)), "reject", 1, "deep parentheses, one missing");
        push(format!("x := {}{}\nprint(1) @\n", "[".repeat(n.min(100)), "]".repeat(n.min(100))), "reject", 2, "deep brackets, then an illegal character");
        let stmts: String = (0..n.min(600)).map(|k| format!("v{k} := {k}; ")).collect();
        push(format!("{stmts}\nprint(v0) print(v1)\n"), "reject", 2, "one very long line of statements, then two statements without a terminator");
        let lines: String = (0..n.min(800)).map(|k| format!("w{k} := {k}\n")).collect();
        push(format!("{lines}w0 = = 1\n"), "reject", n.min(800) as u32 + 1, "many lines, error on the last");
        let spaces = " ".repeat(n);
        push(format!("x :={spaces}1{spaces}+{spaces}\n\n\n{spaces}2\nprint(x){spaces}@\n"), "reject", 5, "very wide blanks, continuation over blank lines");
    }
    out
}

// Both directions at the statement boundary and inside interpolated literals:
// a line break after a token that does not continue a statement is a syntax
// error (nothing runs), and programs that are valid by construction — among
// them slots holding string literals with escaped quotes and backslashes — are
// accepted.
fn boundary_cases(ctx: &Ctx) -> Vec<(Case, bool)> {
    let mut out = vec![];
    for tok in ["===", "!==", "..", "->"] {
        let (l, r) = if tok == "->" { ("\"ab\"", "len()") } else if tok == ".." { ("1", "3") } else { ("a", "a") };
        let src = format!("print(\"ran\")\na := [1]\nv := {l} {tok}\n    {r}\nprint(v)\n");
        ctx.label("line break after a token that does not continue");
        out.push((front_case("no_continuation", src.into_bytes(), "reject", 3, &format!("line break directly after `{tok}`")), true));
        let src = format!("print(\"ran\")\na := [1]\nv := {l} {tok} {r}\nprint(v)\n");
        ctx.label("valid by construction");
        out.push((front_case("valid", src.into_bytes(), "accept", 0, &format!("`{tok}` on one line")), true));
    }
    let valid = [
        "dir := \"C:\"\nf := \"x\"\nprint($\"path: ${ dir + \"\\\\\" }${f}\")\n",
        "print($\"${\"\\\\\"}\")\nprint($\"${\"\\\\\"}${\"\\\\\"}!\")\n",
        "q := \"x\"\nprint($\"a${\"q\\\"b\"}c${q}\")\n",
        "q := \"x\"\nprint($\"${q + \"\\\\\\\"\"}|${q}\")\n",
        "q := \"x\"\nprint($\"${ $\"${q}\\\\\" }${q}\")\n",
        "q := \"x\"\nprint($\"${[q, \"\\$\"][1]}${q}\")\n",
        "q := \"x\"\nprint($\"\\\\${q}\\\\\")\nprint(\"\\\\\")\n",
        "x := 1;; y := 2;\n;print(x + y);\n",
        "xs := [\n    1,\n    2,\n]\no := {\n    \"a\": 1,\n}\nprint(xs)\nprint(o)\n",
        "fn f(a,\n    b,\n) {\n    return a +\n        b\n}\nprint(f(1,\n    2,\n))\n",
        "# only a comment\n",
        "",
        "\n\n\n",
    ];
    for v in valid {
        ctx.label("valid by construction");
        out.push((front_case("valid", v.as_bytes().to_vec(), "accept", 0, "hand-written valid program"), true));
    }
    out
}

pub fn run(ctx: &Ctx) {
    ctx.set_rule("all strings of length <= 3 over a 50-symbol alphabet of Seed punctuation / keywords / escapes / multi-byte and control characters (exhaustive), random Unicode strings, token-level mutations (delete, duplicate, swap, replace, glue a multi-byte character, control characters) and truncations of the repository's 336 test scripts and of generated programs, unterminated strings / escapes / slots at EOF, invalid UTF-8 inside comments / strings / anywhere, valid printing prefix + broken tail; oracle: never a crash or hang; a front-end rejection has empty stdout, exit 103, exactly one `<path>:<line>:<col>: <message>` with 1 <= line <= lines+1 (and within the broken tail); non-UTF-8 is a read error; beyond the small scope: tokens of up to 5000 characters, 120 nested parentheses, 800 lines, long tokens of every kind (multi-byte text at every alignment around 32..512 bytes) as the unexpected token of a syntax error. Non-trivial = the input is rejected, or was mutated / contains multi-byte or control characters next to tokens; distinct = distinct inputs");
    ctx.replay_corpus(Some(&custom));
    let hist = crate::props::faults::history_cases("C03", &["syntax"]);
    ctx.label_n("literal evaluated after similar literals: independent of the history", hist.len() as u64);
    ctx.judge_all(hist, Via::Cli, None);
    if !worker_available() {
        ctx.note("in-process back-end unavailable: every input goes through the binary, with reduced counts");
    }
    exhaustive_short(ctx);
    // Random texts.
    let fast = worker_available();
    let n = if fast { ctx.n(150_000, 6_000_000) } else { ctx.n(8_000, 100_000) };
    ctx.proptest_tapes("random_text", n, 90, Via::Cli, Some(&custom), |t| {
        let s = random_text(t);
        let c = front_case("random_text", s.clone().into_bytes(), "any", 0, "random text");
        if fast && !t.chance(1, 25) {
            let r = probe(ctx, "random_text", s.as_bytes(), "random text");
            ctx.count(&c, r.unwrap_or(true));
            ctx.label(if r == Some(true) { "random text: rejected" } else { "random text: accepted" });
            return None;
        }
        Some((c, true))
    });
    // Mutations of valid programs.
    let corp = corpus(ctx);
    ctx.set_extra("corpus_programs", json!(corp.len()));
    let offs: Vec<Vec<usize>> = corp.iter().map(|s| token_offsets(s)).collect();
    let n = if fast { ctx.n(120_000, 4_000_000) } else { ctx.n(8_000, 100_000) };
    ctx.proptest_tapes("mutation", n, 40, Via::Cli, Some(&custom), |t| {
        let i = t.pick(corp.len());
        let m = mutate(t, &corp[i], &offs[i]);
        let c = front_case("mutation", m.clone(), "any", 0, "token-level mutation / truncation of a valid program");
        if fast && !t.chance(1, 20) {
            let r = probe(ctx, "mutation", &m, "token-level mutation / truncation of a valid program");
            ctx.count(&c, true);
            ctx.label(if r == Some(true) { "mutation: rejected" } else { "mutation: accepted or run" });
            return None;
        }
        Some((c, true))
    });
    ctx.judge_all(illegal_char_cases(ctx, &corp, &offs, ctx.n(2_000, 60_000)), Via::Cli, Some(&custom));
    ctx.judge_all(escape_then_error_cases(ctx), Via::Cli, Some(&custom));
    ctx.judge_all(large_inputs(ctx), Via::Cli, Some(&custom));
    ctx.judge_all(boundary_cases(ctx), Via::Cli, Some(&custom));
    // Generated programs are valid by construction: each must be accepted.
    {
        let cfg = sdmodel::gen::GenCfg::balanced();
        let big = sdmodel::gen::GenCfg::big();
        let n = ctx.n(4_000, 300_000);
        ctx.proptest_tapes("valid_programs", n, 600, Via::Cli, Some(&custom), |t| {
            let which = if t.chance(1, 5) { &big } else { &cfg };
            let prog = sdmodel::gen::gen_prog(t, which);
            let printed = sdmodel::print::print_prog(&prog, &sdmodel::print::Style::wild(10), Some(t));
            ctx.label("valid by construction");
            Some((front_case("valid", printed.src.into_bytes(), "accept", 0, "generated program in a random layout"), true))
        });
    }
    // Every-offset truncation of a few programs, through the binary.
    let mut cases = vec![];
    for (k, s) in corp.iter().enumerate().filter(|(k, _)| k % 29 == 0).take(if ctx.tier == Tier::Quick { 8 } else { 60 }) {
        for cut in 0..=s.len() {
            if s.is_char_boundary(cut) {
                cases.push((front_case("truncation", s.as_bytes()[..cut].to_vec(), "any", 0, &format!("program {k} cut at byte {cut}")), true));
            }
        }
    }
    ctx.label_n("every-offset truncations", cases.len() as u64);
    ctx.judge_all(cases, Via::Cli, Some(&custom));
    // Invalid UTF-8.
    let n = ctx.n(3_000, 100_000);
    ctx.proptest_tapes("non_utf8", n, 20, Via::Cli, Some(&custom), |t| {
        let i = t.pick(corp.len());
        let m = non_utf8(t, &corp[i]);
        if std::str::from_utf8(&m).is_ok() {
            return None;
        }
        ctx.label("invalid UTF-8");
        Some((front_case("non_utf8", m, "read_error", 0, "invalid UTF-8 bytes inside a comment / string / anywhere"), true))
    });
    ctx.judge_all(prefix_tail_cases(ctx, ctx.n(1_500, 50_000)), Via::Cli, Some(&custom));
    if ctx.tier == Tier::Thorough && worker_available() && !ctx.stopped() && crate::fuzzdrive::build(ctx) {
        // Coverage-guided byte-level fuzzing of lexer + parser, seeded with
        // the repository's scripts; the line bound is asserted in-target.
        let seeds: Vec<Vec<u8>> = corp.iter().map(|s| s.clone().into_bytes()).collect();
        let r = crate::fuzzdrive::campaign(ctx, "front", 12, 4, ctx.n(1, 250_000), 512, &seeds);
        ctx.label_n("libFuzzer executions (front target)", r.executions);
        for bytes in r.crashes {
            let c = front_case("libfuzzer", bytes, "any", 0, "crash artifact of the front-end fuzz target");
            ctx.judge(&c, true, Via::Cli, Some(&custom));
        }
    }
}
