// Pieces shared by the differential checks.

use sdmodel::ast::*;
use sdmodel::interp;
use sdmodel::interp::Outcome;
use sdmodel::interp::PosRule;
use sdmodel::interp::RErr;
use sdmodel::interp::RunResult;
use sdmodel::interp::Sem;
use sdmodel::print::Printed;

use crate::diag::TraceLine;
use crate::engine::Ctx;
use crate::pred::*;

#[derive(Clone, Copy, Debug, PartialEq, Eq)]
pub enum DiagLevel {
    // Only stdout and the status class.
    None,
    // Shape, function name, stack trace (C17).
    Shape,
    // Shape plus exact position where a documented rule exists (C18).
    Position,
}

pub fn unnamed() -> String { "<unnamed function>".to_string() }

pub fn shape_preds(printed: &Printed, e: &RErr) -> Vec<DiagPred> {
    let mut v = vec![DiagPred::WellFormed{max_line: printed.n_lines()}];
    // A call made from inside an interpolation slot is reported with
    // slot-relative positions and a nested location prefix (DESIGN.md §3.7):
    // only the general shape is asserted then.
    if e.stack.iter().any(|f| f.from_slot || printed.first.get(f.call as usize).copied().flatten().is_none()) {
        return v;
    }
    let in_func = e.stack.last().map(|f| f.callee.clone().unwrap_or_else(unnamed));
    v.push(DiagPred::InFunc(in_func));
    if e.stack.is_empty() {
        v.push(DiagPred::NoTrace);
    } else {
        let mut lines = vec![];
        let mut all = true;
        for i in (0..e.stack.len()).rev() {
            let func = if i == 0 { "<root>".to_string() } else { e.stack[i - 1].callee.clone().unwrap_or_else(unnamed) };
            match printed.first[e.stack[i].call as usize] {
                Some(p) => lines.push(TraceLine{line: p.line, col: p.col, func}),
                None => all = false,
            }
        }
        if all {
            v.push(DiagPred::Trace(lines));
        }
    }
    v
}

pub fn position_pred(printed: &Printed, e: &RErr) -> Option<DiagPred> {
    if e.in_slot && !e.in_slot_direct {
        return None;
    }
    let p = match e.rule {
        PosRule::First => printed.first.get(e.node as usize).copied().flatten(),
        PosRule::Op => printed.op.get(e.node as usize).copied().flatten(),
        PosRule::Loose => None,
    }?;
    if e.in_slot {
        return Some(DiagPred::SlotPos{line: p.line, col: p.col});
    }
    Some(DiagPred::Pos{line: p.line, col: p.col})
}

// What the binary must do according to the reference run; None when the
// reference declared the program outside its domain.
pub fn ref_expect(printed: &Printed, rr: &RunResult, level: DiagLevel) -> Option<Expect> {
    match &rr.outcome {
        Outcome::Discard(_) => None,
        Outcome::Ok => Some(Expect::ok(rr.out.clone())),
        Outcome::Err(e) => {
            let mut ex = Expect::err(rr.out.clone());
            if level != DiagLevel::None {
                ex.diag = shape_preds(printed, e);
                if level == DiagLevel::Position {
                    if let Some(p) = position_pred(printed, e) {
                        ex.diag.push(p);
                    }
                }
            }
            Some(ex)
        },
    }
}

// Names of the variant semantics under which this program's observable
// behaviour (stdout + success/failure) differs from the true one.
pub fn distinguishing(p: &Prog, truth: &RunResult, variants: &[&str]) -> Vec<String> {
    let mut out = vec![];
    let lim = interp::Limits{steps: 60_000, ..interp::Limits::default()};
    for v in variants {
        let r = interp::run_with(p, &Sem::variant(v), &lim);
        if r.is_discard() {
            continue;
        }
        if r.out != truth.out || r.is_ok() != truth.is_ok() {
            out.push(v.to_string());
        }
    }
    out
}

pub fn count_variants(ctx: &Ctx, p: &Prog, truth: &RunResult, variants: &[&str]) -> usize {
    let d = distinguishing(p, truth, variants);
    for v in &d {
        ctx.label(&format!("distinguishes:{v}"));
    }
    d.len()
}

pub fn label_outcome(ctx: &Ctx, rr: &RunResult) {
    match &rr.outcome {
        Outcome::Ok => ctx.label("outcome:ok"),
        Outcome::Err(e) => {
            ctx.label("outcome:error");
            ctx.label(&format!("error:{}", kind_name(&e.kind)));
        },
        Outcome::Discard(_) => {},
    }
}

pub fn kind_name(k: &interp::EKind) -> String {
    let s = format!("{k:?}");
    s.split(|c: char| !c.is_ascii_alphanumeric()).next().unwrap_or("").to_string()
}

// ------------------------------------------------------------ batching

// A self-contained group of statements that is expected to run to completion
// and print exactly `expect`. Many of them are run per process, each inside
// its own function so that scopes do not leak; if a batch disagrees, its
// members are re-run one by one to find the culprit(s).
#[derive(Clone, Debug)]
pub struct Snippet {
    pub body: String,
    pub expect: String,
    pub nontrivial: bool,
    pub note: String,
}

pub fn snippet_case(property: &str, kind: &str, s: &Snippet) -> Case {
    Case{
        property: property.to_string(), kind: kind.to_string(),
        srcs: vec![format!("{}\n", s.body.trim_end()).into_bytes()],
        pred: Pred::Expect(Expect::ok(s.expect.clone().into_bytes())),
        note: s.note.clone(),
    }
}

pub fn judge_snippets(ctx: &Ctx, kind: &str, snippets: &[Snippet], per_batch: usize) {
    use rayon::prelude::*;
    let chunks: Vec<&[Snippet]> = snippets.chunks(per_batch.max(1)).collect();
    chunks.par_iter().for_each(|chunk| {
        if ctx.stopped() {
            return;
        }
        let mut src = String::new();
        let mut expect = String::new();
        for (i, s) in chunk.iter().enumerate() {
            src.push_str(&format!("fn c{i}() {{\n{}\n}}\nc{i}()\n", s.body.trim_end()));
            expect.push_str(&s.expect);
        }
        let o = crate::backend::run_cli(src.as_bytes());
        if o.ok() && o.out == expect.as_bytes() && o.err.is_empty() {
            for s in chunk.iter() {
                ctx.count(&snippet_case(&ctx.property, kind, s), s.nontrivial);
            }
            return;
        }
        for s in chunk.iter() {
            if ctx.stopped() {
                return;
            }
            ctx.judge(&snippet_case(&ctx.property, kind, s), s.nontrivial, Via::Cli, None);
        }
    });
}

// Source text of an integer constant (the minimum has no literal).
pub fn int_src(v: i64) -> String {
    if v == i64::MIN {
        "(-9223372036854775807 - 1)".to_string()
    } else {
        v.to_string()
    }
}

// Hand-written programs judged against the reference interpreter: the text is
// read into the model through the parser, the model is run by the reference,
// and the binary must print the same and end in the same class.
pub fn source_cases(ctx: &Ctx, property: &str, kind: &str, label: &str, srcs: Vec<(String, String)>) -> Vec<(Case, bool)> {
    use rayon::prelude::*;
    if !crate::backend::worker_available() {
        ctx.note(&format!("in-process back-end unavailable: {label} skipped (their model is read back from the parser)"));
        return vec![];
    }
    srcs.par_iter().filter_map(|(src, note)| {
        let prog = match crate::util::model_from_source(src) {
            Ok(p) => p,
            Err(_) => { ctx.exclude(&format!("{label}: program not readable into the model")); return None; },
        };
        let rr = interp::run(&prog);
        let e = match &rr.outcome {
            Outcome::Ok => Expect::ok(rr.out.clone()),
            Outcome::Err(_) => Expect::err(rr.out.clone()),
            Outcome::Discard(w) => { ctx.exclude(&format!("{label}: outside the reference's domain ({w})")); return None; },
        };
        ctx.label(label);
        Some((Case{property: property.to_string(), kind: kind.to_string(), srcs: vec![src.clone().into_bytes()], pred: Pred::Expect(e), note: note.clone()}, true))
    }).collect()
}

// Ways a callable value (a bound method `o.m`, a bound type function
// `s->len`, a plain function) can travel before it is called with no
// arguments. Each entry is (route name, statements that end by printing the
// result of the call).
pub fn callable_routes(b: &str) -> Vec<(&'static str, String)> {
    vec![
        ("called directly", format!("print({b}())\n")),
        ("variable", format!("m := {b}\nprint(m())\nprint(m())\n")),
        ("list element", format!("fs := [{b}]\nprint(fs[0]())\n")),
        ("argument", format!("fn call_it(g) {{\n    return g()\n}}\nprint(call_it({b}))\n")),
        ("returned", format!("fn give() {{\n    return {b}\n}}\nprint(give()())\nh := give()\nprint(h())\n")),
        ("returned from a list", format!("fs := [{b}, {b}]\nfn pick(i) {{\n    return fs[i]\n}}\nprint(pick(1)())\n")),
        ("returned by a closure", format!("g := fn () {{\n    return {b}\n}}\nprint(g()())\n")),
        ("spread into a call", format!("fn first(a, ..r) {{\n    return a()\n}}\nfs := [{b}]\nprint(first(fs..))\nprint(first(fs.., fs..))\n")),
        ("spread into a literal", format!("fs := [{b}]\ngs := [fs.., fs..]\nprint(gs[1]())\n")),
        ("rest parameter", format!("fn rest(..r) {{\n    return r[0]()\n}}\nprint(rest({b}))\nfs := [{b}]\nprint(rest(fs..))\n")),
        ("rest parameter after a plain one", format!("fn rest(a, ..r) {{\n    return r[0]()\n}}\nfs := [1, {b}]\nprint(rest(fs..))\nprint(rest(fs[0], fs[1:]..))\n")),
        ("list pattern", format!("[d, ..more] := [{b}, {b}]\nprint(d())\nprint(more[0]())\n")),
        ("for element", format!("for [_, e] in [{b}, {b}] {{\n    print(e())\n}}\n")),
        ("slice and concatenation", format!("fs := ([1] + [{b}])[1:]\nprint(fs[0]())\n")),
        ("range assignment", format!("fs := [0, 0]\nfs[0:2] = [{b}, {b}]\nprint(fs[1]())\n")),
        ("captured", format!("kept := {b}\nfn later() {{\n    return kept()\n}}\nprint(later())\n")),
        ("object property", format!("ob := {{\"size\": {b}}}\nprint(ob.size())\n")),
        ("object index", format!("ob := {{\"size\": {b}}}\nprint(ob[\"size\"]())\n")),
        ("object property taken out again", format!("ob := {{\"size\": {b}}}\nm := ob.size\nprint(m())\n")),
    ]
}

// `slot op= v` on a property, index or element is `slot = slot op v`: the
// slot gets a new value, whatever else held the old one keeps it. Set-ups
// that make one container reachable twice x op-assignments through a slot x
// full observation (contents, `==`, `!=`, `===`, `!==` against the other
// route and against an independent equal copy). Oracle: the reference run.
pub fn slot_op_assign_cases(ctx: &Ctx, property: &str) -> Vec<(Case, bool)> {
    let setups = [
        ("t := [1]\no := {\"a\": t, \"b\": t, \"\": t}\n", "o.a", "o.b", "t"),
        ("o := {\"a\": [1], \"k\": 0}\no.b = o.a\nt := o[\"b\"]\n", "o.a", "o.b", "t"),
        ("o := {\"a\": [1]}\no[\"b\"] = o[\"a\"]\nt := [o.a][0]\n", "o[\"a\"]", "o[\"b\"]", "t"),
        ("src := {\"a\": [1], \"b\": [1]}\no := {src..}\nt := src.a\n", "o.a", "src.a", "t"),
        ("row := [1]\no := [row, row, [1]]\nt := row\n", "o[0]", "o[1]", "t"),
        ("row := [1]\no := {\"g\": [row, row]}\nt := o.g[1]\n", "o.g[0]", "o.g[1]", "t"),
        ("t := [1]\nfn wrap(v) {\n    return {\"a\": v, \"b\": v}\n}\no := wrap(t)\n", "o.a", "o.b", "t"),
        ("t := \"s\"\no := {\"a\": t, \"b\": t}\n", "o.a", "o.b", "t"),
        ("t := 7\no := {\"a\": t, \"b\": t}\n", "o.a", "o.b", "t"),
    ];
    let mut srcs = vec![];
    for (setup, slot, other, name) in setups {
        let rhs: Vec<String> = if setup.contains("\"s\"") { vec!["\"x\"".into(), other.to_string()] } else if setup.contains(":= 7") { vec!["1".into(), other.to_string()] } else { vec!["[2]".into(), "[]".into(), other.to_string(), slot.to_string(), "[[3]]".into()] };
        for r in rhs {
            for times in [1, 2] {
                let op = format!("{slot} += {r}\n").repeat(times);
                let fresh = if setup.contains("\"s\"") { "\"s\"" } else if setup.contains(":= 7") { "7" } else { "[1]" };
                let ids = if fresh == "[1]" { format!("print([{slot} === {other}, {slot} !== {name}, {other} === {name}])\n") } else { String::new() };
                let src = format!("{setup}{op}print({slot})\nprint({other})\nprint({name})\nprint(o)\nprint([{other} == {fresh}, {other} != {fresh}, {name} == {fresh}, {slot} == {other}, {slot} != {name}])\n{ids}");
                srcs.push((src, format!("`{slot} += {r}` x {times} after `{}`", setup.lines().next().unwrap_or(""))));
            }
        }
    }
    source_cases(ctx, property, "slot_op_assign", "op-assignment through a slot whose value is reachable by another route", srcs)
}
