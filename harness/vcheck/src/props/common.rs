// Pieces shared by the differential checks.

use sdmodel::ast::*;
use sdmodel::interp;
use sdmodel::interp::Outcome;
use sdmodel::interp::PosRule;
use sdmodel::interp::RErr;
use sdmodel::interp::RunResult;
use sdmodel::interp::Sem;
use sdmodel::print::Printed;

use crate::diag::TraceLine;
use crate::engine::Ctx;
use crate::pred::*;

#[derive(Clone, Copy, Debug, PartialEq, Eq)]
pub enum DiagLevel {
    // Only stdout and the status class.
    None,
    // Shape, function name, stack trace (C17).
    Shape,
    // Shape plus exact position where a documented rule exists (C18).
    Position,
}

pub fn unnamed() -> String { "<unnamed function>".to_string() }

pub fn shape_preds(printed: &Printed, e: &RErr) -> Vec<DiagPred> {
    let mut v = vec![DiagPred::WellFormed{max_line: printed.n_lines()}];
    // A call made from inside an interpolation slot is reported with
    // slot-relative positions and a nested location prefix (DESIGN.md §3.7):
    // only the general shape is asserted then.
    if e.stack.iter().any(|f| f.from_slot || printed.first.get(f.call as usize).copied().flatten().is_none()) {
        return v;
    }
    let in_func = e.stack.last().map(|f| f.callee.clone().unwrap_or_else(unnamed));
    v.push(DiagPred::InFunc(in_func));
    if e.stack.is_empty() {
        v.push(DiagPred::NoTrace);
    } else {
        let mut lines = vec![];
        let mut all = true;
        for i in (0..e.stack.len()).rev() {
            let func = if i == 0 { "<root>".to_string() } else { e.stack[i - 1].callee.clone().unwrap_or_else(unnamed) };
            match printed.first[e.stack[i].call as usize] {
                Some(p) => lines.push(TraceLine{line: p.line, col: p.col, func}),
                None => all = false,
            }
        }
        if all {
            v.push(DiagPred::Trace(lines));
        }
    }
    v
}

pub fn position_pred(printed: &Printed, e: &RErr) -> Option<DiagPred> {
    if e.in_slot && !e.in_slot_direct {
        return None;
    }
    let p = match e.rule {
        PosRule::First => printed.first.get(e.node as usize).copied().flatten(),
        PosRule::Op => printed.op.get(e.node as usize).copied().flatten(),
        PosRule::Loose => None,
    }?;
    if e.in_slot {
        return Some(DiagPred::SlotPos{line: p.line, col: p.col});
    }
    Some(DiagPred::Pos{line: p.line, col: p.col})
}

// What the binary must do according to the reference run; None when the
// reference declared the program outside its domain.
pub fn ref_expect(printed: &Printed, rr: &RunResult, level: DiagLevel) -> Option<Expect> {
    match &rr.outcome {
        Outcome::Discard(_) => None,
        Outcome::Ok => Some(Expect::ok(rr.out.clone())),
        Outcome::Err(e) => {
            let mut ex = Expect::err(rr.out.clone());
            if level != DiagLevel::None {
                ex.diag = shape_preds(printed, e);
                if level == DiagLevel::Position {
                    if let Some(p) = position_pred(printed, e) {
                        ex.diag.push(p);
                    }
                }
            }
            Some(ex)
        },
    }
}

// Names of the variant semantics under which this program's observable
// behaviour (stdout + success/failure) differs from the true one.
pub fn distinguishing(p: &Prog, truth: &RunResult, variants: &[&str]) -> Vec<String> {
    let mut out = vec![];
    let lim = interp::Limits{steps: 60_000, ..interp::Limits::default()};
    for v in variants {
        let r = interp::run_with(p, &Sem::variant(v), &lim);
        if r.is_discard() {
            continue;
        }
        if r.out != truth.out || r.is_ok() != truth.is_ok() {
            out.push(v.to_string());
        }
    }
    out
}

pub fn count_variants(ctx: &Ctx, p: &Prog, truth: &RunResult, variants: &[&str]) -> usize {
    let d = distinguishing(p, truth, variants);
    for v in &d {
        ctx.label(&format!("distinguishes:{v}"));
    }
    d.len()
}

pub fn label_outcome(ctx: &Ctx, rr: &RunResult) {
    match &rr.outcome {
        Outcome::Ok => ctx.label("outcome:ok"),
        Outcome::Err(e) => {
            ctx.label("outcome:error");
            ctx.label(&format!("error:{}", kind_name(&e.kind)));
        },
        Outcome::Discard(_) => {},
    }
}

pub fn kind_name(k: &interp::EKind) -> String {
    let s = format!("{k:?}");
    s.split(|c: char| !c.is_ascii_alphanumeric()).next().unwrap_or("").to_string()
}

// ------------------------------------------------------------ batching

// A self-contained group of statements that is expected to run to completion
// and print exactly `expect`. Many of them are run per process, each inside
// its own function so that scopes do not leak; if a batch disagrees, its
// members are re-run one by one to find the culprit(s).
#[derive(Clone, Debug)]
pub struct Snippet {
    pub body: String,
    pub expect: String,
    pub nontrivial: bool,
    pub note: String,
}

pub fn snippet_case(property: &str, kind: &str, s: &Snippet) -> Case {
    Case{
        property: property.to_string(), kind: kind.to_string(),
        srcs: vec![format!("{}\n", s.body.trim_end()).into_bytes()],
        pred: Pred::Expect(Expect::ok(s.expect.clone().into_bytes())),
        note: s.note.clone(),
    }
}

pub fn judge_snippets(ctx: &Ctx, kind: &str, snippets: &[Snippet], per_batch: usize) {
    use rayon::prelude::*;
    let chunks: Vec<&[Snippet]> = snippets.chunks(per_batch.max(1)).collect();
    chunks.par_iter().for_each(|chunk| {
        if ctx.stopped() {
            return;
        }
        let mut src = String::new();
        let mut expect = String::new();
        for (i, s) in chunk.iter().enumerate() {
            src.push_str(&format!("fn c{i}() {{\n{}\n}}\nc{i}()\n", s.body.trim_end()));
            expect.push_str(&s.expect);
        }
        let o = crate::backend::run_cli(src.as_bytes());
        if o.ok() && o.out == expect.as_bytes() && o.err.is_empty() {
            for s in chunk.iter() {
                ctx.count(&snippet_case(&ctx.property, kind, s), s.nontrivial);
            }
            return;
        }
        for s in chunk.iter() {
            if ctx.stopped() {
                return;
            }
            ctx.judge(&snippet_case(&ctx.property, kind, s), s.nontrivial, Via::Cli, None);
        }
    });
}

// Source text of an integer constant (the minimum has no literal).
pub fn int_src(v: i64) -> String {
    if v == i64::MIN {
        "(-9223372036854775807 - 1)".to_string()
    } else {
        v.to_string()
    }
}

// Hand-written programs judged against the reference interpreter: the text is
// read into the model through the parser, the model is run by the reference,
// and the binary must print the same and end in the same class.
pub fn source_cases(ctx: &Ctx, property: &str, kind: &str, label: &str, srcs: Vec<(String, String)>) -> Vec<(Case, bool)> {
    use rayon::prelude::*;
    if !crate::backend::worker_available() {
        ctx.note(&format!("in-process back-end unavailable: {label} skipped (their model is read back from the parser)"));
        return vec![];
    }
    srcs.par_iter().filter_map(|(src, note)| {
        let prog = match crate::util::model_from_source(src) {
            Ok(p) => p,
            Err(_) => { ctx.exclude(&format!("{label}: program not readable into the model")); return None; },
        };
        let rr = interp::run(&prog);
        let e = match &rr.outcome {
            Outcome::Ok => Expect::ok(rr.out.clone()),
            Outcome::Err(_) => Expect::err(rr.out.clone()),
            Outcome::Discard(w) => { ctx.exclude(&format!("{label}: outside the reference's domain ({w})")); return None; },
        };
        ctx.label(label);
        Some((Case{property: property.to_string(), kind: kind.to_string(), srcs: vec![src.clone().into_bytes()], pred: Pred::Expect(e), note: note.clone()}, true))
    }).collect()
}
