// C01 — whole-program behaviour equals the documented semantics.
// Random programs over the whole documented feature set, differential
// against the reference interpreter on stdout and the success/failure class.

use sdmodel::gen;
use sdmodel::interp;
use sdmodel::print;
use sdmodel::tape::Tape;

use crate::engine::*;
use crate::pred::*;
use crate::props::common::*;

const FEATURES: [&str; 22] = [
    "anon_fn", "call", "fn_decl", "for_list", "for_string", "for_object", "while", "if", "block",
    "list_destructure", "object_destructure", "collect", "spread", "object_spread", "this",
    "elem_assign", "prop_assign", "range_assign", "op_assign", "interpolation", "type_function",
    "range_index",
];

pub fn build_case(property: &str, kind: &str, t: &mut Tape, cfg: &gen::GenCfg, density: usize, ctx: &Ctx, level: DiagLevel) -> Option<(Case, interp::RunResult, sdmodel::ast::Prog, print::Printed)> {
    let prog = gen::gen_prog(t, cfg);
    let rr = interp::run(&prog);
    if let interp::Outcome::Discard(why) = &rr.outcome {
        ctx.exclude(why);
        return None;
    }
    let style = if density == 0 { print::Style::canonical() } else { print::Style::wild(density) };
    let printed = print::print_prog(&prog, &style, Some(t));
    let expect = ref_expect(&printed, &rr, level)?;
    let case = Case{
        property: property.to_string(), kind: kind.to_string(),
        srcs: vec![printed.src.clone().into_bytes()], pred: Pred::Expect(expect), note: String::new(),
    };
    Some((case, rr, prog, printed))
}

pub fn run(ctx: &Ctx) {
    ctx.set_rule("tape-decoded random programs over the documented feature set (balanced profile, ~2% sloppy choices), printed in a random layout; oracle: reference interpreter on stdout + success/failure class. Non-trivial = the run touches >= 4 of the feature classes listed under labels 'feature:*' including at least one loop or call; distinct = distinct source texts");
    ctx.replay_corpus(None);
    let cfg = gen::GenCfg::balanced();
    let big = gen::GenCfg::big();
    let n = ctx.n(60_000, 1_500_000);
    let via = if ctx.tier == Tier::Quick { Via::Cli } else { Via::Fast };
    ctx.proptest_tapes("programs", n, 700, via, None, |t| {
        let density = if t.chance(1, 2) { 12 } else { 0 };
        // One program in five is drawn at sizes beyond the small scope
        // (lists of 17..100, loops of 17..40 iterations, long strings and
        // names, recursion depth 8..15, non-boundary big integers).
        let use_big = t.chance(1, 5);
        if use_big { ctx.label("profile: beyond small scope"); }
        let (case, rr, prog, _) = build_case("C01", "differential", t, if use_big { &big } else { &cfg }, density, ctx, DiagLevel::None)?;
        label_outcome(ctx, &rr);
        let mut feats = 0;
        for f in FEATURES {
            if rr.labels.contains(f) {
                ctx.label(&format!("feature:{f}"));
                feats += 1;
            }
        }
        let nesting = rr.labels.contains("call") || rr.labels.contains("while") || rr.labels.contains("for");
        // Variant measurement on a thin sample (it costs 17 extra runs).
        if t.chance(1, 8) {
            count_variants(ctx, &prog, &rr, &interp::VARIANTS);
        }
        Some((case, feats >= 4 && nesting))
    });
    if ctx.tier == Tier::Thorough && crate::backend::worker_available() && !ctx.stopped() {
        // Coverage-guided structured fuzzing with the same decoder and the
        // same differential asserted in-target.
        if crate::fuzzdrive::build(ctx) {
            let r = crate::fuzzdrive::campaign(ctx, "differential", 12, 10, ctx.n(1, 40_000), 1400, &[]);
            ctx.label_n("libFuzzer executions (differential target)", r.executions);
            for bytes in r.crashes {
                let mut t = Tape::from_bytes(&bytes);
                if let Some((case, _, _, _)) = build_case("C01", "libfuzzer", &mut t, &cfg, 0, ctx, DiagLevel::None) {
                    ctx.judge(&case, true, Via::Cli, None);
                }
            }
        }
    }
}
