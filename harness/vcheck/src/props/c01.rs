// C01 — whole-program behaviour equals the documented semantics.
// Random programs over the whole documented feature set, differential
// against the reference interpreter on stdout and the success/failure class.

use sdmodel::gen;
use sdmodel::interp;
use sdmodel::print;
use sdmodel::tape::Tape;

use crate::engine::*;
use crate::pred::*;
use crate::props::common::*;

const FEATURES: [&str; 22] = [
    "anon_fn", "call", "fn_decl", "for_list", "for_string", "for_object", "while", "if", "block",
    "list_destructure", "object_destructure", "collect", "spread", "object_spread", "this",
    "elem_assign", "prop_assign", "range_assign", "op_assign", "interpolation", "type_function",
    "range_index",
];

pub fn build_case(property: &str, kind: &str, t: &mut Tape, cfg: &gen::GenCfg, density: usize, ctx: &Ctx, level: DiagLevel) -> Option<(Case, interp::RunResult, sdmodel::ast::Prog, print::Printed)> {
    let prog = gen::gen_prog(t, cfg);
    if let Some(m) = gen::replay_mode(&prog) {
        ctx.label(&format!("whole text evaluated repeatedly: {m}"));
    }
    let rr = interp::run(&prog);
    if let interp::Outcome::Discard(why) = &rr.outcome {
        ctx.exclude(why);
        return None;
    }
    let style = if density == 0 { print::Style::canonical() } else { print::Style::wild(density) };
    let printed = print::print_prog(&prog, &style, Some(t));
    let expect = ref_expect(&printed, &rr, level)?;
    let case = Case{
        property: property.to_string(), kind: kind.to_string(),
        srcs: vec![printed.src.clone().into_bytes()], pred: Pred::Expect(expect), note: String::new(),
    };
    Some((case, rr, prog, printed))
}

// The same few operations repeated 300 .. 70000 times (calls, appends, string
// building, closure creation, interpolation, comparisons with writes in
// between, key insertion): behaviour must not depend on how often something
// has already happened. Expected output from the reference interpreter with
// a raised step budget.
fn repetition_cases(ctx: &Ctx) -> Vec<(Case, bool)> {
    let mut out = vec![];
    if !crate::backend::worker_available() {
        ctx.note("in-process back-end unavailable: repetition programs skipped (their model is read back from the parser)");
        return out;
    }
    let lim = interp::Limits{steps: 8_000_000, call_depth: 260, container: 100_000, range_width: 100_000, out_bytes: 4 << 20, ..interp::Limits::default()};
    let mut push = |n: i64, name: &str, src: String| {
        let prog = match crate::util::model_from_source(&src) { Ok(p) => p, Err(_) => { ctx.exclude("repetition program not readable"); return; } };
        let rr = interp::run_with(&prog, &interp::Sem::default(), &lim);
        let e = match &rr.outcome {
            interp::Outcome::Ok => Expect::ok(rr.out.clone()),
            interp::Outcome::Err(_) => Expect::err(rr.out.clone()),
            interp::Outcome::Discard(w) => { ctx.exclude(&format!("repetition program outside the reference's budget ({w}): {name} x {n}")); return; },
        };
        ctx.label("repetition program");
        out.push((Case{property: "C01".into(), kind: "repetition".into(), srcs: vec![src.into_bytes()], pred: Pred::Expect(e), note: format!("{name} x {n}")}, true));
    };
    for n in [300i64, 1000, 4096, 5000, 65546] {
        push(n, "call in a counter loop", format!("fn f(v) {{\n    return (v * 7) % 13\n}}\ni := 0\ns := 0\nwhile i < {n} {{\n    i += 1\n    s = (s + f(i)) % 1000003\n}}\nprint(s)\nprint(i)\n"));
        push(n, "closure made and called per turn", format!("s := 0\nfor [_, v] in 0 .. {n} {{\n    g := fn () {{\n        return v + 1\n    }}\n    s = (s + g()) % 1000003\n}}\nprint(s)\n"));
        push(n, "method call per turn", format!("o := {{\"n\": 0, \"bump\": fn (d) {{\n    this.n = (this.n + d) % 1000003\n    return this.n\n}}}}\nlast := 0\nfor [_, v] in 0 .. {n} {{\n    last = o.bump(v)\n}}\nprint(last)\nprint(o.n)\n"));
        push(n, "same interpolated literal per turn", format!("acc := 0\ntag := \"a\"\nfor [i, v] in 0 .. {n} {{\n    if (v % 1000) == 999 {{\n        tag = tag + \"b\"\n    }}\n    t := $\"<${{tag}}|${{$\"${{tag}}\"}}>\"\n    acc = (acc + t->len()) % 1000003\n}}\nprint(acc)\nprint(tag)\n"));
        push(n, "comparison with a write in between, per turn", format!("a := [1, [2, 3], {{\"k\": 4}}]\nb := [1, [2, 3], {{\"k\": 4}}]\nsame := 0\ndiff := 0\nfor [_, v] in 0 .. {n} {{\n    if (v % 3) == 0 {{\n        b[1][0] = v\n    }} else {{\n        b[1][0] = 2\n    }}\n    if a == b {{\n        same += 1\n    }} else {{\n        diff += 1\n    }}\n}}\nprint([same, diff])\n"));
        push(n, "block scopes entered per turn", format!("x := 0\nfor [_, v] in 0 .. {n} {{\n    {{\n        y := v\n        {{\n            x = (x + y) % 1000003\n        }}\n    }}\n}}\nprint(x)\n"));
        if n <= 5000 {
            push(n, "append per turn, then slices", format!("xs := []\nfor [_, v] in 0 .. {n} {{\n    xs += [v * 2]\n}}\nprint(xs[{}])\nprint(xs[{}:])\ns := 0\nfor [_, v] in xs {{\n    s = (s + v) % 1000003\n}}\nprint(s)\n", n - 1, n - 3));
            push(n, "string grown per turn", format!("s := \"\"\nfor [_, v] in 0 .. {n} {{\n    s += \"é!\"\n}}\nprint(s->len())\nprint(s[{}:])\n", 3 * n - 3));
            push(n, "element writes per turn", format!("xs := 0 .. 64\nfor [_, v] in 0 .. {n} {{\n    xs[v % 64] = xs[(v + 1) % 64] + 1\n}}\nprint(xs[0:4])\nprint(xs[63])\n"));
        }
        if n <= 1000 {
            push(n, "key inserted per turn", format!("o := {{}}\nk := \"k\"\nfor [_, v] in 0 .. {n} {{\n    k = k + \"x\"\n    o[k] = v\n}}\ncnt := 0\nlast := 0\nfor [key, val] in o {{\n    cnt += 1\n    last = val\n}}\nprint([cnt, last])\nprint(o[k])\n"));
            push(n, "functions kept in a list", format!("fs := []\nfor [_, v] in 0 .. {n} {{\n    fs += [fn () {{\n        return v * 3\n    }}]\n}}\nprint(fs[0]())\nprint(fs[{}]())\nprint(fs[{}]())\n", n / 2, n - 1));
        }
    }
    // (Depth 200 already overflows the 8 MiB stack of the dev-profile binary,
    // which is outside C02's resource precondition.)
    for depth in [25i64, 50, 80] {
        push(depth, "recursion depth", format!("fn down(k) {{\n    if k == 0 {{\n        return 0\n    }}\n    return 1 + down(k - 1)\n}}\nprint(down({depth}))\n"));
    }
    out
}

pub fn run(ctx: &Ctx) {
    ctx.set_rule("tape-decoded random programs over the documented feature set (balanced profile, ~2% sloppy choices), printed in a random layout, one in six with its whole text evaluated repeatedly (called twice / three loop turns / re-entered while an outer activation is suspended half way / a closure per turn called later); oracle: reference interpreter on stdout + success/failure class. Non-trivial = the run touches >= 4 of the feature classes listed under labels 'feature:*' including at least one loop or call; distinct = distinct source texts");
    ctx.replay_corpus(None);
    ctx.judge_all(repetition_cases(ctx), Via::Cli, None);
    let cfg = gen::GenCfg::balanced();
    let big = gen::GenCfg::big();
    let n = ctx.n(60_000, 1_500_000);
    let via = if ctx.tier == Tier::Quick { Via::Cli } else { Via::Fast };
    ctx.proptest_tapes("programs", n, 700, via, None, |t| {
        let density = if t.chance(1, 2) { 12 } else { 0 };
        // One program in five is drawn at sizes beyond the small scope
        // (lists of 17..100, loops of 17..40 iterations, long strings and
        // names, recursion depth 8..15, non-boundary big integers).
        let use_big = t.chance(1, 5);
        if use_big { ctx.label("profile: beyond small scope"); }
        let (case, rr, prog, _) = build_case("C01", "differential", t, if use_big { &big } else { &cfg }, density, ctx, DiagLevel::None)?;
        label_outcome(ctx, &rr);
        let mut feats = 0;
        for f in FEATURES {
            if rr.labels.contains(f) {
                ctx.label(&format!("feature:{f}"));
                feats += 1;
            }
        }
        let nesting = rr.labels.contains("call") || rr.labels.contains("while") || rr.labels.contains("for");
        // Variant measurement on a thin sample (it costs 17 extra runs).
        if t.chance(1, 8) {
            count_variants(ctx, &prog, &rr, &interp::VARIANTS);
        }
        Some((case, feats >= 4 && nesting))
    });
    if ctx.tier == Tier::Thorough && crate::backend::worker_available() && !ctx.stopped() {
        // Coverage-guided structured fuzzing with the same decoder and the
        // same differential asserted in-target.
        if crate::fuzzdrive::build(ctx) {
            let r = crate::fuzzdrive::campaign(ctx, "differential", 12, 10, ctx.n(1, 40_000), 1400, &[]);
            ctx.label_n("libFuzzer executions (differential target)", r.executions);
            for bytes in r.crashes {
                let mut t = Tape::from_bytes(&bytes);
                if let Some((case, _, _, _)) = build_case("C01", "libfuzzer", &mut t, &cfg, 0, ctx, DiagLevel::None) {
                    ctx.judge(&case, true, Via::Cli, None);
                }
            }
        }
    }
}
