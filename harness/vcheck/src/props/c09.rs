// C09 — newline equals `;`; whitespace, comments and line layout never change
// meaning. Metamorphic: all layouts of one program behave identically, and a
// line break after a token continues the statement iff the token is one of
// the 25 listed ones (otherwise it acts exactly like `;`).

use sdmodel::ast::*;
use sdmodel::gen;
use sdmodel::interp;
use sdmodel::print;
use sdmodel::print::Printed;
use sdmodel::tape::Tape;

use crate::engine::*;
use crate::pred::*;

fn respell_expr(e: &mut Expr, t: &mut Tape) {
    match &mut e.k {
        EK::Int{v, text} => {
            if t.chance(1, 2) {
                let digits = v.unsigned_abs().to_string();
                let mut s = String::new();
                if t.chance(1, 3) {
                    s.push_str("00");
                }
                for (i, c) in digits.chars().enumerate() {
                    s.push(c);
                    if i + 1 < digits.len() && t.chance(1, 2) {
                        s.push('_');
                    }
                }
                if t.chance(1, 4) {
                    s.push('_');
                }
                *text = Some(s);
            }
        },
        EK::Str(cs) => {
            for c in cs.iter_mut() {
                if c.0.is_ascii() && (c.1 == Spell::Raw || c.1 == Spell::Esc) && t.chance(1, 2) {
                    c.1 = Spell::Hex;
                }
            }
        },
        EK::Interp(parts) => {
            for p in parts {
                if let StrPart::Text(cs) = p {
                    for c in cs.iter_mut() {
                        if c.0.is_ascii() && (c.1 == Spell::Raw || c.1 == Spell::Esc) && t.chance(1, 2) {
                            c.1 = Spell::Hex;
                        }
                    }
                }
            }
        },
        EK::Bin(_, l, r) | EK::Range(l, r) | EK::Index(l, r) => { respell_expr(l, t); respell_expr(r, t); },
        EK::List(items, _) => for it in items { respell_expr(&mut it.e, t); },
        EK::Obj(props) => for p in props {
            match p {
                Prop::Pair(k, v) => { respell_expr(k, t); respell_expr(v, t); },
                Prop::Single{e, ..} => respell_expr(e, t),
            }
        },
        EK::RangeIndex(s, a, b) => {
            respell_expr(s, t);
            if let Some(a) = a { respell_expr(a, t); }
            if let Some(b) = b { respell_expr(b, t); }
        },
        EK::Prop(s, _, _) => respell_expr(s, t),
        EK::Func(ps, _, body) => { for p in ps { respell_expr(p, t); } respell_block(body, t); },
        EK::Call(f, args) => { respell_expr(f, t); for a in args { respell_expr(&mut a.e, t); } },
        _ => {},
    }
}

fn respell_block(b: &mut [Stmt], t: &mut Tape) {
    for s in b {
        match &mut s.k {
            SK::Block(b) => respell_block(b, t),
            SK::Expr(e) | SK::Return(e) => respell_expr(e, t),
            SK::Declare(l, r) | SK::Assign(l, r) | SK::OpAssign(l, _, r) => { respell_expr(l, t); respell_expr(r, t); },
            SK::If(br, els) => {
                for (c, b) in br { respell_expr(c, t); respell_block(b, t); }
                if let Some(b) = els { respell_block(b, t); }
            },
            SK::While(c, b) => { respell_expr(c, t); respell_block(b, t); },
            SK::For(a, i, b) => { respell_expr(a, t); respell_expr(i, t); respell_block(b, t); },
            SK::FuncDecl(_, ps, _, b) => { for p in ps { respell_expr(p, t); } respell_block(b, t); },
            SK::Break | SK::Continue => {},
        }
    }
}

// Position in `to` of the token that starts at `pos` in `from`.
fn map_pos(from: &Printed, to: &Printed, line: u32, col: u32) -> Option<(u32, u32)> {
    if from.toks.len() != to.toks.len() {
        return None;
    }
    let i = from.toks.iter().position(|t| t.pos.line == line && t.pos.col == col)?;
    Some((to.toks[i].pos.line, to.toks[i].pos.col))
}

fn layouts_check(ctx: &Ctx, n: u64) {
    let mut cfg = gen::GenCfg::balanced();
    cfg.sloppy = 3;
    let mut big = gen::GenCfg::big();
    big.sloppy = 3;
    let via = if ctx.tier == Tier::Quick { Via::Cli } else { Via::Fast };
    ctx.proptest_tapes("layouts", n, 900, via, None, |t| {
        let which = if t.chance(1, 6) { ctx.label("big profile"); &big } else { &cfg };
        let prog = gen::gen_prog(t, which);
        let rr = interp::run(&prog);
        if rr.is_discard() {
            ctx.exclude("reference discards the program");
            return None;
        }
        let canon = print::print_canonical(&prog);
        let mut style = print::Style::wild(25);
        style.trailing_commas = false;
        let mut printed = vec![canon.clone()];
        for k in 0..3 {
            if k == 2 {
                style.crlf = true;
            }
            printed.push(print::print_prog(&prog, &style, Some(t)));
        }
        let mut re = prog.clone();
        respell_block(&mut re.stmts, t);
        printed.push(print::print_canonical(&re));
        // Expected position of the diagnostic in each layout: the image of
        // the canonical one under the token map (the canonical position is
        // what the reference says when it has a rule, otherwise unchecked).
        let mut positions = None;
        if let Some(e) = rr.err() {
            if let Some(DiagPred::Pos{line, col}) = crate::props::common::position_pred(&canon, e) {
                let mapped: Vec<Option<(u32, u32)>> = printed.iter().map(|p| map_pos(&canon, p, line, col)).collect();
                if mapped.iter().all(|m| m.is_some()) {
                    positions = Some(mapped.into_iter().map(|m| m.unwrap()).collect());
                    ctx.label("failing program with mapped position");
                }
            }
            ctx.label("failing program");
        }
        let mut nt = false;
        for p in &printed[1..4] {
            for (tok, c) in &p.stats.cont_breaks {
                ctx.label_n(&format!("break after {tok}"), *c as u64);
                nt = true;
            }
            if p.stats.comments > 0 { ctx.label("layout with comments"); nt = true; }
            if p.stats.semis > 0 { ctx.label("layout with ; terminators"); nt = true; }
            if p.stats.odd_ws > 0 { ctx.label("layout with tabs / CR / FF"); }
            if p.stats.blank_lines > 0 { ctx.label("layout with blank lines"); }
        }
        let case = Case{
            property: "C09".into(), kind: "layouts".into(),
            srcs: printed.iter().map(|p| p.src.clone().into_bytes()).collect(),
            pred: Pred::Same{same_msg: true, positions}, note: "one program in five layouts (canonical, 3 random incl. CR LF, digit separators / \\xHH spellings)".into(),
        };
        Some((case, nt))
    });
}

// A statement per token context: a line break after token i of a valid
// program continues the statement iff the token is a continuation token;
// otherwise it must act exactly like `;` at that place.
fn directional(ctx: &Ctx, n_programs: u64) {
    let cfg = gen::GenCfg::small();
    let mut cases = vec![];
    let mut seen_ctx = std::collections::BTreeSet::new();
    for i in 0..n_programs {
        let mut t = sdmodel::tape::tape_from_seed(ctx.sub_seed("directional", i), 400);
        let prog = gen::gen_prog(&mut t, &cfg);
        let rr = interp::run(&prog);
        if !rr.is_ok() {
            continue;
        }
        let p = print::print_canonical(&prog);
        for (k, tok) in p.toks.iter().enumerate() {
            if k + 1 >= p.toks.len() {
                continue;
            }
            let next = &p.toks[k + 1];
            // One case per (token, next token) context is enough.
            let key = (tok.text.clone(), next.text.chars().next().unwrap_or(' '), tok.pos.line == next.pos.line);
            if !seen_ctx.insert(key) {
                continue;
            }
            let end = tok.off + tok.text.len();
            let with_nl = format!("{}\n{}", &p.src[..end], &p.src[end..]);
            let is_cont = print::CONT_TOKENS.contains(&tok.text.as_str());
            let class = if tok.text.starts_with('"') || tok.text.starts_with("$\"") { "string literal".to_string() }
                else if tok.text.chars().all(|c| c.is_ascii_digit() || c == '_') { "integer literal".to_string() }
                else if tok.text.chars().all(|c| c.is_ascii_alphanumeric() || c == '_') && !["fn", "if", "else", "for", "in", "while", "return", "break", "continue", "null", "true", "false"].contains(&tok.text.as_str()) { "identifier".to_string() }
                else { tok.text.clone() };
            ctx.label(&format!("line break after `{class}` ({})", if is_cont { "continues" } else { "ends the statement" }));
            if is_cont {
                cases.push((Case{
                    property: "C09".into(), kind: "continuation".into(),
                    srcs: vec![p.src.clone().into_bytes(), with_nl.into_bytes()],
                    pred: Pred::Same{same_msg: true, positions: None},
                    note: format!("line break directly after `{}` must continue the statement", tok.text),
                }, true));
            } else {
                let with_semi = format!("{};{}", &p.src[..end], &p.src[end..]);
                cases.push((Case{
                    property: "C09".into(), kind: "terminator".into(),
                    srcs: vec![with_semi.into_bytes(), with_nl.into_bytes()],
                    pred: Pred::Same{same_msg: true, positions: None},
                    note: format!("line break directly after `{}` must end the statement exactly like `;`", tok.text),
                }, true));
            }
        }
    }
    ctx.judge_all(cases, Via::Cli, None);
}

// The text of an interpolation slot is code: the layout rules hold inside it
// as well. One program, its slots written on one line and spread over
// several lines (continuation breaks, comments before a break, blank lines,
// a nested literal with a raw line break against its `\\x0a` spelling).
fn slot_layout_cases(ctx: &Ctx) -> Vec<(Case, bool)> {
    let pre = "a := \"x\"\nb := \"y\"\nfn id(v) {\n    return v\n}\n";
    let groups: Vec<Vec<&str>> = vec![
        vec!["print($\"<${a + b}>\")", "print($\"<${a +\n    b}>\")", "print($\"<${a + # note\n    b}>\")", "print($\"<${a +\n\n        b}>\")", "print($\"<${ a + b }>\")", "print($\"<${a +\tb}>\")"],
        vec!["print($\"${id(a, )}|${id(b)}\")", "print($\"${id(\n    a,\n)}|${id(b)}\")", "print($\"${id( # first\n    a, # second\n)}|${id(b)}\")", "print($\"${id(a,)}|${id(\n    b,\n)}\")"],
        vec!["print($\"${[a, b][1]}\")", "print($\"${[a,\n    b,\n][1]}\")", "print($\"${[a, # one\n    b, # two\n][1]}\")"],
        vec!["print($\"${a + \"\\x0a\" + b}\")", "print($\"${a + \"\\n\" + b}\")", "print($\"${a + \"\n\" + b}\")"],
        vec!["print($\"${a + \"q\\x0ar\"}\"->len())", "print($\"${a + \"q\nr\"}\"->len())", "print($\"${a +\n    \"q\nr\"}\"->len())"],
        vec!["print($\"${{\"k\": a}.k}${b}\")", "print($\"${{\"k\": a,\n}.k}${b}\")"],
        vec!["print($\"${a + nope}\")", "print($\"${a +\n    nope}\")", "print($\"${a + # c\n    nope}\")"],
    ];
    let mut out = vec![];
    for g in groups {
        let srcs: Vec<Vec<u8>> = g.iter().map(|s| format!("{pre}{s}\nprint(\"end\")\n").into_bytes()).collect();
        ctx.label("layout inside an interpolation slot");
        out.push((Case{property: "C09".into(), kind: "slot_layout".into(), srcs, pred: Pred::Same{same_msg: true, positions: None}, note: format!("{} layouts of one slot", g.len())}, true));
    }
    out
}

pub fn run(ctx: &Ctx) {
    ctx.set_rule("programs from the tape decoder (incl. failing ones) printed in the canonical layout, 3 random layouts (terminator per statement, line breaks with optional comment after continuation tokens, blanks / tabs / CR / FF between tokens, comments with multi-byte text, blank lines, CR LF) and with `_` digit separators / \\xHH spellings: all five must give the same stdout, status and message, at the image of the position under the token map; directional matrix: for every (token, next token) context of valid programs, a line break after the token continues the statement iff it is one of the 25 continuation tokens, else it behaves exactly like `;`. Non-trivial = a layout with a continuation break, a comment or a `;` terminator, and every matrix cell; distinct = distinct source sets");
    ctx.replay_corpus(None);
    ctx.judge_all(slot_layout_cases(ctx), Via::Cli, None);
    layouts_check(ctx, ctx.n(12_000, 300_000));
    directional(ctx, ctx.n(400, 6_000));
}
