// C06 — integer arithmetic is exact over 64 bits or reports an error.
// Oracle: exact arithmetic in i128, written here, independent of the
// reference interpreter.

use sdmodel::ast::Op;
use sdmodel::tape::Tape;

use crate::engine::*;
use crate::pred::*;
use crate::props::common::*;

pub fn boundary_values(thorough: bool) -> Vec<i64> {
    let mut b: Vec<i64> = vec![0, 1, -1, 2, -2, 3, -3, 7, -7, 10, -10];
    let p31 = 1i64 << 31;
    let p32 = 1i64 << 32;
    let p62 = 1i64 << 62;
    for v in [p31, p31 - 1, p31 + 1, p32, p32 - 1, p32 + 1, 3037000499, 3037000500, p62, p62 - 1, p62 + 1] {
        b.push(v);
        b.push(-v);
    }
    b.extend_from_slice(&[i64::MAX, i64::MAX - 1, i64::MIN, i64::MIN + 1, i64::MIN + 2]);
    if thorough {
        for k in [15, 16, 30, 33, 47, 48, 61] {
            let v = 1i64 << k;
            b.extend_from_slice(&[v, -v, v - 1, -(v - 1), v + 1]);
        }
        for v in [3037000498i64, 3037000501, 2147483646, 4294967297, 9223372036854775805, 4611686018427387903, 6074000999, 1000000007, 999999999999] {
            b.push(v);
            b.push(-v);
        }
        b.extend_from_slice(&[i64::MAX - 2, i64::MIN + 3, 5, -5, 100, -100]);
    }
    b.sort();
    b.dedup();
    b
}

pub fn exact(op: Op, a: i64, b: i64) -> Option<i128> {
    let (x, y) = (a as i128, b as i128);
    let r = match op {
        Op::Sum => x + y,
        Op::Sub => x - y,
        Op::Mul => x * y,
        Op::Div => {
            if y == 0 { return None; }
            // Truncation toward zero.
            let q = x.abs() / y.abs();
            if (x < 0) != (y < 0) { -q } else { q }
        },
        Op::Mod => {
            if y == 0 { return None; }
            // Sign of the dividend.
            let m = x.abs() % y.abs();
            if x < 0 { -m } else { m }
        },
        _ => unreachable!(),
    };
    if r < i64::MIN as i128 || r > i64::MAX as i128 { None } else { Some(r) }
}

fn compare(op: Op, a: i64, b: i64) -> bool {
    match op {
        Op::Lt => a < b, Op::Lte => a <= b, Op::Gt => a > b, Op::Gte => a >= b,
        Op::Eq => a == b, _ => a != b,
    }
}

fn nontrivial(op: Op, a: i64, b: i64) -> bool {
    let near = |v: i64| v >= i64::MAX - 1 || v <= i64::MIN + 1;
    if near(a) || near(b) {
        return true;
    }
    match op {
        Op::Div | Op::Mod => b == 0 || a < 0 || b < 0,
        Op::Sum => a.checked_add(b).is_none(),
        Op::Sub => a.checked_sub(b).is_none(),
        Op::Mul => a.checked_mul(b).is_none(),
        _ => false,
    }
}

const FORMS: [&str; 10] = ["plain", "var", "elem", "prop", "index", "shadow", "param", "loopvar", "shadow_read", "local_read"];

// Statements that compute `a op b` in the given form and print the result.
fn form_src(form: &str, op: Op, a: i64, b: i64) -> String {
    let (sa, sb, o) = (int_src(a), int_src(b), op.sym());
    match form {
        "plain" => format!("print({sa} {o} {sb})"),
        "var" => format!("x := {sa}\nx {o}= {sb}\nprint(x)"),
        "elem" => format!("xs := [0, {sa}]\nxs[1] {o}= {sb}\nprint(xs[1])"),
        "prop" => format!("o := {{\"k\": {sa}}}\no.k {o}= {sb}\nprint(o.k)"),
        // Op-assignment on a name that shadows an outer variable of the same
        // name: block-local, parameter, loop variable. `x op= y` is `x = x op y`
        // on the innermost x; the outer one keeps its value.
        "shadow" => format!("x := 7\n{{\n    x := {sa}\n    x {o}= {sb}\n    print(x)\n}}\nif x != 7 {{\n    print(\"outer changed\")\n}}"),
        // The outer variable is read immediately before the shadow is declared
        // (whatever the interpreter remembers about that lookup must not
        // outlive the declaration), the shadow immediately afterwards.
        "shadow_read" => format!("x := 7\n{{\n    y := 0 + x\n    x := {sa}\n    x {o}= {sb}\n    print(x)\n    x = x\n}}\nif x != 7 {{\n    print(\"outer changed\")\n}}"),
        "local_read" => format!("x := 7\nfn g(k) {{\n    room := k + x\n    x := {sa}\n    x {o}= {sb}\n    return x\n}}\nprint(g(0))\nif x != 7 {{\n    print(\"outer changed\")\n}}"),
        "param" => format!("fn g(x) {{\n    x {o}= {sb}\n    return x\n}}\nx := 7\nprint(g({sa}))\nif x != 7 {{\n    print(\"outer changed\")\n}}"),
        "loopvar" => format!("x := 7\nfor [_, x] in [{sa}] {{\n    x {o}= {sb}\n    print(x)\n}}\nif x != 7 {{\n    print(\"outer changed\")\n}}"),
        _ => format!("o := {{\"k\": {sa}}}\no[\"k\"] {o}= {sb}\nprint(o[\"k\"])"),
    }
}

fn arith_cases(ctx: &Ctx, pairs: &[(i64, i64)], forms: &[&str], kind: &str) {
    let mut ok = vec![];
    let mut bad = vec![];
    for (a, b) in pairs {
        for op in sdmodel::ast::ARITH_OPS {
            for form in forms {
                let src = form_src(form, op, *a, *b);
                let nt = nontrivial(op, *a, *b);
                ctx.label(&format!("op:{}:{}", op.sym(), form));
                match exact(op, *a, *b) {
                    Some(v) => ok.push(Snippet{body: src, expect: format!("{v}\n"), nontrivial: nt, note: format!("{a} {} {b} = {v} ({form})", op.sym())}),
                    None => {
                        ctx.label("expected:error");
                        let mut e = Expect::err(vec![]);
                        // Names the operation and the operands, in order.
                        e.diag = vec![
                            DiagPred::WellFormed{max_line: 12},
                            DiagPred::MsgContains(vec![a.to_string(), op.sym().to_string(), b.to_string()]),
                        ];
                        bad.push((Case{
                            property: "C06".to_string(), kind: kind.to_string(), srcs: vec![format!("{src}\n").into_bytes()],
                            pred: Pred::Expect(e), note: format!("{a} {} {b} does not fit 64 bits ({form})", op.sym()),
                        }, nt));
                    },
                }
            }
        }
    }
    judge_snippets(ctx, kind, &ok, 150);
    ctx.judge_all(bad, Via::Cli, None);
}

fn compare_cases(ctx: &Ctx, pairs: &[(i64, i64)]) {
    let mut ok = vec![];
    for (a, b) in pairs {
        for op in [Op::Lt, Op::Lte, Op::Gt, Op::Gte, Op::Eq, Op::Ne] {
            let v = compare(op, *a, *b);
            ctx.label(&format!("op:{}", op.sym()));
            let near = (*a as i128 - *b as i128).abs() <= 1 || *a == i64::MIN || *b == i64::MIN || *a == i64::MAX || *b == i64::MAX;
            ok.push(Snippet{
                body: format!("print({} {} {})", int_src(*a), op.sym(), int_src(*b)),
                expect: format!("{v}\n"), nontrivial: near, note: format!("{a} {} {b}", op.sym()),
            });
        }
        // The division identity, evaluated by the interpreter itself.
        if *b != 0 && exact(Op::Div, *a, *b).is_some() {
            let (sa, sb) = (int_src(*a), int_src(*b));
            ok.push(Snippet{
                body: format!("print((({sa} / {sb}) * {sb} + {sa} % {sb}) == {sa})"),
                expect: "true\n".to_string(), nontrivial: *a < 0 || *b < 0, note: format!("(a/b)*b + a%b == a for {a}, {b}"),
            });
        }
    }
    judge_snippets(ctx, "compare", &ok, 200);
}

// Left-associated chains `x op1 c1 op2 c2`: every intermediate result must
// fit (or the chain stops with the diagnostic of that step), whatever the
// constants after it are.
fn chain_cases(ctx: &Ctx, vals: &[i64]) {
    let consts = [0i64, 1, -1, 2, -2];
    let mut ok = vec![];
    let mut bad = vec![];
    for x in vals {
        for op1 in sdmodel::ast::ARITH_OPS {
            for op2 in sdmodel::ast::ARITH_OPS {
                for c1 in consts {
                    for c2 in consts {
                        // Written with the variable first so that no operand is a
                        // compile-time constant pair only.
                        let src_var = format!("x := {}\nprint(x {} {} {} {})", int_src(*x), op1.sym(), int_src(c1), op2.sym(), int_src(c2));
                        let src_lit = format!("print({} {} {} {} {})", int_src(*x), op1.sym(), int_src(c1), op2.sym(), int_src(c2));
                        // Grouping follows the tiers: `* / %` bind tighter than `+ -`.
                        let tight = |o: Op| matches!(o, Op::Mul | Op::Div | Op::Mod);
                        let (first, second): ((Op, i64, i64), Box<dyn Fn(i64) -> (Op, i64, i64)>) =
                            if !tight(op1) && tight(op2) {
                                ((op2, c1, c2), Box::new(move |r| (op1, *x, r)))
                            } else {
                                ((op1, *x, c1), Box::new(move |r| (op2, r, c2)))
                            };
                        let nt = nontrivial(first.0, first.1, first.2);
                        match exact(first.0, first.1, first.2) {
                            None => {
                                let mut e = Expect::err(vec![]);
                                e.diag = vec![DiagPred::WellFormed{max_line: 3}, DiagPred::MsgContains(vec![first.1.to_string(), first.0.sym().to_string(), first.2.to_string()])];
                                if nt && (c1 + c2 == 0 || c2 == 0 || c2 == -1) {
                                    bad.push((Case{property: "C06".into(), kind: "chain".into(), srcs: vec![format!("{src_var}\n").into_bytes()], pred: Pred::Expect(e), note: "first step of a chain does not fit 64 bits".into()}, true));
                                }
                            },
                            Some(r) => {
                                let (o2, a2, b2) = second(r as i64);
                                match exact(o2, a2, b2) {
                                    Some(v) => {
                                        ok.push(Snippet{body: src_var, expect: format!("{v}\n"), nontrivial: nt || nontrivial(o2, a2, b2), note: "chain".into()});
                                        if nt {
                                            ok.push(Snippet{body: src_lit, expect: format!("{v}\n"), nontrivial: true, note: "chain of literals".into()});
                                        }
                                    },
                                    None => {
                                        let mut e = Expect::err(vec![]);
                                        e.diag = vec![DiagPred::WellFormed{max_line: 3}, DiagPred::MsgContains(vec![a2.to_string(), o2.sym().to_string(), b2.to_string()])];
                                        if nontrivial(o2, a2, b2) && (a2 > i64::MAX - 3 || a2 < i64::MIN + 3 || b2 == 0) {
                                            bad.push((Case{property: "C06".into(), kind: "chain".into(), srcs: vec![format!("{src_var}\n").into_bytes()], pred: Pred::Expect(e), note: "second step of a chain does not fit 64 bits".into()}, true));
                                        }
                                    },
                                }
                            },
                        }
                    }
                }
            }
        }
    }
    ctx.label_n("chains: value", ok.len() as u64);
    ctx.label_n("chains: error", bad.len() as u64);
    judge_snippets(ctx, "chain", &ok, 200);
    ctx.judge_all(bad, Via::Cli, None);
}

fn literal_cases(ctx: &Ctx, t: &mut Tape, n: u64) {
    let mut ok = vec![];
    let mut bad = vec![];
    let fixed: Vec<(String, Option<i128>)> = vec![
        ("9223372036854775807".into(), Some(i64::MAX as i128)),
        ("9_223_372_036_854_775_807".into(), Some(i64::MAX as i128)),
        ("0009223372036854775807".into(), Some(i64::MAX as i128)),
        ("9223372036854775808".into(), None),
        ("9_223_372_036_854_775_808".into(), None),
        ("18446744073709551616".into(), None),
        ("18446744073709551617".into(), None),
        ("20000000000000000000".into(), None),
        ("100000000000000000000".into(), None),
        ("36893488147419103232".into(), None),
        ("340282366920938463463374607431768211456".into(), None),
        ("00000000000000000042".into(), Some(42)), ("0_000_000_000_000_000_001_000".into(), Some(1000)),
        (format!("{}7", "0".repeat(40)), Some(7)), (format!("{}9223372036854775807", "0".repeat(25)), Some(i64::MAX as i128)),
        (format!("{}9223372036854775808", "0".repeat(25)), None), ("1000003".into(), Some(1000003)), ("4294967297".into(), Some(4294967297)),
        ("0".into(), Some(0)), ("00".into(), Some(0)), ("0_0".into(), Some(0)), ("1_".into(), Some(1)), ("1__0".into(), Some(10)),
    ];
    let mut lits = fixed;
    for _ in 0..n {
        // Random digit strings with separators; up to 21 digits so that some
        // exceed the range.
        let nd = 1 + t.pick(21);
        let mut digits = String::new();
        let mut text = String::new();
        for i in 0..nd {
            let dgt = if i == 0 && t.chance(1, 5) { 0 } else { t.pick(10) };
            if i == 0 && dgt == 0 && t.chance(1, 2) {
                // A run of leading zeros.
                let z = 1 + t.pick(30);
                for _ in 0..z {
                    text.push('0');
                }
            }
            let c = char::from_digit(dgt as u32, 10).unwrap();
            digits.push(c);
            text.push(c);
            if t.chance(1, 4) {
                text.push('_');
            }
        }
        let v: i128 = digits.parse::<i128>().unwrap();
        lits.push((text, if v <= i64::MAX as i128 { Some(v) } else { None }));
    }
    for (text, v) in lits {
        for neg in [false, true] {
            let (src, col) = match (neg, t.pick(3)) {
                (false, _) => (format!("print({text})"), 7),
                (true, 0) => (format!("print(-{text})"), 8),
                (true, 1) => (format!("print(- {text})"), 9),
                (true, _) => (format!("print(-\n{text})"), 1),
            };
            match v {
                Some(v) => {
                    let val = if neg { -v } else { v };
                    ok.push(Snippet{body: src, expect: format!("{val}\n"), nontrivial: text.contains('_') || text.starts_with('0') || neg, note: "literal".into()});
                },
                None => {
                    let line = if src.contains('\n') { 2 } else { 1 };
                    let mut e = Expect::err(vec![]);
                    e.diag = vec![DiagPred::WellFormed{max_line: 3}, DiagPred::Pos{line, col}, DiagPred::MsgContains(vec![text.clone()])];
                    bad.push((Case{property: "C06".into(), kind: "literal".into(), srcs: vec![format!("{src}\n").into_bytes()], pred: Pred::Expect(e), note: "literal above 2^63-1 must be rejected at the literal".into()}, true));
                },
            }
        }
    }
    ctx.label_n("literals", (ok.len() + bad.len()) as u64);
    judge_snippets(ctx, "literal", &ok, 100);
    ctx.judge_all(bad, Via::Cli, None);
}

fn range_cases(ctx: &Ctx) {
    let mut ok = vec![];
    let anchors = [0i64, i64::MAX, i64::MIN, 1 << 31, -(1 << 31), 1 << 32];
    for base in anchors {
        for da in -3i64..=3 {
            for db in -3i64..=3 {
                let (a, b) = match (base.checked_add(da), base.checked_add(db)) {
                    (Some(a), Some(b)) => (a, b),
                    _ => continue,
                };
                let mut items = vec![];
                let mut i = a;
                while i < b {
                    items.push(i);
                    i += 1;
                }
                let mut expect = String::from("[\n");
                for v in &items {
                    expect.push_str(&format!("    {v},\n"));
                }
                expect.push_str("]\n");
                ok.push(Snippet{
                    body: format!("print({} .. {})", int_src(a), int_src(b)),
                    expect, nontrivial: true, note: format!("range {a} .. {b}"),
                });
            }
        }
    }
    // Far-apart descending bounds are empty, not an error.
    for (a, b) in [(i64::MAX, i64::MIN), (i64::MAX, -2), (1, i64::MIN), (0, i64::MIN), (i64::MAX, 0)] {
        ok.push(Snippet{body: format!("print({} .. {})", int_src(a), int_src(b)), expect: "[\n]\n".into(), nontrivial: true, note: format!("descending range {a} .. {b}")});
        ok.push(Snippet{body: format!("for kv in {} .. {} {{\n    print(kv)\n}}\nprint(0)", int_src(a), int_src(b)), expect: "0\n".into(), nontrivial: true, note: format!("for over descending range {a} .. {b}")});
    }
    ctx.label_n("ranges", ok.len() as u64);
    judge_snippets(ctx, "range", &ok, 60);
}

fn random_pair(t: &mut Tape) -> (i64, i64) {
    sdmodel::gen::arith_pair(t)
}

// Every small multiplier m with the partners around (2^63-1)/m and -2^63/m:
// the products land within m of the limit on either side, and one operand is
// far above 2^53.
fn factor_sweep(max_m: i64) -> Vec<(i64, i64)> {
    let mut out = vec![];
    for m in 2..=max_m {
        for lim in [i64::MAX, i64::MIN] {
            let q = lim / m;
            for d in [-1i64, 0, 1, 2] {
                let b = q.wrapping_add(if lim < 0 { -d } else { d });
                out.push((b, m));
                if d == 1 {
                    out.push((m, b));
                    out.push((-m, b.wrapping_neg()));
                }
            }
        }
    }
    out
}

pub fn run(ctx: &Ctx) {
    ctx.set_rule("exhaustive grid of boundary values squared x {+ - * / %} x {plain, op-assign on variable / list element / .k / [\"k\"]} and x {< <= > >= == !=}, the division identity, left-associated chains x op1 c1 op2 c2 over boundary x and constants {0, +-1, +-2} (every intermediate step must fit), literals with separators / leading zeros / out-of-range values, ranges around every boundary, every multiplier m <= 1200 (thorough: 40000) with the partners (2^63-1)/m + {-1, 0, 1, 2} and -2^63/m likewise, plus random pairs (64-bit, 2^k +- 2, 32-bit magnitudes, random widths, small multipliers, divisor-shaped partners); oracle: exact i128 arithmetic (result printed iff it fits i64, otherwise exit 103 naming operands and operator in order). Non-trivial = exact result differs from the wrapping one, zero divisor, negative operand of / or %, or an operand within 1 of +-2^63; distinct = distinct source texts");
    ctx.replay_corpus(None);
    let vals = boundary_values(ctx.tier == Tier::Thorough);
    ctx.set_extra("grid_values", serde_json::json!(vals.len()));
    let mut pairs = vec![];
    for a in &vals {
        for b in &vals {
            pairs.push((*a, *b));
        }
    }
    arith_cases(ctx, &pairs, &FORMS, "grid");
    compare_cases(ctx, &pairs);
    ctx.mark_exhaustive(&format!("{0} x {0} boundary grid x 5 arithmetic operators x 5 forms, x 6 comparisons", vals.len()));
    range_cases(ctx);
    let near: Vec<i64> = vals.iter().copied().filter(|v| *v >= i64::MAX - 2 || *v <= i64::MIN + 2 || v.abs() <= 3 || v.abs() == 1 << 62 || v.abs() == 3037000500).collect();
    chain_cases(ctx, &near);
    let mut t = sdmodel::tape::tape_from_seed(ctx.sub_seed("literals", 0), 40_000);
    literal_cases(ctx, &mut t, ctx.n(300, 5_000));
    // Small multipliers with partners at the limit.
    let sweep = factor_sweep(if ctx.tier == Tier::Quick { 1200 } else { 40_000 });
    ctx.label_n("factor sweep pairs", sweep.len() as u64);
    arith_cases(ctx, &sweep, &["plain"], "factor_sweep");
    // Random pairs.
    let n = ctx.n(6_000, 400_000);
    let mut t = sdmodel::tape::tape_from_seed(ctx.sub_seed("pairs", 0), (n * 12) as usize);
    let mut rp = vec![];
    for _ in 0..n {
        rp.push(random_pair(&mut t));
    }
    let forms: &[&str] = if ctx.tier == Tier::Quick { &["plain", "elem", "shadow", "shadow_read", "local_read"] } else { &FORMS };
    arith_cases(ctx, &rp, forms, "random");
    compare_cases(ctx, &rp);
}
