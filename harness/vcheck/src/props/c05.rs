// C05 — containers are shared by reference; building operations return fresh
// ones. Exhaustive short histories of alias / copy / mutate operations over
// three variables, every history ending with a full observation (values,
// identities, equalities); differential against the reference heap model.

use std::collections::HashSet;
use std::sync::Mutex;

use rayon::prelude::*;

use sdmodel::ast::*;
use sdmodel::gen;
use sdmodel::interp;
use sdmodel::print;

use crate::engine::*;
use crate::pred::*;
use crate::props::common::*;

const HEAP_VARIANTS: [&str; 7] = ["assign_copies", "args_copy", "sum_reuses_left", "spread_aliases", "range_read_aliases", "collect_aliases", "for_live"];
const PAIRS: [(&str, &str); 3] = [("a", "b"), ("b", "c"), ("c", "a")];
const LIST_KINDS: usize = 18;
const OBJ_KINDS: usize = 11;

fn pv(e: Expr) -> Stmt { sdmodel::ast::print(e) }

fn is_list(e: Expr) -> Expr { bin(Op::Eq, call(tprop(e, "type"), vec![]), string("list")) }

fn list_op(kind: usize, s: &str, d: &str, k: i64) -> Vec<Stmt> {
    let (sv, dv) = (|| var(s), || var(d));
    match kind {
        0 => vec![assign(dv(), sv())],
        1 => vec![assign(dv(), list(vec![sv(), int(k)]))],
        2 => vec![assign(index(sv(), int(0)), int(k))],
        3 => vec![expr_stmt(call(var("poke"), vec![sv(), int(k)]))],
        4 => vec![assign(var("g"), func(vec![], false, vec![assign(index(sv(), int(0)), int(k))])), expr_stmt(call(var("g"), vec![]))],
        5 => vec![assign(dv(), call(var("same"), vec![sv()]))],
        6 => vec![assign(dv(), list_items(vec![spread(sv())], false))],
        7 => vec![assign(dv(), bin(Op::Sum, sv(), list(vec![])))],
        8 => vec![assign(dv(), range_index(sv(), None, None))],
        9 => vec![assign(list_items(vec![item(dv())], true), sv())],
        10 => vec![assign(dv(), call_items(var("rest"), vec![spread(sv())]))],
        11 => vec![assign(dv(), sv()), op_assign(dv(), Op::Sum, list(vec![int(k)]))],
        12 => vec![assign(range_index(sv(), Some(int(0)), Some(int(1))), list(vec![int(k)]))],
        13 => vec![if_(bin(Op::Eq, call(tprop(index(sv(), int(0)), "type"), vec![]), string("int")), vec![op_assign(index(sv(), int(0)), Op::Sum, int(1))], None)],
        14 => vec![if_(is_list(index(sv(), int(0))), vec![assign(dv(), index(sv(), int(0)))], None)],
        15 => vec![if_(is_list(index(sv(), int(0))), vec![assign(index(index(sv(), int(0)), int(0)), int(k))], None)],
        16 => vec![assign(index(dv(), int(1)), sv())],
        _ => vec![if_(is_list(index(sv(), int(0))), vec![op_assign(index(sv(), int(0)), Op::Sum, list(vec![int(k)]))], None)],
    }
}

fn obj_op(kind: usize, s: &str, d: &str, k: i64) -> Vec<Stmt> {
    let (sv, dv) = (|| var(s), || var(d));
    match kind {
        0 => vec![assign(dv(), sv())],
        1 => vec![assign(dv(), obj(vec![pair("k", sv()), pair("n", int(k))]))],
        2 => vec![assign(prop(sv(), "n"), int(k))],
        3 => vec![assign(index(sv(), string("z")), int(k))],
        4 => vec![expr_stmt(call(var("pokek"), vec![sv(), int(k)]))],
        5 => vec![assign(dv(), obj(vec![Prop::Single{e: sv(), spread: true, collect: false}]))],
        6 => vec![assign(obj(vec![Prop::Single{e: dv(), spread: false, collect: true}]), sv())],
        7 => vec![op_assign(prop(sv(), "n"), Op::Sum, int(1))],
        8 => vec![if_(bin(Op::Eq, call(tprop(prop(sv(), "k"), "type"), vec![]), string("object")), vec![assign(prop(prop(sv(), "k"), "n"), int(k))], None)],
        9 => vec![assign(prop(dv(), "k"), sv())],
        _ => vec![assign(dv(), call(var("same"), vec![sv()]))],
    }
}

fn observe() -> Vec<Stmt> {
    let mut v = vec![];
    for n in ["a", "b", "c"] {
        v.push(pv(var(n)));
    }
    for (x, y) in [("a", "b"), ("a", "c"), ("b", "c")] {
        v.push(pv(bin(Op::RefEq, var(x), var(y))));
        v.push(pv(bin(Op::Eq, var(x), var(y))));
    }
    v
}

fn helpers() -> Vec<Stmt> {
    vec![
        fn_decl("poke", vec![var("p"), var("v")], false, vec![assign(index(var("p"), int(0)), var("v")), assign(var("p"), list(vec![var("v")]))]),
        fn_decl("pokek", vec![var("p"), var("v")], false, vec![assign(prop(var("p"), "n"), var("v")), assign(var("p"), obj(vec![]))]),
        fn_decl("same", vec![var("p")], false, vec![ret(var("p"))]),
        fn_decl("rest", vec![var("r")], true, vec![ret(var("r"))]),
        declare(var("g"), null()),
    ]
}

fn history(digits: &[usize], objects: bool) -> Prog {
    let mut stmts = helpers();
    if objects {
        stmts.push(declare(var("a"), obj(vec![pair("k", int(1)), pair("n", int(1))])));
        stmts.push(declare(var("b"), obj(vec![pair("k", obj(vec![pair("k", int(2)), pair("n", int(2))])), pair("n", int(3))])));
        stmts.push(declare(var("c"), obj(vec![pair("k", int(4)), pair("n", int(5))])));
    } else {
        stmts.push(declare(var("a"), list(vec![int(1), int(2)])));
        stmts.push(declare(var("b"), list(vec![list(vec![int(3)]), int(4)])));
        stmts.push(declare(var("c"), list(vec![int(5), int(6)])));
    }
    for (i, d) in digits.iter().enumerate() {
        let (s, t) = PAIRS[d % 3];
        let kind = d / 3;
        let k = 70 + i as i64;
        stmts.extend(if objects { obj_op(kind, s, t, k) } else { list_op(kind, s, t, k) });
    }
    stmts.extend(observe());
    Prog::new(stmts)
}

fn enumerate(ctx: &Ctx, len: usize, objects: bool, sample_every: u64) {
    let base = 3 * if objects { OBJ_KINDS } else { LIST_KINDS } as u64;
    let total = base.pow(len as u32);
    let seen: Mutex<HashSet<u64>> = Mutex::new(HashSet::new());
    (0..total).into_par_iter().for_each(|code| {
        if ctx.stopped() {
            return;
        }
        if sample_every > 1 && (code.wrapping_mul(0x9E3779B97F4A7C15) >> 20) % sample_every != ctx.seed % sample_every {
            return;
        }
        let mut digits = vec![];
        let mut c = code;
        for _ in 0..len {
            digits.push((c % base) as usize);
            c /= base;
        }
        let prog = history(&digits, objects);
        let printed = print::print_canonical(&prog);
        if !seen.lock().unwrap().insert(fnv(printed.src.as_bytes())) {
            return;
        }
        let rr = interp::run(&prog);
        let expect = match ref_expect(&printed, &rr, DiagLevel::None) {
            Some(e) => e,
            None => { ctx.exclude("reference discards (cyclic value printed / compared)"); return; },
        };
        let nd = count_variants(ctx, &prog, &rr, &HEAP_VARIANTS);
        label_outcome(ctx, &rr);
        let case = Case{property: "C05".into(), kind: if objects { "object_history" } else { "list_history" }.into(), srcs: vec![printed.src.into_bytes()], pred: Pred::Expect(expect), note: format!("history {digits:?}")};
        let via = if code % 16 == 0 { Via::Cli } else { Via::Fast };
        ctx.judge(&case, nd > 0, via, None);
    });
}

fn scalar_cases() -> Vec<(Case, bool)> {
    let srcs = [
        ("s := \"ab\"\nt := s\nt += \"x\"\nprint(s)\nprint(t)\n", "ab\nabx\n"),
        ("n := 1\nm := n\nm += 1\nm *= 5\nprint(n)\nprint(m)\n", "1\n10\n"),
        ("b := true\nc := b\nc = c && false\nprint(b)\nprint(c)\n", "true\nfalse\n"),
        ("s := \"ab\"\nfn f(p) {\n    p += \"!\"\n    return p\n}\nprint(f(s))\nprint(s)\n", "ab!\nab\n"),
        ("xs := [\"ab\", 1, null]\nt := xs[0]\nt += \"x\"\nu := xs[1]\nu += 1\nprint(xs)\n", "[\n    ab,\n    1,\n    <null>,\n]\n"),
        ("o := {\"s\": \"ab\"}\nt := o.s\nt += \"x\"\nprint(o.s)\no.s += \"y\"\nprint(t)\nprint(o.s)\n", "ab\nabx\naby\n"),
        ("s := \"abc\"\nt := s[0:2]\nu := s + \"d\"\nprint(s)\nfor [i, ch] in s {\n    ch += \"!\"\n}\nprint(s)\n", "abc\nabc\n"),
        ("n := null\nm := n\nm = 1\nprint(n)\n", "<null>\n"),
        ("xs := 0 .. 3\nys := 0 .. 3\nprint(xs === ys)\nprint(xs == ys)\nys[0] = 9\nprint(xs)\n", "false\ntrue\n[\n    0,\n    1,\n    2,\n]\n"),
        ("a := [1]\nb := a + []\nc := [] + a\nd := [a..]\ne := a[:]\nprint([a === b, a === c, a === d, a === e, b === c])\n", "[\n    false,\n    false,\n    false,\n    false,\n    false,\n]\n"),
        ("o := {\"k\": 1}\np := {o..}\n{..q} := o\nprint([o === p, o === q, p === q, o == p, o == q])\n", "[\n    false,\n    false,\n    false,\n    true,\n    true,\n]\n"),
        ("a := [1]\nb := a\nb += []\nprint(a === b)\nb[0] = 2\nprint(a)\n", "false\n[\n    1,\n]\n"),
        ("fn keep(..r) {\n    r[0] = 0\n    return r\n}\nxs := [5, 6]\nys := keep(xs..)\nprint(xs)\nprint(ys === xs)\n", "[\n    5,\n    6,\n]\nfalse\n"),
        ("fn wrap(..args) {\n    inner(args..)\n    return args\n}\nfn inner(..r) {\n    r[0] = 0\n}\nprint(wrap(1, 2))\n", "[\n    1,\n    2,\n]\n"),
    ];
    srcs.iter().map(|(s, e)| (Case{property: "C05".into(), kind: "catalogue".into(), srcs: vec![s.as_bytes().to_vec()], pred: Pred::Expect(Expect::ok(e.as_bytes().to_vec())), note: "immutability of scalars / freshness of built containers".into()}, true)).collect()
}

// The same freshness and aliasing facts over containers and strings of 63 to
// 300 items: sizes at which a growth policy, a cache or a bulk path could
// start to matter.
fn large_cases(ctx: &Ctx) -> Vec<(Case, bool)> {
    let mut out = vec![];
    for n in [31i64, 32, 33, 63, 64, 65, 100, 127, 128, 129, 200, 300] {
        let lit: Vec<String> = (0..n).map(|k| k.to_string()).collect();
        for (how, init) in [("range", format!("0 .. {n}")), ("literal", format!("[{}]", lit.join(", "))), ("grown", "[]".to_string())] {
            let grow = if how == "grown" { format!("for [_, g] in 0 .. {n} {{\n    xs += [g]\n}}\n") } else { String::new() };
            let src = format!("fn len(l) {{\n    n := 0\n    for e in l {{\n        n += 1\n    }}\n    return n\n}}\nfn indices() {{\n    return 0 .. {n}\n}}\na := indices()\nb := indices()\nprint(a === b)\na[0] = 42\nprint(b[0])\nc := indices()\nprint(c[0])\ns := 0\nfor [_, i] in 0 .. {n} {{\n    s += i\n}}\nprint(s)\nxs := {init}\n{grow}xs += [1]\nys := xs\nprint(xs === ys)\nys += [2]\nprint(xs === ys)\nprint(len(xs))\nprint(len(ys))\nys += [3]\nys[0] = 9\nprint(len(xs))\nprint(xs[0])\nfn app(p) {{\n    p += [1000]\n    p[0] = 1000\n    return p\n}}\nzs := app(xs)\nprint(len(xs))\nprint(xs[0])\nprint(zs === xs)\nprint(len(zs))\nfn poke(p) {{\n    p[5] = 555\n}}\npoke(xs)\nprint(xs[5])\nws := xs[:]\nprint(ws === xs)\nws[1] = -1\nprint(xs[1])\nvs := [xs..]\nvs[2] = -2\nprint(xs[2])\nus := xs + []\nus[3] = -3\nprint(xs[3])\n[..ts] := xs\nts[4] = -4\nprint(xs[4])\nhs := xs[1:]\nhs[5] = -6\nprint(xs[6])\nxs[5] = 5\nprint(xs == ((0 .. {n}) + [1]))\n");
            let want = format!("false\n0\n0\n{}\ntrue\nfalse\n{}\n{}\n{}\n0\n{}\n0\nfalse\n{}\n555\nfalse\n1\n2\n3\n4\n6\ntrue\n", n * (n - 1) / 2, n + 1, n + 2, n + 1, n + 1, n + 2);
            ctx.label("large containers");
            out.push((Case{property: "C05".into(), kind: "large".into(), srcs: vec![src.into_bytes()], pred: Pred::Expect(Expect::ok(want.into_bytes())), note: format!("list of {n} items ({how}): every building operation is fresh, aliases are shared")}, true));
        }
        let half: Vec<String> = (0..n / 2).map(|k| format!("\"k{k}\": {k}")).collect();
        let rest: String = (n / 2..n).map(|k| format!("o[\"k{k}\"] = {k}\n")).collect();
        let src = format!("o := {{{}}}\n{rest}p :=", half.join(", "));
        let src = src + &format!(" {{o..}}\nprint(p === o)\nprint(p == o)\np[\"k0\"] = -1\nprint(o.k0)\nq := o\nq[\"k1\"] = -5\nprint(o.k1)\nprint(q === o)\n{{..r}} := o\nr[\"k2\"] = -6\nprint(o.k2)\nfn setk(t) {{\n    t.k3 = -7\n    t = {{}}\n    t.k4 = 0\n}}\nsetk(o)\nprint(o.k3)\nprint(o.k4)\ns := \"\"\nfor [_, i] in 0 .. {n} {{\n    s += \"é\"\n}}\nt := s\nt += \"x\"\nprint(s == t)\nprint((s + \"x\") == t)\nw := s\nw += \"\"\nprint(w == s)\n");
        let want = "false\ntrue\n0\n-5\ntrue\n2\n-7\n4\nfalse\ntrue\ntrue\n".to_string();
        ctx.label("large containers");
        out.push((Case{property: "C05".into(), kind: "large".into(), srcs: vec![src.into_bytes()], pred: Pred::Expect(Expect::ok(want.into_bytes())), note: format!("object of {n} keys and string of {n} characters")}, true));
    }
    out
}

// A building operation returns a fresh container whatever expression names
// its operand: a call that returns an existing list, a property, an element,
// a parenthesised name ... (and an alias stays an alias through the same).
fn operand_form_cases(ctx: &Ctx) -> Vec<(Case, bool)> {
    let pre = "xs := [1, 2, 3]\nob := {\"a\": 1, \"b\": 2}\nbox := {\"items\": xs, \"props\": ob, \"all\": fn () {\n    return this.items\n}, \"every\": fn () {\n    return this.props\n}}\nfn same(v) {\n    return v\n}\nfn keep(..r) {\n    return r\n}\nholder := [xs, ob]\n";
    let names = ["xs", "same(xs)", "box.all()", "box.items", "box[\"items\"]", "holder[0]", "(xs)", "[xs][0]", "same(same(xs))", "(fn () { return xs; })()"];
    let builders = ["[@..]", "@[:]", "@ + []", "[] + @", "@[0:3]", "keep(@..)", "[@.., @..][0:3]", "[@..][:]"];
    let mut out = vec![];
    for e in names {
        for b in builders {
            let built = b.replace('@', e);
            let src = format!("{pre}d := {built}\nprint([d === xs, d == xs])\nd[0] = 99\nprint(xs)\nal := {e}\nprint(al === xs)\nal[1] = 77\nprint(xs)\n");
            let want = "[\n    false,\n    true,\n]\n[\n    1,\n    2,\n    3,\n]\ntrue\n[\n    1,\n    77,\n    3,\n]\n";
            ctx.label("building operation on an operand written as an expression");
            out.push((Case{property: "C05".into(), kind: "operand_form".into(), srcs: vec![src.into_bytes()], pred: Pred::Expect(Expect::ok(want.as_bytes().to_vec())), note: format!("{built}: fresh; {e}: an alias")}, true));
        }
        // Destructuring rest and += .
        let src = format!("{pre}[..d] := {e}\nprint(d === xs)\nd[0] = 99\ng := {e}\ng += [4]\nprint(g === xs)\nprint(xs)\n");
        ctx.label("building operation on an operand written as an expression");
        out.push((Case{property: "C05".into(), kind: "operand_form".into(), srcs: vec![src.into_bytes()], pred: Pred::Expect(Expect::ok(b"false\nfalse\n[\n    1,\n    2,\n    3,\n]\n".to_vec())), note: format!("collected rest and += on {e}")}, true));
    }
    for e in ["ob", "same(ob)", "box.every()", "box.props", "holder[1]", "(ob)"] {
        let src = format!("{pre}d := {{{e}..}}\nprint([d === ob, d == ob])\nd.a = 99\nprint(ob.a)\n{{..r}} := {e}\nr.b = 98\nprint(ob.b)\nal := {e}\nal.a = 5\nprint(ob.a)\n");
        ctx.label("building operation on an operand written as an expression");
        out.push((Case{property: "C05".into(), kind: "operand_form".into(), srcs: vec![src.into_bytes()], pred: Pred::Expect(Expect::ok(b"[\n    false,\n    true,\n]\n1\n2\n5\n".to_vec())), note: format!("object spread / collected rest of {e}")}, true));
    }
    out
}

// The same building expression evaluated several times (a maker function
// called twice, three loop turns, a closure, a method) yields containers that
// share nothing the expression itself built - at any depth - and exactly what
// it took from outside.
fn repeated_building_cases(ctx: &Ctx) -> Vec<(Case, bool)> {
    // (expression, path to an inner container, in-place change below the top)
    let builders = [
        ("[[0, 0], [0, 0]]", "[0]", "[0][1] = 7"), ("[[1], {\"k\": [2]}]", "[1]", "[1].k = 7"), ("{\"k\": [1, 2], \"o\": {\"p\": 1}}", ".k", ".o.p = 7"),
        ("[[[1]]]", "[0][0]", "[0][0][0] = 7"), ("[[], {}]", "[0]", "[1].n = 7"), ("[[1], [2]][0:1]", "[0]", "[0][0] = 7"), ("[[1]] + [[2]]", "[1]", "[1][0] = 7"),
        ("[[[1, 2]]..]", "[0]", "[0][0] = 7"), ("{{\"k\": [1]}..}", ".k", ".k[0] = 7"), ("[shared, [1]]", "[0]", "[0][0] = 7"), ("[shared, [1]]", "[1]", "[1][0] = 7"),
        ("[0 .. 2, 0 .. 2]", "[0]", "[0][0] = 7"), ("[$\"a${word}\", [1]]", "[1]", "[1][0] = 7"), ("{\"k\": {\"k\": {\"k\": 1}}}", ".k.k", ".k.k.k = 7"),
        ("[[1, 2], [3]][:]", "[1]", "[1][0] = 7"), ("[1, [2, [3, [4]]]]", "[1][1][1]", "[1][1][1][0] = 7"),
    ];
    let ways = [
        "fn mk() {\n    return @\n}\na := mk()\nb := mk()\nc := mk()\n",
        "kept := []\nfor [_, t] in [0, 1, 2] {\n    kept += [@]\n}\n[a, b, c] := kept\n",
        "kept := []\ni := 0\nwhile i < 3 {\n    i += 1\n    kept = [kept.., @]\n}\n[a, b, c] := kept\n",
        "mk := fn () {\n    return @\n}\na := mk()\nb := mk()\nc := mk()\n",
        "o := {\"mk\": fn () {\n    v := @\n    return v\n}}\na := o.mk()\nb := o.mk()\nc := o.mk()\n",
        "fn mk(n) {\n    if n == 0 {\n        return []\n    }\n    return [@] + mk(n - 1)\n}\n[a, b, c] := mk(3)\n",
    ];
    let mut srcs = vec![];
    for (e, inner, change) in builders {
        for w in ways {
            let src = format!("shared := [5]\nword := \"w\"\n{}print([a === b, b === c, a == b])\nprint([a{inner} === b{inner}, b{inner} === c{inner}])\na{change}\nprint(a)\nprint(b)\nprint(c)\nprint(shared)\n", w.replace('@', e));
            srcs.push((src, format!("`{e}` evaluated three times; `a{change}`")));
        }
    }
    source_cases(ctx, "C05", "repeated_building", "one building expression evaluated several times", srcs)
}

pub fn run(ctx: &Ctx) {
    ctx.set_rule("all histories of length <= 3 (quick; length 4 sampled; thorough: length 4 complete, 5 sampled) over 18 list operations x 3 variable pairs {alias, store in a container, element / range / nested / op-assign mutation, mutation inside a function that also rebinds its parameter, mutation inside a closure, return from a function, [s..], s + [], s[:], [..d] = s, rest parameter from spread, d = s; d += [k], store into another container, += with a list on an element} and 11 object operations likewise, every history followed by print of all three variables and all pairwise === and ==; a catalogue for scalar immutability and freshness of every building operation; random longer programs with the aliasing profile; oracle: reference heap model; beyond the small scope: every building operation and alias on lists of 31..300 elements built three ways, objects of that many keys and long strings (expected values computed in the harness); one random program in five from the big profile; 8 building operations x 10 ways of writing the operand (call returning an existing list, method, property, element, ...): each result fresh, each operand an alias; 16 building expressions with inner containers (literals, slices, concatenations, spreads, ranges, one taking an outer list) x 6 ways of evaluating the same text three times (named / anonymous maker, method, for / while turns, recursion): the results share exactly what came from outside, at every depth. Non-trivial = the history distinguishes at least one of: assignment copies / argument passing copies / + reuses its left operand (incl. += in place) / single spread aliases / full range read aliases / collect aliases / for iterates live; distinct = distinct source texts");
    ctx.replay_corpus(None);
    ctx.judge_all(scalar_cases(), Via::Cli, None);
    ctx.judge_all(large_cases(ctx), Via::Cli, None);
    ctx.judge_all(operand_form_cases(ctx), Via::Cli, None);
    ctx.judge_all(repeated_building_cases(ctx), Via::Cli, None);
    for len in 1..=2 {
        enumerate(ctx, len, false, 1);
        enumerate(ctx, len, true, 1);
    }
    enumerate(ctx, 3, true, 1);
    if ctx.tier == Tier::Quick {
        enumerate(ctx, 3, false, 6);
        enumerate(ctx, 4, true, 60);
        ctx.mark_exhaustive("list histories of length <= 2, object histories of length <= 3");
    } else {
        enumerate(ctx, 3, false, 1);
        enumerate(ctx, 4, true, 1);
        enumerate(ctx, 4, false, 6);
        ctx.mark_exhaustive("list histories of length <= 3, object histories of length <= 4");
    }
    let mut cfg = gen::GenCfg::balanced();
    cfg.w_idiom = 14;
    cfg.w_elem_assign = 12;
    cfg.w_destructure = 6;
    cfg.sloppy = 1;
    let mut big = gen::GenCfg::big();
    big.w_idiom = 14;
    big.w_elem_assign = 12;
    let n = ctx.n(20_000, 800_000);
    let via = if ctx.tier == Tier::Quick { Via::Cli } else { Via::Fast };
    ctx.proptest_tapes("aliasing_random", n, 700, via, None, |t| {
        let which = if t.chance(1, 5) { ctx.label("big profile"); &big } else { &cfg };
        let (case, rr, prog, _) = crate::props::c01::build_case("C05", "random", t, which, 0, ctx, DiagLevel::None)?;
        let nd = if t.chance(1, 3) { count_variants(ctx, &prog, &rr, &HEAP_VARIANTS) } else { 0 };
        Some((case, nd > 0))
    });
}
