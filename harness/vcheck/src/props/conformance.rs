// Validates the harness itself: the reference interpreter must reproduce the
// expected stdout / exit status of every script in the repository's own test
// suite, and printing the model AST must round-trip through the real parser.

use sdmodel::dbgtree;
use sdmodel::interp;
use sdmodel::print;

use crate::backend::*;
use crate::repotests;
use crate::util::*;

pub fn run() -> i32 {
    let tests = repotests::load();
    let mut bad = 0;
    let mut n = 0;
    let mut discarded = 0;
    for t in &tests {
        let front_error = t.code == 103 && t.stdout.is_empty() && model_from_source(&t.src).is_err();
        if front_error {
            continue;
        }
        let prog = match model_from_source(&t.src) {
            Ok(p) => p,
            Err(e) => {
                println!("CONVERT-FAIL {}: {e}", t.name);
                bad += 1;
                continue;
            },
        };
        n += 1;
        let r = interp::run(&prog);
        match &r.outcome {
            interp::Outcome::Discard(why) => {
                discarded += 1;
                println!("discard {}: {why}", t.name);
                continue;
            },
            _ => {},
        }
        let exp_ok = t.code == 0;
        if r.out_str() != t.stdout || r.is_ok() != exp_ok {
            bad += 1;
            println!("MISMATCH {}: expected code {} stdout {:?}; reference says {:?} stdout {:?}", t.name, t.code, t.stdout, r.outcome, r.out_str());
        }
        // Round trip: canonical print -> real parser -> same tree (with positions).
        let printed = print::print_canonical(&prog);
        match inproc_parse(&printed.src) {
            Ok(ParseRes::Tree(tree)) => {
                let got = dbgtree::parse_debug(&tree).unwrap();
                let img = dbgtree::Image{printed: Some(&printed), n_ids: prog.n_ids as usize}.prog(&prog);
                if let Some(d) = dbgtree::first_diff(&img, &got, "") {
                    bad += 1;
                    println!("ROUNDTRIP {}: {d}\n{}", t.name, printed.src);
                }
            },
            Ok(ParseRes::Rejected{line, col, msg}) => {
                bad += 1;
                println!("ROUNDTRIP-REJECT {}: {line}:{col}: {msg}\n{}", t.name, printed.src);
            },
            Err(e) => println!("worker: {e:?}"),
        }
    }
    println!("conformance: {n} scripts, {discarded} discarded, {bad} problems");
    if bad == 0 { 0 } else { 1 }
}
