// C13 — destructuring, spread and collect are inverse, lossless
// rearrangements. Exhaustive patterns x sources in the four binding
// positions, all splits of argument lists into plain and spread arguments;
// oracle: reference binding semantics plus round-trip laws evaluated by the
// interpreter itself.

use rayon::prelude::*;

use sdmodel::ast::*;
use sdmodel::interp;
use sdmodel::print;

use crate::engine::*;
use crate::pred::*;
use crate::props::common::*;

fn pv(e: Expr) -> Stmt { sdmodel::ast::print(e) }

#[derive(Clone)]
struct Pat {
    e: Expr,
    names: Vec<String>,
    // Only plain names (and `_`) with an optional final rest: the round-trip
    // law can be stated.
    simple: bool,
    has_rest: bool,
    label: &'static str,
}

// Item patterns for position `i` of a list pattern.
fn item_pats(i: usize) -> Vec<Pat> {
    let n = |s: &str| format!("{s}{i}");
    vec![
        Pat{e: var(&n("v")), names: vec![n("v")], simple: true, has_rest: false, label: "name"},
        Pat{e: var("_"), names: vec![], simple: true, has_rest: false, label: "_"},
        Pat{e: list(vec![var(&n("p")), var(&n("q"))]), names: vec![n("p"), n("q")], simple: false, has_rest: false, label: "nested list pattern"},
        Pat{e: list_items(vec![item(var(&n("h"))), item(var(&n("t")))], true), names: vec![n("h"), n("t")], simple: false, has_rest: true, label: "nested list pattern with collect"},
        Pat{e: obj(vec![Prop::Pair(string("a"), var(&n("oa")))]), names: vec![n("oa")], simple: false, has_rest: false, label: "nested object pattern"},
    ]
}

fn list_patterns(max_width: usize) -> Vec<Pat> {
    let mut out = vec![];
    fn rec(i: usize, width: usize, cur: Vec<Pat>, out: &mut Vec<Pat>) {
        if i == width {
            for collect in [false, true] {
                let mut items: Vec<Item> = cur.iter().map(|p| item(p.e.clone())).collect();
                let mut names: Vec<String> = cur.iter().flat_map(|p| p.names.clone()).collect();
                let simple = cur.iter().all(|p| p.simple);
                if collect {
                    items.push(item(var("rest")));
                    names.push("rest".to_string());
                }
                out.push(Pat{e: list_items(items, collect), names, simple, has_rest: collect, label: "list pattern"});
            }
            return;
        }
        for p in item_pats(i) {
            // Nested patterns only in the first two positions (width bound).
            if !p.simple && i >= 2 {
                continue;
            }
            let mut c = cur.clone();
            c.push(p);
            rec(i + 1, width, c, out);
        }
    }
    for w in 0..=max_width {
        rec(0, w, vec![], &mut out);
    }
    out
}

fn list_sources() -> Vec<(Expr, &'static str)> {
    let el = |i: i64| -> Expr {
        if i % 2 == 0 { list(vec![int(i * 10), int(i * 10 + 1)]) } else { obj(vec![pair("a", int(i)), pair("b", int(i + 1))]) }
    };
    let mut v: Vec<(Expr, &'static str)> = vec![];
    for n in 0..=5i64 {
        v.push((list((0..n).map(el).collect()), "list of containers"));
    }
    for n in 0..=5i64 {
        v.push((list((0..n).map(|i| int(i + 1)).collect()), "list of ints"));
    }
    v.push((null(), "null"));
    v.push((int(5), "int"));
    v.push((string("ab"), "string"));
    v.push((obj(vec![pair("a", int(1))]), "object"));
    v
}

fn object_patterns() -> Vec<Pat> {
    // Entries over keys a, b, k.
    let entries: Vec<(Prop, Vec<String>, &'static str)> = vec![
        (Prop::Single{e: var("a"), spread: false, collect: false}, vec!["a".into()], "shorthand"),
        (Prop::Pair(string("b"), var("bb")), vec!["bb".into()], "rename"),
        (Prop::Pair(string("b"), var("_")), vec![], "rename to _"),
        (Prop::Pair(string("k"), list(vec![var("k0"), var("k1")])), vec!["k0".into(), "k1".into()], "nested list pattern"),
        (Prop::Pair(bin(Op::Sum, string("a"), string("")), var("ca")), vec!["ca".into()], "computed key"),
        (Prop::Pair(string("k"), obj(vec![Prop::Single{e: var("inner"), spread: false, collect: true}])), vec!["inner".into()], "nested object collect"),
        (Prop::Pair(string("zz"), var("missing")), vec!["missing".into()], "absent key"),
    ];
    let mut out = vec![];
    let n = entries.len();
    for mask in 0..(1u32 << n) {
        if mask.count_ones() > 3 {
            continue;
        }
        // `a` twice (shorthand + computed) would bind different names: fine.
        for collect in [false, true] {
            let mut props = vec![];
            let mut names = vec![];
            for (i, (p, ns, _)) in entries.iter().enumerate() {
                if mask & (1 << i) != 0 {
                    props.push(p.clone());
                    names.extend(ns.clone());
                }
            }
            if collect {
                props.push(Prop::Single{e: var("rest"), spread: false, collect: true});
                names.push("rest".into());
            }
            out.push(Pat{e: obj(props), names, simple: false, has_rest: collect, label: "object pattern"});
        }
    }
    out
}

fn object_sources() -> Vec<(Expr, &'static str)> {
    let all: Vec<(&str, Expr)> = vec![("a", int(1)), ("b", string("two")), ("k", list(vec![int(3), int(4)])), ("z", null()), ("q", obj(vec![pair("x", int(5))]))];
    let mut v = vec![];
    for n in 0..=5 {
        v.push((obj(all.iter().take(n).map(|(k, e)| pair(k, e.clone())).collect()), "object"));
    }
    v.push((obj(vec![pair("k", obj(vec![pair("m", int(1)), pair("n", int(2))])), pair("a", int(0)), pair("b", int(0))]), "object with object under k"));
    v.push((list(vec![int(1)]), "list"));
    v.push((null(), "null"));
    v.push((string("s"), "string"));
    v
}

fn prints(names: &[String]) -> Vec<Stmt> { names.iter().map(|n| pv(var(n))).collect() }

// The four binding positions.
fn positions(pat: &Pat, src: &Expr) -> Vec<(&'static str, Vec<Stmt>)> {
    let mut out = vec![];
    let mut body = vec![declare(pat.e.clone(), src.clone())];
    body.extend(prints(&pat.names));
    out.push(("declaration", body));
    let mut body: Vec<Stmt> = pat.names.iter().map(|n| declare(var(n), string("old"))).collect();
    body.push(assign(pat.e.clone(), src.clone()));
    body.extend(prints(&pat.names));
    out.push(("assignment", body));
    let mut inner = prints(&pat.names);
    inner.push(pv(string("iteration")));
    out.push(("for target", vec![for_(list(vec![var("_"), pat.e.clone()]), list(vec![src.clone()]), inner)]));
    let mut inner = prints(&pat.names);
    inner.push(ret(int(0)));
    out.push(("parameter", vec![fn_decl("take", vec![pat.e.clone()], false, inner), expr_stmt(call(var("take"), vec![src.clone()]))]));
    out
}

fn mk_case(ctx: &Ctx, kind: &str, stmts: Vec<Stmt>, note: String, nt: bool) -> Option<(Case, bool)> {
    let prog = Prog::new(stmts);
    let rr = interp::run(&prog);
    let printed = print::print_canonical(&prog);
    let e = ref_expect(&printed, &rr, DiagLevel::None)?;
    label_outcome(ctx, &rr);
    Some((Case{property: "C13".into(), kind: kind.into(), srcs: vec![printed.src.into_bytes()], pred: Pred::Expect(e), note}, nt))
}

fn pattern_cases(ctx: &Ctx, width: usize) -> Vec<(Case, bool)> {
    let mut jobs = vec![];
    for pat in list_patterns(width) {
        for (src, sl) in list_sources() {
            jobs.push((pat.clone(), src, sl));
        }
    }
    for pat in object_patterns() {
        for (src, sl) in object_sources() {
            jobs.push((pat.clone(), src, sl));
        }
    }
    let out: Vec<(Case, bool)> = jobs.par_iter().flat_map(|(pat, src, sl)| {
        let mut v = vec![];
        for (pos, stmts) in positions(pat, src) {
            ctx.label(&format!("position: {pos}"));
            let nt = pat.has_rest || !pat.simple;
            let mut stmts = stmts;
            // Round-trip law for simple list patterns in declaration position.
            if pos == "declaration" && pat.simple && pat.label == "list pattern" {
                if let EK::List(items, collect) = &pat.e.k {
                    let named: Vec<&Item> = items.iter().filter(|it| !matches!(&it.e.k, EK::Var(n) if n == "rest")).collect();
                    if named.iter().all(|it| !matches!(&it.e.k, EK::Var(n) if n == "_")) {
                        let parts = list(named.iter().map(|it| it.e.clone()).collect());
                        let whole = if *collect { bin(Op::Sum, parts, var("rest")) } else { parts };
                        stmts.push(pv(bin(Op::Eq, whole, src.clone())));
                        ctx.label("round-trip law [p..] + rest == xs");
                    }
                }
            }
            if let Some(c) = mk_case(ctx, "pattern", stmts, format!("{} against {sl} in {pos} position", pat.label), nt) {
                v.push(c);
            }
        }
        v
    }).collect();
    out
}

// All ways to write the arguments 1..n as plain and spread arguments.
fn arg_splits(n: usize) -> Vec<Vec<Item>> {
    fn rec(from: usize, n: usize, cur: Vec<Item>, out: &mut Vec<Vec<Item>>) {
        if from == n {
            out.push(cur.clone());
            // A trailing empty spread.
            let mut c = cur;
            c.push(spread(list(vec![])));
            out.push(c);
            return;
        }
        // plain
        let mut c = cur.clone();
        c.push(item(int(from as i64 + 1)));
        rec(from + 1, n, c, out);
        // spread of 1..=3 elements
        for len in 1..=3usize {
            if from + len > n {
                break;
            }
            let mut c = cur.clone();
            c.push(spread(list((from..from + len).map(|i| int(i as i64 + 1)).collect())));
            rec(from + len, n, c, out);
        }
    }
    let mut out = vec![];
    rec(0, n, vec![], &mut out);
    out
}

fn call_cases(ctx: &Ctx) -> Vec<(Case, bool)> {
    let mut jobs = vec![];
    for n in 0..=5usize {
        for args in arg_splits(n) {
            for arity in 0..=4usize {
                for rest in [false, true] {
                    jobs.push((n, args.clone(), arity, rest));
                }
            }
        }
    }
    jobs.par_iter().filter_map(|(n, args, arity, rest)| {
        let mut params: Vec<Expr> = (0..*arity).map(|i| var(&format!("p{i}"))).collect();
        if *rest {
            params.push(var("more"));
        }
        let mut body: Vec<Stmt> = params.iter().map(|p| pv(p.clone())).collect();
        if *rest {
            // The rest list is fresh: writing into it changes nothing else.
            body.push(if_(bin(Op::Ne, var("more"), list(vec![])), vec![assign(index(var("more"), int(0)), int(99))], None));
            body.push(assign(var("more"), bin(Op::Sum, var("more"), list(vec![int(0)]))));
        }
        // Spread arguments are variables, so that the caller can look at them
        // after the call.
        let mut pre = vec![];
        let mut post = vec![];
        let args2: Vec<Item> = args.iter().enumerate().map(|(i, a)| {
            if a.spread {
                let nm = format!("sp{i}");
                pre.push(declare(var(&nm), a.e.clone()));
                post.push(pv(var(&nm)));
                spread(var(&nm))
            } else {
                a.clone()
            }
        }).collect();
        let mut stmts = pre;
        stmts.push(fn_decl("f", params, *rest, body));
        stmts.push(expr_stmt(call_items(var("f"), args2)));
        stmts.push(pv(string("returned")));
        stmts.extend(post);
        let spreads = args.iter().filter(|a| a.spread).count();
        ctx.label(if spreads > 0 { "call with spread arguments" } else { "call with plain arguments" });
        mk_case(ctx, "call", stmts, format!("{n} argument values in {} arguments ({spreads} spread) against arity {arity}{}", args.len(), if *rest { " + rest" } else { "" }), spreads > 0 || *rest)
    }).collect()
}

// Spread next to arguments / items with side effects on the spread list:
// `f(xs.., g())` must behave as `f(xs[0], .., xs[n-1], g())` and
// `[xs.., g()]` as `[xs[0], .., xs[n-1], g()]`, whatever g does to xs.
// (Not as `xs + [g()]`: `+` holds its left operand by reference while
// the right one is evaluated.)
pub fn spread_effect_cases(ctx: &Ctx, property: &str, calls_only: bool) -> Vec<(Case, bool)> {
    let mut out = vec![];
    let effects = [
        ("xs[0] = 11", "element write"), ("xs[2] += 5", "op-assign on an element"), ("xs[0:2] = [7, 8]", "range write"),
        ("xs += [4]", "rebinding append"), ("xs = [9, 9, 9]", "rebinding"), ("[xs[1], xs[0]] = [xs[0], xs[1]]", "swap through a pattern"),
    ];
    for (eff, ename) in effects {
        let pre = format!("xs := [1, 2, 3]\nfn g() {{\n    {eff}\n    return 11\n}}\nfn f(..r) {{\n    return r\n}}\nfn h(a, b, c, ..r) {{\n    return [c, b, a] + r\n}}\n");
        let pairs = [
            ("print(f(xs.., g()))\nprint(xs)\n", "print(f(xs[0], xs[1], xs[2], g()))\nprint(xs)\n"),
            ("print(h(xs.., g(), xs..))\n", "print(h(xs[0], xs[1], xs[2], g(), xs..))\n"),
            ("print(f(0, xs.., g(), g()))\n", "print(f(0, xs[0], xs[1], xs[2], g(), g()))\n"),
            ("print([xs.., g()])\nprint(xs)\n", "print([xs[0], xs[1], xs[2], g()])\nprint(xs)\n"),
            ("print([xs.., g(), xs..])\n", "print([xs[0], xs[1], xs[2], g(), xs..])\n"),
            ("ys := [xs.., [g()]..]\nprint(ys)\n", "ys := [xs[0], xs[1], xs[2], [g()]..]\nprint(ys)\n"),
            ("{a, ..rest} := {\"a\": [xs.., g()], \"b\": xs}\nprint(a)\nprint(rest)\n", "{a, ..rest} := {\"a\": [xs[0], xs[1], xs[2], g()], \"b\": xs}\nprint(a)\nprint(rest)\n"),
        ];
        for (l, r) in pairs {
            if calls_only && !(l.contains("f(") || l.contains("h(")) {
                continue;
            }
            ctx.label("spread beside a side effect on the spread list");
            out.push((Case{property: property.into(), kind: "spread_effect".into(), srcs: vec![format!("{pre}{l}").into_bytes(), format!("{pre}{r}").into_bytes()], pred: Pred::Same{same_msg: false, positions: None}, note: format!("{ename}: spread form vs written-out form")}, true));
        }
    }
    out
}

fn law_cases(ctx: &Ctx) -> Vec<(Case, bool)> {
    let srcs: Vec<(&str, &str)> = vec![
        ("xs := [1, 2, 3]\nys := [4]\nprint([xs.., ys..] == (xs + ys))\nprint([xs.., ys..] === xs)\nprint([xs..] == xs)\n", "true\nfalse\ntrue\n"),
        ("o := {\"a\": 1, \"k\": 2, \"z\": 3, \"y\": 4}\n{a, \"k\": b, ..rest} := o\nprint({\"a\": a, \"k\": b, rest..} == o)\nprint(rest)\n", "true\n{\n    \"y\": 4,\n    \"z\": 3,\n}\n"),
        ("fn f(a, b, c) {\n    return [a, b, c]\n}\nxs := [1, 2, 3]\nprint(f(xs..) == f(xs[0], xs[1], xs[2]))\nprint(f(xs[0], xs[1:]..) == f(xs..))\n", "true\ntrue\n"),
        ("fn f(a, ..r) {\n    r[0] = 99\n    return r\n}\nxs := [1, 2, 3]\nys := f(xs..)\nprint(xs)\nprint(ys)\nprint(ys === xs)\n", "[\n    1,\n    2,\n    3,\n]\n[\n    99,\n    3,\n]\nfalse\n"),
        ("fn f(..r) {\n    r[0] = 0\n    return r\n}\nxs := [5, 6, 7]\nys := f(xs..)\nprint(xs)\nprint(ys === xs)\n", "[\n    5,\n    6,\n    7,\n]\nfalse\n"),
        ("for [i, ..rest] in [7, 8] {\n    print(rest)\n    print([i] + rest)\n}\n", "[\n    7,\n]\n[\n    0,\n    7,\n]\n[\n    8,\n]\n[\n    1,\n    8,\n]\n"),
        ("for [..kv] in {\"a\": 1} {\n    print(kv)\n}\n", "[\n    a,\n    1,\n]\n"),
        ("[a, [b, c], {\"k\": [d, ..e]}] := [1, [2, 3], {\"k\": [4, 5, 6]}]\nprint([a, b, c, d])\nprint(e)\n", "[\n    1,\n    2,\n    3,\n    4,\n]\n[\n    5,\n    6,\n]\n"),
        ("a := 0\nb := 0\n[a, b] = [b + 1, a + 2]\nprint([a, b])\n[a, b] = [b, a]\nprint([a, b])\n", "[\n    1,\n    2,\n]\n[\n    2,\n    1,\n]\n"),
    ];
    let srcs: Vec<(String, String)> = {
        let mut v: Vec<(String, String)> = srcs.iter().map(|(a, b)| (a.to_string(), b.to_string())).collect();
        // Sizes beyond the small scope.
        for n in [17i64, 33, 64, 100] {
            v.push((format!("xs := 0 .. {n}\n[a, b, ..rest] := xs\nprint(([a, b] + rest) == xs)\nprint(rest[{}])\nn := 0\nfor kv in rest {{\n    n += 1\n}}\nprint(n)\n", n - 3), format!("true\n{}\n{}\n", n - 1, n - 2)));
            v.push((format!("fn count(first, ..r) {{\n    n := 0\n    for kv in r {{\n        n += 1\n    }}\n    return [first, n, r[{}]]\n}}\nxs := 0 .. {n}\nprint(count(xs..) == [0, {}, {}])\nprint(count(7, xs.., 8) == [7, {}, {}])\n", n - 2, n - 1, n - 1, n + 1, n - 2), "true\ntrue\n".to_string()));
            v.push((format!("xs := 0 .. {n}\nys := [xs.., xs..]\nprint(ys == (xs + xs))\nprint(ys[{}])\n", 2 * n - 1), format!("true\n{}\n", n - 1)));
        }
        let keys: Vec<String> = (0..24).map(|k| format!("\"p{k:02}\": {k}")).collect();
        v.push((format!("o := {{{}}}\n{{p00, \"p23\": last, ..rest}} := o\nprint({{\"p00\": p00, \"p23\": last, rest..}} == o)\nn := 0\nfor kv in rest {{\n    n += 1\n}}\nprint([p00, last, n])\n", keys.join(", ")), "true\n[\n    0,\n    23,\n    22,\n]\n".to_string()));
        v
    };
    let mut out: Vec<(Case, bool)> = srcs.iter().map(|(s, e)| (Case{property: "C13".into(), kind: "law".into(), srcs: vec![s.as_bytes().to_vec()], pred: Pred::Expect(Expect::ok(e.as_bytes().to_vec())), note: "inverse law evaluated by the interpreter".into()}, true)).collect();
    out.extend(spread_effect_cases(ctx, "C13", false));
    // Errors: a name bound twice, at any nesting; wrong places.
    let errs = [
        "a := 0\nb := 0\n[[a, b], a] = [[10, 20], 30]\nprint(a)\n", "c := 0\n{\"p\": {\"q\": c}, \"r\": c} = {\"p\": {\"q\": 1}, \"r\": 2}\nprint(c)\n",
        "[a, [a]] := [1, [2]]\n", "[a, a] := [1, 2]\n", "{a, \"b\": a} := {\"a\": 1, \"b\": 2}\n", "fn f(a, [b, a]) {\n    return 0\n}\nf(1, [2, 3])\n",
        "for [x, x] in [1] {\n    print(x)\n}\n", "[a, ..b, c] := [1, 2, 3]\n", "x := [1, ..[2]]\n", "x := {..{}}\n", "[a..] := [1]\n", "{a..} := {\"a\": 1}\n",
        "fn f(a.., b) {\n    return 0\n}\n", "{..r, a} := {\"a\": 1}\n", "[a, b] := [1]\n", "[a, b, ..c] := [1]\n", "[a] := [1, 2]\n", "{zz} := {\"a\": 1}\n", "[a] := {\"a\": 1}\n", "{a} := [1]\n",
        "fn f(a, b) {\n    return 0\n}\nf([1]..)\n", "fn f(a, ..r) {\n    return 0\n}\nf([]..)\n", "fn f() {\n    return 0\n}\nf(1..)\n", "fn f(a) {\n    return 0\n}\nf({}..)\n",
    ];
    for s in errs {
        let mut e = Expect::err(vec![]);
        e.stdout = None;
        e.diag = vec![DiagPred::WellFormed{max_line: s.matches('\n').count() as u32 + 1}];
        ctx.label("shape mismatch / misplaced spread or collect");
        out.push((Case{property: "C13".into(), kind: "shape_error".into(), srcs: vec![s.as_bytes().to_vec()], pred: Pred::Expect(e), note: "must be a reported error".into()}, true));
    }
    out
}

// Items of one pattern are bound left to right, and a computed key is an
// ordinary expression evaluated when its item's turn comes: it may read a
// name that an earlier item of the same pattern has just bound (the
// tagged-record idiom `{"kind": kind, kind: payload, ..meta}`).
fn dependent_key_cases(ctx: &Ctx) -> Vec<(Case, bool)> {
    let mut out = vec![];
    let msgs = [
        obj(vec![pair("kind", string("text")), pair("text", string("hello")), pair("id", int(7))]),
        obj(vec![pair("kind", string("code")), pair("code", list(vec![int(1), int(2)])), pair("text", string("t")), pair("id", int(8))]),
        obj(vec![pair("kind", string("none")), pair("id", int(9))]),
    ];
    let pats: Vec<(Expr, Vec<&str>, &str)> = vec![
        (obj(vec![Prop::Pair(string("kind"), var("kind")), Prop::Pair(var("kind"), var("payload")), Prop::Single{e: var("meta"), spread: false, collect: true}]), vec!["kind", "payload", "meta"], "key reads the name bound by the item before it, with rest"),
        (obj(vec![Prop::Pair(string("kind"), var("kind")), Prop::Pair(var("kind"), var("payload"))]), vec!["kind", "payload"], "key reads the name bound by the item before it"),
        (obj(vec![Prop::Single{e: var("kind"), spread: false, collect: false}, Prop::Pair(bin(Op::Sum, var("kind"), string("")), var("payload")), Prop::Single{e: var("meta"), spread: false, collect: true}]), vec!["kind", "payload", "meta"], "shorthand then a key computed from it"),
        (obj(vec![Prop::Pair(string("kind"), var("kind")), Prop::Pair(string("id"), var("n")), Prop::Pair(var("kind"), list_items(vec![item(var("first")), item(var("more"))], true))]), vec!["kind", "n", "first", "more"], "dependent key with a nested list pattern"),
        (list(vec![var("kind"), obj(vec![Prop::Pair(var("kind"), var("payload")), Prop::Single{e: var("meta"), spread: false, collect: true}])]), vec!["kind", "payload", "meta"], "key in a nested object pattern reads a name bound by the enclosing list pattern"),
    ];
    for (pi, (pat, names, label)) in pats.iter().enumerate() {
        for (mi, msg) in msgs.iter().enumerate() {
            let src = if pi == 4 { list(vec![string(["text", "code", "none"][mi]), msg.clone()]) } else { msg.clone() };
            for outer in [false, true] {
                let names: Vec<String> = names.iter().map(|s| s.to_string()).collect();
                let p = Pat{e: pat.clone(), names: names.clone(), simple: false, has_rest: true, label: "dependent key"};
                for (pos, stmts) in positions(&p, &src) {
                    let mut all = vec![];
                    if outer && pos != "assignment" {
                        // An outer variable of the same name holding a key
                        // that exists too: a key resolved too early finds it.
                        all.push(declare(var("kind"), string("id")));
                        all.push(block(stmts));
                    } else if outer {
                        continue;
                    } else {
                        all = stmts;
                    }
                    ctx.label("pattern with a key that depends on an earlier item");
                    if let Some(c) = mk_case(ctx, "dependent_key", all, format!("{label}, in {pos} position{}", if outer { ", outer `kind` in scope" } else { "" }), true) {
                        out.push(c);
                    }
                }
            }
        }
    }
    out
}

// Random pattern trees (lists up to 40 wide, objects over a pool of keys that
// may repeat, nesting to depth 3, optional rest at every level) against
// sources built to fit them or to miss in one place, in the four binding
// positions; oracle: the reference interpreter.
struct PatGen<'a> {
    t: &'a mut sdmodel::tape::Tape,
    names: Vec<String>,
    fresh: usize,
}

const KEYS: [&str; 7] = ["a", "b", "k", "z", "q", "long key é", "type"];

impl PatGen<'_> {
    fn name(&mut self) -> Expr {
        // A few repeats of an earlier name: binding one name twice is an error.
        if !self.names.is_empty() && self.t.chance(1, 25) {
            let i = self.t.pick(self.names.len());
            return var(&self.names[i].clone());
        }
        self.fresh += 1;
        let n = format!("n{}", self.fresh);
        self.names.push(n.clone());
        var(&n)
    }

    // Returns the pattern and a source expression that fits it.
    fn pat(&mut self, depth: usize) -> (Expr, Expr) {
        let leaf = depth == 0 || self.t.chance(1, 3);
        if leaf {
            let v = self.value(1);
            return if self.t.chance(1, 6) { (var("_"), v) } else { (self.name(), v) };
        }
        if self.t.chance(1, 2) {
            // List pattern.
            let w = if self.t.chance(1, 10) { [17usize, 33, 40][self.t.pick(3)] } else { self.t.pick(5) };
            let mut items = vec![];
            let mut srcs = vec![];
            for _ in 0..w {
                let (p, s) = if w > 8 { let v = self.value(0); (if self.t.chance(1, 5) { var("_") } else { self.name() }, v) } else { self.pat(depth - 1) };
                items.push(item(p));
                srcs.push(s);
            }
            let collect = self.t.chance(1, 2);
            if collect {
                items.push(item(if self.t.chance(1, 6) { var("_") } else { self.name() }));
                let extra = if self.t.chance(1, 8) { [17usize, 64][self.t.pick(2)] } else { self.t.pick(4) };
                for _ in 0..extra {
                    let v = self.value(1);
                    srcs.push(v);
                }
            }
            (list_items(items, collect), list(srcs))
        } else {
            // Object pattern; a key may be bound more than once.
            let n = self.t.pick(5);
            let mut props = vec![];
            let mut src: Vec<(String, Expr)> = vec![];
            for _ in 0..n {
                let k = KEYS[self.t.pick(KEYS.len())];
                let existing = src.iter().position(|(sk, _)| sk == k);
                match self.t.pick(4) {
                    0 if k.chars().all(|c| c.is_ascii_alphabetic()) && k != "type" && !self.names.contains(&k.to_string()) => {
                        self.names.push(k.to_string());
                        props.push(Prop::Single{e: var(k), spread: false, collect: false});
                        if existing.is_none() {
                            let v = self.value(1);
                            src.push((k.to_string(), v));
                        }
                    },
                    1 => {
                        // Computed key.
                        let nm = self.name();
                        props.push(Prop::Pair(bin(Op::Sum, string(k), string("")), nm));
                        if existing.is_none() {
                            let v = self.value(1);
                            src.push((k.to_string(), v));
                        }
                    },
                    _ => {
                        // Rename, possibly to a nested pattern; a repeated
                        // key keeps the value (and shape) it already has.
                        if let Some(i) = existing {
                            let nm = if self.t.chance(1, 5) { var("_") } else { self.name() };
                            props.push(Prop::Pair(string(k), nm));
                            let _ = i;
                        } else {
                            let (p, s) = self.pat(depth - 1);
                            props.push(Prop::Pair(string(k), p));
                            src.push((k.to_string(), s));
                        }
                    },
                }
            }
            let collect = self.t.chance(1, 2);
            if collect {
                props.push(Prop::Single{e: if self.t.chance(1, 6) { var("_") } else { self.name() }, spread: false, collect: true});
            }
            // Surplus properties (they end up in the rest, or are ignored).
            let extra = self.t.pick(4);
            for j in 0..extra {
                let k = format!("x{j}");
                let v = self.value(1);
                src.push((k, v));
            }
            // Source properties in a shuffled order.
            let mut shuffled = vec![];
            while !src.is_empty() {
                let i = self.t.pick(src.len());
                shuffled.push(src.remove(i));
            }
            (obj(props), obj(shuffled.into_iter().map(|(k, v)| Prop::Pair(string(&k), v)).collect()))
        }
    }

    fn value(&mut self, depth: usize) -> Expr {
        match self.t.pick(if depth == 0 { 3 } else { 5 }) {
            0 => int(self.t.range(-3, 99)),
            1 => string(["", "s", "é日"][self.t.pick(3)]),
            2 => if self.t.chance(1, 2) { null() } else { boolean(self.t.chance(1, 2)) },
            3 => { let n = self.t.pick(3); list((0..n).map(|_| self.value(depth - 1)).collect()) },
            _ => { let n = self.t.pick(3); obj((0..n).map(|j| pair(["m", "n", "o"][j], self.value(depth - 1))).collect()) },
        }
    }
}

// One place of the fitting source changed: an element dropped or added, a
// property removed, a container replaced by a scalar.
fn perturb(t: &mut sdmodel::tape::Tape, e: &mut Expr, budget: &mut u32) {
    if *budget == 0 {
        return;
    }
    match &mut e.k {
        EK::List(items, _) => {
            if t.chance(1, 3) {
                *budget -= 1;
                match t.pick(3) {
                    0 if !items.is_empty() => { let i = t.pick(items.len()); items.remove(i); },
                    1 => items.push(item(int(777))),
                    _ => { *e = [int(5), null(), string("str"), obj(vec![])][t.pick(4)].clone(); },
                }
                return;
            }
            if !items.is_empty() {
                let i = t.pick(items.len());
                perturb(t, &mut items[i].e, budget);
            }
        },
        EK::Obj(props) => {
            if t.chance(1, 3) {
                *budget -= 1;
                match t.pick(2) {
                    0 if !props.is_empty() => { let i = t.pick(props.len()); props.remove(i); },
                    _ => { *e = [int(5), null(), list(vec![int(1)])][t.pick(3)].clone(); },
                }
                return;
            }
            if !props.is_empty() {
                let i = t.pick(props.len());
                if let Prop::Pair(_, v) = &mut props[i] {
                    perturb(t, v, budget);
                }
            }
        },
        _ => {},
    }
}

fn random_pattern_case(t: &mut sdmodel::tape::Tape, ctx: &Ctx) -> Option<(Case, bool)> {
    let mut g = PatGen{t, names: vec![], fresh: 0};
    let (pat, mut src) = g.pat(3);
    let mut names = g.names.clone();
    names.sort();
    names.dedup();
    if !matches!(pat.k, EK::List(..) | EK::Obj(_)) {
        return None;
    }
    let fits = !t.chance(1, 3);
    if !fits {
        let mut budget = 1;
        perturb(t, &mut src, &mut budget);
    }
    let p = Pat{e: pat.clone(), names: names.clone(), simple: false, has_rest: true, label: "random pattern"};
    let mut all = positions(&p, &src);
    let (pos, mut stmts) = all.remove(t.pick(all.len()));
    // Rebuild law: for an object pattern made of plain renames and a named
    // rest, {"k": v, .., rest..} == source.
    if pos == "declaration" {
        if let EK::Obj(props) = &pat.k {
            let plain = props.iter().all(|p| match p {
                Prop::Pair(k, v) => matches!(k.k, EK::Str(_)) && matches!(&v.k, EK::Var(n) if n != "_"),
                Prop::Single{e, collect, ..} => matches!(&e.k, EK::Var(n) if n != "_") && (*collect || true),
            }) && props.iter().any(|p| matches!(p, Prop::Single{collect: true, ..}));
            if plain {
                let mut back = vec![];
                for p in props {
                    match p {
                        Prop::Pair(k, v) => back.push(Prop::Pair(k.clone(), v.clone())),
                        Prop::Single{e, collect: false, ..} => back.push(Prop::Single{e: e.clone(), spread: false, collect: false}),
                        Prop::Single{e, collect: true, ..} => back.push(Prop::Single{e: e.clone(), spread: true, collect: false}),
                    }
                }
                stmts.push(pv(bin(Op::Eq, obj(back), src.clone())));
                ctx.label("rebuild law {k: v, rest..} == o");
            }
        }
    }
    ctx.label(&format!("random pattern in {pos} position"));
    ctx.label(if fits { "random pattern: fitting source" } else { "random pattern: source off in one place" });
    mk_case(ctx, "random_pattern", stmts, format!("random pattern in {pos} position"), true)
}

// What one turn of a loop (or one call) bound stays what it was when later
// turns (calls) bind again: the pair of a `for`, the pieces of a pattern, a
// collected rest and a rest parameter are built anew each time. Every target
// form x iterable x way of keeping the bound value past its turn; after the
// loop everything kept is printed, the first kept value is changed in place
// and everything is printed again.
pub fn kept_binding_cases(ctx: &Ctx, property: &str) -> Vec<(Case, bool)> {
    // (target, expression that names the bound container(s) inside the body)
    let targets = [
        ("p", "p"), ("[..kv]", "kv"), ("[i, ..rest]", "rest"), ("[i, v]", "[i, v]"), ("[i, [a, ..tl]]", "tl"), ("[i, {\"k\": a, ..more}]", "more"), ("[_, v]", "v"),
    ];
    let iterables = [
        ("[\"a\", \"b\", \"c\"]", 0), ("\"xyz\"", 0), ("{\"m\": \"a\", \"n\": \"b\", \"o\": \"c\"}", 0), ("0 .. 3", 0),
        ("[[1, 2, 3], [4, 5, 6], [7, 8, 9]]", 1), ("{\"m\": [1, 2], \"n\": [3, 4, 5]}", 1),
        ("[{\"k\": 1, \"x\": 2}, {\"k\": 3, \"y\": 4}, {\"k\": 5}]", 2),
    ];
    let keeps = [
        ("kept += [{B}]", "for [_, x] in kept {\n    print(x)\n}\n"),
        ("kept = [kept.., {B}]", "print(kept)\n"),
        ("kept += [fn () {\n        return {B}\n    }]", "for [_, g] in kept {\n    print(g())\n}\n"),
        ("kept += [{\"held\": {B}}]", "for [_, x] in kept {\n    print(x.held)\n}\n"),
    ];
    let mut srcs = vec![];
    for (tgt, bound) in targets {
        for (it, shape) in iterables {
            // Patterns that need list / object elements only go with them.
            let needs = if tgt.contains("[a, ..tl]") { 1 } else if tgt.contains("more") { 2 } else { 0 };
            if needs != 0 && needs != shape { continue; }
            for (keep, show) in keeps {
                let k = keep.replace("{B}", bound);
                let mutate = if keep.contains("fn ()") { "first := kept[0]()\n" } else if keep.contains("held") { "first := kept[0].held\n" } else { "first := kept[0]\n" };
                // Changing the first kept value in place (when it is a list
                // or an object) must not show in the others.
                let change = if bound == "more" { "first.added = 99\n" } else if bound == "v" && shape == 0 { "" } else if bound == "v" && shape == 2 { "first.added = 99\n" } else { "first[0] = 99\n" };
                let src = format!("kept := []\nfor {tgt} in {it} {{\n    {k}\n}}\n{show}{mutate}{change}{show}print(kept[0] === kept[1])\n");
                srcs.push((src, format!("for {tgt} in {it}, kept by `{keep}`")));
            }
        }
    }
    // The same through calls: a rest parameter, a parameter pattern, and a
    // destructuring declaration inside a function called several times.
    for (params, bound) in [("..r", "r"), ("a, ..r", "r"), ("[h, ..tl]", "tl"), ("{\"k\": a, ..more}", "more"), ("a, [b, ..c]", "c")] {
        for (keep, show) in keeps {
            let k = keep.replace("{B}", bound);
            let mutate = if keep.contains("fn ()") { "first := kept[0]()\n" } else if keep.contains("held") { "first := kept[0].held\n" } else { "first := kept[0]\n" };
            let change = if bound == "more" { "first.added = 99\n" } else { "first[0] = 99\n" };
            let calls = match params {
                "..r" => "take(1, 2)\ntake(3, 4, 5)\ntake(6)\n",
                "a, ..r" => "take(0, 1, 2)\ntake(0, 3, 4, 5)\ntake(0, 6)\n",
                "[h, ..tl]" => "take([0, 1, 2])\ntake([0, 3])\nxs := [0, 4, 5]\ntake(xs)\ntake(xs)\n",
                "a, [b, ..c]" => "take(0, [0, 1, 2])\ntake(0, [0, 3])\nxs := [0, 4, 5]\ntake(1, xs)\ntake(2, xs)\n",
                _ => "take({\"k\": 1, \"x\": 2})\no := {\"k\": 3, \"y\": 4}\ntake(o)\ntake(o)\n",
            };
            let src = format!("kept := []\nfn take({params}) {{\n    {k}\n}}\n{calls}{show}{mutate}{change}{show}print(kept[0] === kept[1])\n");
            srcs.push((src, format!("fn take({params}), kept by `{keep}`")));
        }
    }
    source_cases(ctx, property, "kept_binding", "binding kept past its turn / call", srcs)
}

// `f(xs..)` behaves as `f(xs[0], .., xs[n-1])` and `[xs.., ys..] == xs + ys`
// for every kind of element - also for elements that remember where they came
// from (bound methods, bound type functions): the spread, collected or
// destructured element is the element. Oracle: the reference run.
fn routed_element_cases(ctx: &Ctx) -> Vec<(Case, bool)> {
    let pre = "o := {\"n\": \"héllo\", \"m\": fn () {\n    return this.n\n}, \"bump\": fn () {\n    this.n = this.n + \"!\"\n    return this.n\n}}\ns := \"wörld\"\nplain := fn () {\n    return \"plain\"\n}\n";
    let mut srcs = vec![];
    for b in ["o.m", "o[\"m\"]", "o.bump", "s->len", "s->type", "o->type", "plain"] {
        for (route, body) in callable_routes(b) {
            if route.starts_with("object") { continue; }
            srcs.push((format!("{pre}{body}print(o.n)\n"), format!("`{b}` called after: {route}")));
        }
    }
    source_cases(ctx, "C13", "routed_element", "element that remembers its origin, spread / collected / destructured before the call", srcs)
}

pub fn run(ctx: &Ctx) {
    ctx.set_rule("every list pattern of width 0..3 (thorough: 4) over {name, _, nested [p, q], nested [h, ..t], nested {\"a\": x}} with and without a final ..rest, against lists of length 0..5 (two element families) and 4 non-list kinds; every object pattern of up to 3 entries from {shorthand, rename, rename to _, nested list pattern, computed key, nested object collect, absent key} with and without ..rest, against objects of size 0..5 and 3 non-object kinds; each in declaration, assignment, for-target and parameter position with all bound names printed, plus the round-trip law [p..] + rest == xs; every split of 0..5 argument values into plain and spread arguments (incl. empty spreads) against arity 0..4 with and without a rest parameter; a catalogue of inverse laws and of shape errors (duplicate names at any nesting, misplaced spread / collect); oracle: reference binding semantics, laws evaluated in Seed; spread beside a side effect on the spread list against the written-out form; random pattern trees (lists up to 40 wide, repeated object keys, depth 3) against fitting and one-off sources in a random binding position; sources of 17..100 elements; keys of a pattern that read a name bound by an earlier item of the same pattern (5 shapes x 3 records x 4 positions, with and without an outer variable of that name); what one turn or call bound (the pair of a `for`, pattern pieces, a collected rest, a rest parameter; 7 targets x 7 iterables and 5 parameter lists x 4 ways of keeping it: appended, spread into a new list, captured by a closure, held in an object) is unchanged by later turns / calls and by an in-place change of the value of another turn; bound methods and bound type functions as elements through 16 routes (spread into calls and literals, rest parameters, patterns, for, slices, range assignment) before they are called. Non-trivial = pattern with collect or nesting, or a call with spread arguments or a rest parameter; distinct = distinct source texts");
    ctx.replay_corpus(None);
    ctx.judge_all(law_cases(ctx), Via::Cli, None);
    let width = if ctx.tier == Tier::Quick { 3 } else { 4 };
    let cases = pattern_cases(ctx, width);
    ctx.set_extra("pattern_cases", serde_json::json!(cases.len()));
    let via = Via::Fast;
    ctx.judge_all(cases, via, None);
    ctx.judge_all(dependent_key_cases(ctx), Via::Cli, None);
    ctx.judge_all(kept_binding_cases(ctx, "C13"), Via::Cli, None);
    ctx.judge_all(routed_element_cases(ctx), Via::Cli, None);
    let cases = call_cases(ctx);
    ctx.set_extra("call_cases", serde_json::json!(cases.len()));
    ctx.judge_all(cases, Via::Cli, None);
    ctx.mark_exhaustive("pattern x source x position product; argument-split x arity x rest product");
    let n = ctx.n(120_000, 6_000_000);
    ctx.proptest_tapes("random_patterns", n, 300, Via::Fast, None, |t| random_pattern_case(t, ctx));
}
