// C07 — control flow: branches, loops, break/continue/return reach exactly
// their target. Exhaustive nestings with one jump at the innermost position
// and traces everywhere; differential against the reference interpreter.

use sdmodel::ast::*;
use sdmodel::interp;
use sdmodel::print;

use crate::engine::*;
use crate::pred::*;
use crate::props::common::*;

fn p(s: &str) -> Stmt { sdmodel::ast::print(string(s)) }
fn pv(e: Expr) -> Stmt { sdmodel::ast::print(e) }

const CONSTRUCTS: [&str; 11] = [
    "block", "if", "else", "else-if", "while", "for-list", "for-string", "for-object", "call-named", "call-anon", "call-method",
];

#[derive(Clone, Copy, PartialEq, Eq, Debug)]
enum Jump { None, Break, Continue, Return }

// Wraps `inner` in construct `k` at nesting level `lv`; emits traces before,
// inside and after. Loops run three iterations.
fn construct(k: &str, lv: usize, inner: Vec<Stmt>) -> Vec<Stmt> {
    let tag = format!("{k}{lv}");
    let mut body = vec![p(&format!("{tag} in"))];
    body.extend(inner);
    body.push(p(&format!("{tag} end")));
    let mut out = vec![];
    match k {
        "block" => out.push(block(body)),
        "if" => out.push(if_(boolean(true), body, Some(vec![p("wrong branch")]))),
        "else" => out.push(if_(boolean(false), vec![p("wrong branch")], Some(body))),
        "else-if" => out.push(st(SK::If(vec![(boolean(false), vec![p("wrong branch")]), (boolean(true), body), (boolean(true), vec![p("wrong branch")])], Some(vec![p("wrong branch")])))),
        "while" => {
            let i = format!("w{lv}");
            out.push(declare(var(&i), int(0)));
            let mut b = vec![op_assign(var(&i), Op::Sum, int(1)), pv(var(&i))];
            b.extend(body);
            out.push(while_(bin(Op::Lt, var(&i), int(3)), b));
        },
        "for-list" => {
            let v = format!("e{lv}");
            let mut b = vec![pv(var(&v))];
            b.extend(body);
            out.push(for_(list(vec![var("_"), var(&v)]), list(vec![int(10), int(20), int(30)]), b));
        },
        "for-string" => {
            let v = format!("c{lv}");
            let mut b = vec![pv(var(&v))];
            b.extend(body);
            out.push(for_(var(&v), string("xyz"), b));
        },
        "for-object" => {
            let v = format!("k{lv}");
            let mut b = vec![pv(var(&v))];
            b.extend(body);
            out.push(for_(list(vec![var(&v), var("_")]), obj(vec![pair("b", int(2)), pair("a", int(1)), pair("c", int(3))]), b));
        },
        "call-named" => {
            let f = format!("fn{lv}");
            out.push(fn_decl(&f, vec![], false, body));
            out.push(pv(call(var(&f), vec![])));
        },
        "call-anon" => {
            let f = format!("an{lv}");
            out.push(declare(var(&f), func(vec![], false, body)));
            out.push(pv(call(var(&f), vec![])));
        },
        _ => {
            let o = format!("ob{lv}");
            out.push(declare(var(&o), obj(vec![pair("m", func(vec![], false, body))])));
            out.push(pv(call(prop(var(&o), "m"), vec![])));
        },
    }
    out.push(p(&format!("{tag} after")));
    out
}

fn is_loop(k: &str) -> bool { k == "while" || k.starts_with("for-") }
fn is_call(k: &str) -> bool { k.starts_with("call-") }

fn jump_stmts(j: Jump, guarded: bool, chain: &[&str]) -> Vec<Stmt> {
    let js = match j {
        Jump::None => return vec![p("no jump")],
        Jump::Break => st(SK::Break),
        Jump::Continue => st(SK::Continue),
        Jump::Return => ret(string("returned")),
    };
    if !guarded {
        return vec![p("before jump"), js, p("after jump (must not print)")];
    }
    // Guard: true from the second iteration of the nearest enclosing loop
    // (so the first iteration completes), or always when there is none.
    let mut cond = boolean(true);
    for (lv, k) in chain.iter().enumerate().rev() {
        match *k {
            "while" => { cond = bin(Op::Gte, var(&format!("w{lv}")), int(2)); break; },
            "for-list" => { cond = bin(Op::Gte, var(&format!("e{lv}")), int(20)); break; },
            "for-string" => { cond = bin(Op::Eq, index(var(&format!("c{lv}")), int(0)), int(1)); break; },
            "for-object" => { cond = bin(Op::Ne, var(&format!("k{lv}")), string("a")); break; },
            _ => {},
        }
    }
    vec![p("before guard"), if_(cond, vec![js], None), p("after guard")]
}

fn build(chain: &[&str], j: Jump, guarded: bool) -> Prog {
    let mut inner = jump_stmts(j, guarded, chain);
    for (lv, k) in chain.iter().enumerate().rev() {
        inner = construct(k, lv, inner);
    }
    let mut stmts = vec![p("start")];
    stmts.extend(inner);
    stmts.push(p("finish"));
    Prog::new(stmts)
}

fn classify(chain: &[&str], j: Jump) -> (String, bool) {
    // (label, non-trivial): what the jump crosses before reaching its target.
    let mut crossed: Vec<&str> = vec![];
    let mut target = "none (error)";
    for k in chain.iter().rev() {
        let hit = match j {
            Jump::Break | Jump::Continue => is_loop(k),
            Jump::Return => is_call(k),
            Jump::None => false,
        };
        if hit {
            target = k;
            break;
        }
        if (j == Jump::Break || j == Jump::Continue) && is_call(k) {
            target = "call boundary (error)";
            break;
        }
        crossed.push(k);
    }
    crossed.sort();
    crossed.dedup();
    let nt = j != Jump::None && !crossed.is_empty();
    (format!("{:?} crossing [{}] -> {}", j, crossed.join(","), target), nt)
}

fn case_for(ctx: &Ctx, prog: &Prog, kind: &str, note: String, nt: bool) -> Option<(Case, bool)> {
    let rr = interp::run(prog);
    let printed = print::print_canonical(prog);
    let expect = match ref_expect(&printed, &rr, DiagLevel::None) {
        Some(e) => e,
        None => {
            ctx.exclude("reference discards");
            return None;
        },
    };
    Some((Case{property: "C07".into(), kind: kind.into(), srcs: vec![printed.src.into_bytes()], pred: Pred::Expect(expect), note}, nt))
}

fn nestings(ctx: &Ctx, depth: usize, sample_every: usize) -> Vec<(Case, bool)> {
    let n = CONSTRUCTS.len();
    let total = n.pow(depth as u32);
    let mut out = vec![];
    let mut counter = 0usize;
    for code in 0..total {
        let mut chain = vec![];
        let mut c = code;
        for _ in 0..depth {
            chain.push(CONSTRUCTS[c % n]);
            c /= n;
        }
        for j in [Jump::None, Jump::Break, Jump::Continue, Jump::Return] {
            for guarded in [false, true] {
                if j == Jump::None && guarded {
                    continue;
                }
                counter += 1;
                if sample_every > 1 && (counter.wrapping_mul(2654435761) >> 7) % sample_every != (ctx.seed as usize) % sample_every {
                    continue;
                }
                let prog = build(&chain, j, guarded);
                let (label, nt) = classify(&chain, j);
                ctx.label(&label);
                if let Some(c) = case_for(ctx, &prog, "nesting", format!("{} / {:?}{}", chain.join(" > "), j, if guarded { " (guarded)" } else { "" }), nt) {
                    out.push(c);
                }
            }
        }
    }
    out
}

// if / else-if / else chains with tracing conditions: exactly the first true
// branch runs and later conditions are not evaluated.
fn chains(ctx: &Ctx) -> Vec<(Case, bool)> {
    let mut out = vec![];
    let cond_fn = fn_decl("cond", vec![var("id"), var("val")], false, vec![pv(var("id")), ret(var("val"))]);
    for nb in 1..=3usize {
        for mask in 0..(1 << nb) {
            for has_else in [false, true] {
                let mut branches = vec![];
                for b in 0..nb {
                    let v = (mask >> b) & 1 == 1;
                    branches.push((call(var("cond"), vec![int(b as i64), boolean(v)]), vec![p(&format!("branch {b}"))]));
                }
                let els = if has_else { Some(vec![p("else branch")]) } else { None };
                let prog = Prog::new(vec![cond_fn.clone(), st(SK::If(branches, els)), p("done")]);
                ctx.label("if chain");
                if let Some(c) = case_for(ctx, &prog, "if_chain", format!("{nb} branches, truth mask {mask:b}, else {has_else}"), true) {
                    out.push(c);
                }
            }
        }
    }
    out
}

// Loops whose body changes the iterated container, the loop variable, or the
// condition's inputs.
// The snapshot is taken whatever expression names the iterable: every way of
// writing "the list xs" / "the object ob" x every way of changing it from
// the body; oracle: the reference interpreter.
fn iterable_form_cases(ctx: &Ctx) -> Vec<(Case, bool)> {
    let mut out = vec![];
    let pre = "xs := [1, 2, 3, 4]\nob := {\"a\": 1, \"b\": 2, \"c\": 3}\nbox := {\"items\": xs, \"props\": ob, \"all\": fn () {\n    return this.items\n}, \"every\": fn () {\n    return this.props\n}}\nfn same(v) {\n    return v\n}\nfn give() {\n    return xs\n}\nfn poke(i, v) {\n    xs[i] = v\n}\nholder := [xs, ob]\n";
    let list_forms = ["xs", "same(xs)", "give()", "box.all()", "box.items", "box[\"items\"]", "holder[0]", "[xs][0]", "(xs)", "same(same(xs))", "box[\"all\"]()", "(fn () { return xs; })()", "{\"k\": xs}.k"];
    let list_bodies = ["xs[3] = 40", "xs[i + 1 - (i / 3)] = 50 + i", "poke(3, 60)", "box.items[2] = 70", "ys := xs\n    ys[3] = 80", "xs[2:4] = [90, 91]", "holder[0][3] = 95", "same(xs)[3] = 97"];
    for f in list_forms {
        for b in list_bodies {
            let src = format!("{pre}seen := []\nfor [i, v] in {f} {{\n    {b}\n    seen += [v]\n}}\nprint(seen)\nprint(xs)\n");
            out.push((src, format!("for over {f}, body: {}", b.replace('\n', ";"))));
        }
    }
    let obj_forms = ["ob", "same(ob)", "box.every()", "box.props", "holder[1]", "{\"k\": ob}.k"];
    let obj_bodies = ["ob.c = 30", "ob[\"d\"] = 4", "box.props.c += 100", "ob[k + \"x\"] = v", "holder[1].b = 20"];
    for f in obj_forms {
        for b in obj_bodies {
            let src = format!("{pre}seen := []\nfor [k, v] in {f} {{\n    {b}\n    seen += [[k, v]]\n}}\nprint(seen)\nprint(ob)\n");
            out.push((src, format!("for over {f}, body: {b}")));
        }
    }
    let mut cases = vec![];
    for (src, note) in out {
        let prog = match crate::util::model_from_source(&src) { Ok(p) => p, Err(_) => { ctx.exclude("iterable-form program not readable without the in-process back-end"); continue; } };
        let rr = interp::run(&prog);
        let e = match &rr.outcome {
            interp::Outcome::Ok => Expect::ok(rr.out.clone()),
            interp::Outcome::Err(_) => Expect::err(rr.out.clone()),
            interp::Outcome::Discard(w) => { ctx.exclude(w); continue; },
        };
        ctx.label("snapshot: iterable written as an expression");
        cases.push((Case{property: "C07".into(), kind: "iterable_form".into(), srcs: vec![src.into_bytes()], pred: Pred::Expect(e), note}, true));
    }
    cases
}

fn snapshot_cases(ctx: &Ctx) -> Vec<(Case, bool)> {
    let mut out = vec![];
    let srcs: Vec<(&str, Vec<Stmt>)> = vec![
        ("overwrite later element", vec![
            declare(var("xs"), list(vec![int(1), int(2), int(3)])),
            for_(list(vec![var("i"), var("v")]), var("xs"), vec![pv(var("v")), if_(bin(Op::Lt, var("i"), int(2)), vec![assign(index(var("xs"), bin(Op::Sum, var("i"), int(1))), bin(Op::Mul, var("v"), int(10)))], None)]),
            pv(var("xs")),
        ]),
        ("rebind the variable", vec![
            declare(var("xs"), list(vec![int(1), int(2), int(3)])),
            for_(list(vec![var("i"), var("v")]), var("xs"), vec![pv(var("v")), assign(var("xs"), list(vec![int(9)]))]),
            pv(var("xs")),
        ]),
        ("grow by +=", vec![
            declare(var("xs"), list(vec![int(1), int(2)])),
            for_(list(vec![var("i"), var("v")]), var("xs"), vec![pv(var("v")), op_assign(var("xs"), Op::Sum, list(vec![var("v")]))]),
            pv(var("xs")),
        ]),
        ("range assign inside", vec![
            declare(var("xs"), list(vec![int(1), int(2), int(3)])),
            for_(list(vec![var("i"), var("v")]), var("xs"), vec![pv(var("v")), assign(range_index(var("xs"), None, None), list(vec![int(7), int(8), int(9)]))]),
            pv(var("xs")),
        ]),
        ("object: overwrite and add keys", vec![
            declare(var("ob"), obj(vec![pair("b", int(2)), pair("a", int(1)), pair("c", int(3))])),
            for_(list(vec![var("k"), var("v")]), var("ob"), vec![pv(list(vec![var("k"), var("v")])), assign(prop(var("ob"), "c"), int(30)), assign(index(var("ob"), bin(Op::Sum, var("k"), string("x"))), var("v"))]),
            pv(var("ob")),
        ]),
        ("string iteration is by byte, in order", vec![
            declare(var("s"), string("abc")),
            for_(list(vec![var("i"), var("ch")]), var("s"), vec![pv(list(vec![var("i"), var("ch")])), assign(var("s"), string("zz"))]),
            pv(var("s")),
        ]),
        ("nested loops over the same list", vec![
            declare(var("xs"), list(vec![int(1), int(2)])),
            for_(list(vec![var("i"), var("v")]), var("xs"), vec![
                for_(list(vec![var("j"), var("w")]), var("xs"), vec![pv(list(vec![var("v"), var("w")])), assign(index(var("xs"), var("j")), bin(Op::Sum, var("w"), int(10)))]),
            ]),
            pv(var("xs")),
        ]),
        ("container written by a called function, no assignment in the body", vec![
            declare(var("xs"), list(vec![int(1), int(2), int(3), int(4)])),
            fn_decl("poke", vec![var("i"), var("v")], false, vec![assign(index(var("xs"), var("i")), var("v"))]),
            for_(list(vec![var("i"), var("x")]), var("xs"), vec![if_(bin(Op::Eq, var("i"), int(0)), vec![expr_stmt(call(var("poke"), vec![int(2), int(30)])), expr_stmt(call(var("poke"), vec![int(3), int(40)]))], None), pv(var("x"))]),
            pv(var("xs")),
        ]),
        ("container written by a closure stored earlier", vec![
            declare(var("ob"), obj(vec![pair("a", int(1)), pair("b", int(2)), pair("c", int(3))])),
            declare(var("bump"), func(vec![var("k")], false, vec![assign(index(var("ob"), var("k")), int(99))])),
            for_(list(vec![var("k"), var("v")]), var("ob"), vec![expr_stmt(call(var("bump"), vec![string("c")])), pv(list(vec![var("k"), var("v")]))]),
            pv(var("ob")),
        ]),
        ("container written by its own method", vec![
            declare(var("box"), obj(vec![pair("items", list(vec![int(1), int(2), int(3)])), pair("set", func(vec![var("i"), var("v")], false, vec![assign(index(prop(var("this"), "items"), var("i")), var("v"))]))])),
            for_(list(vec![var("i"), var("v")]), prop(var("box"), "items"), vec![expr_stmt(call(prop(var("box"), "set"), vec![int(2), int(77)])), pv(var("v"))]),
            pv(prop(var("box"), "items")),
        ]),
        ("container written through an alias inside the body", vec![
            declare(var("xs"), list(vec![int(1), int(2), int(3)])),
            declare(var("ys"), var("xs")),
            for_(list(vec![var("i"), var("v")]), var("xs"), vec![declare(var("zs"), var("ys")), expr_stmt(call(func(vec![var("t")], false, vec![assign(index(var("t"), int(2)), int(50))]), vec![var("zs")])), pv(var("v"))]),
            pv(var("xs")),
        ]),
        ("string / range iterables are values", vec![
            declare(var("n"), int(3)),
            for_(list(vec![var("i"), var("v")]), range(int(0), var("n")), vec![assign(var("n"), int(10)), pv(var("v"))]),
            pv(var("n")),
        ]),
        ("thirty iterations, continue on odd ones, break at the twenty-third", vec![
            declare(var("seen"), list(vec![])),
            for_(list(vec![var("i"), var("v")]), range(int(100), int(130)), vec![
                if_(bin(Op::Eq, bin(Op::Mod, var("v"), int(2)), int(1)), vec![st(SK::Continue)], None),
                if_(bin(Op::Eq, var("i"), int(22)), vec![st(SK::Break)], None),
                op_assign(var("seen"), Op::Sum, list(vec![var("v")])),
            ]),
            pv(var("seen")),
            declare(var("n"), int(0)),
            while_(boolean(true), vec![op_assign(var("n"), Op::Sum, int(1)), if_(bin(Op::Lt, var("n"), int(37)), vec![block(vec![st(SK::Continue)])], None), st(SK::Break)]),
            pv(var("n")),
        ]),
        ("return from the nineteenth iteration of the inner of two long loops", vec![
            fn_decl("search", vec![], false, vec![
                for_(list(vec![var("_"), var("a")]), range(int(0), int(25)), vec![
                    for_(list(vec![var("_"), var("b")]), range(int(0), int(25)), vec![
                        if_(bin(Op::Eq, bin(Op::Sum, bin(Op::Mul, var("a"), int(25)), var("b")), int(443)), vec![ret(list(vec![var("a"), var("b")]))], None),
                    ]),
                ]),
                ret(null()),
            ]),
            pv(call(var("search"), vec![])),
        ]),
        ("while condition re-evaluated with side effects", vec![
            declare(var("n"), int(0)),
            fn_decl("tick", vec![], false, vec![op_assign(var("n"), Op::Sum, int(1)), pv(var("n")), ret(var("n"))]),
            while_(bin(Op::Lt, call(var("tick"), vec![]), int(4)), vec![p("body"), if_(bin(Op::Eq, var("n"), int(2)), vec![st(SK::Continue)], None), p("tail")]),
            pv(var("n")),
        ]),
        ("continue on the last iteration", vec![
            declare(var("i"), int(0)),
            while_(bin(Op::Lt, var("i"), int(3)), vec![op_assign(var("i"), Op::Sum, int(1)), if_(bin(Op::Eq, var("i"), int(3)), vec![st(SK::Continue)], None), pv(var("i"))]),
            pv(var("i")),
        ]),
        ("continue in every iteration", vec![
            declare(var("i"), int(0)),
            while_(bin(Op::Lt, var("i"), int(3)), vec![op_assign(var("i"), Op::Sum, int(1)), pv(var("i")), st(SK::Continue)]),
            pv(var("i")),
        ]),
        ("break in nested loop only leaves the inner one", vec![
            for_(list(vec![var("_"), var("a")]), list(vec![int(1), int(2)]), vec![
                for_(list(vec![var("_"), var("b")]), list(vec![int(1), int(2), int(3)]), vec![if_(bin(Op::Eq, var("b"), int(2)), vec![st(SK::Break)], None), pv(list(vec![var("a"), var("b")]))]),
                pv(var("a")),
            ]),
        ]),
        ("return from nested loops inside a function", vec![
            fn_decl("find", vec![var("xs"), var("t")], false, vec![
                for_(list(vec![var("i"), var("v")]), var("xs"), vec![
                    for_(list(vec![var("j"), var("w")]), var("v"), vec![if_(bin(Op::Eq, var("w"), var("t")), vec![block(vec![ret(list(vec![var("i"), var("j")]))])], None)]),
                ]),
                p("not found"),
            ]),
            pv(call(var("find"), vec![list(vec![list(vec![int(1), int(2)]), list(vec![int(3), int(4)])]), int(3)])),
            pv(call(var("find"), vec![list(vec![list(vec![int(1)])]), int(9)])),
        ]),
        ("function called from a loop cannot break it", vec![
            fn_decl("leave", vec![], false, vec![st(SK::Break)]),
            for_(list(vec![var("_"), var("a")]), list(vec![int(1), int(2)]), vec![pv(var("a")), expr_stmt(call(var("leave"), vec![]))]),
            p("unreachable"),
        ]),
        ("function called from a loop cannot continue it", vec![
            declare(var("go"), func(vec![], false, vec![if_(boolean(true), vec![st(SK::Continue)], None)])),
            declare(var("i"), int(0)),
            while_(bin(Op::Lt, var("i"), int(2)), vec![op_assign(var("i"), Op::Sum, int(1)), expr_stmt(call(var("go"), vec![]))]),
        ]),
        ("top-level break / continue / return", vec![if_(boolean(true), vec![block(vec![st(SK::Break)])], None)]),
        ("top-level continue", vec![block(vec![st(SK::Continue)])]),
        ("top-level return", vec![p("x"), ret(int(1))]),
        ("call running off its end yields null", vec![
            fn_decl("nothing", vec![], false, vec![if_(boolean(false), vec![ret(int(1))], None)]),
            pv(call(var("nothing"), vec![])),
            pv(call(func(vec![], false, vec![]), vec![])),
        ]),
    ];
    for (name, stmts) in srcs {
        let prog = Prog::new(stmts);
        ctx.label("loop / snapshot family");
        if let Some(c) = case_for(ctx, &prog, "snapshot", name.to_string(), true) {
            out.push(c);
        }
    }
    out
}

// `while` (and an `if` inside a loop) with conditions of every expression
// kind, each of which is true exactly while n < 3: the condition is
// evaluated afresh every time, whatever it is made of.
fn condition_cases(ctx: &Ctx) -> Vec<(Case, bool)> {
    let conds = [
        "n < 3", "cnt() < 3", "$\"${s}\" != \"aaa\"", "$\"x${s}\" != \"xaaa\"", "\"aaa\" != $\"${s}\"", "$\"${s}${s}\" != \"aaaaaa\"", "$\"${$\"${s}\"}\" != \"aaa\"",
        "s != \"aaa\"", "[n][0] < 3", "({\"v\": n}).v < 3", "o.k < 3", "o[\"k\"] < 3", "xs != [1, 2, 3]", "(0 .. n) != [0, 1, 2]", "s->len() < 3",
        "(0 - n) > (0 - 3)", "n < 3 && true", "false || n < 3", "(fn () { return n < 3; })()", "(n * 2) < 6", "(n + 0) < 3", "s[0:] != \"aaa\"", "xs[:] != [1, 2, 3]",
        "n->type() == \"int\" && n < 3", "[xs..] != [1, 2, 3]", "{o..} != {\"k\": 3}", "$\"${s}\"->len() < 3", "(s + \"\") != \"aaa\"", "[s] != [\"aaa\"]", "{\"s\": s} != {\"s\": \"aaa\"}",
        "lim(n)", "(n < 3) == true", "(n >= 3) == false", "(n >= 3) != true",
    ];
    let pre = "n := 0\ns := \"\"\nxs := []\no := {\"k\": 0}\nfn cnt() {\n    return n\n}\nfn lim(v) {\n    return v < 3\n}\nfn step() {\n    n += 1\n    s = s + \"a\"\n    xs += [n]\n    o.k = n\n}\niters := 0\n";
    let mut out = vec![];
    for start in [0i64, 3] {
        for cond in conds {
            let init = if start == 0 { String::new() } else { "step()\nstep()\nstep()\n".to_string() };
            let src = format!("{pre}{init}while {cond} {{\n    iters += 1\n    step()\n    if iters > 20 {{\n        print(\"runaway\")\n        break\n    }}\n}}\nprint(iters)\nprint(n)\n");
            let want = if start == 0 { "3\n3\n" } else { "0\n3\n" };
            ctx.label("while: condition kinds");
            out.push((Case{property: "C07".into(), kind: "condition".into(), srcs: vec![src.into_bytes()], pred: Pred::Expect(Expect::ok(want.as_bytes().to_vec())), note: format!("while {cond}, starting at n = {start}")}, true));
        }
    }
    for cond in conds {
        let src = format!("{pre}a := 0\nb := 0\nc := 0\nfor [_, i] in 0 .. 6 {{\n    if {cond} {{\n        a += 1\n    }} else if i == 4 {{\n        b += 1\n    }} else {{\n        c += 1\n    }}\n    step()\n}}\nprint([a, b, c])\n");
        ctx.label("if inside a loop: condition kinds");
        // Conditions of the form `.. != <state at n = 3>` hold again for n > 3.
        let ne = cond.contains("!=") && !cond.contains("n >=");
        let want: &[u8] = if ne { b"[\n    5,\n    0,\n    1,\n]\n" } else { b"[\n    3,\n    1,\n    2,\n]\n" };
        out.push((Case{property: "C07".into(), kind: "condition".into(), srcs: vec![src.into_bytes()], pred: Pred::Expect(Expect::ok(want.to_vec())), note: format!("if {cond} inside a six-turn loop")}, true));
    }
    out
}

pub fn run(ctx: &Ctx) {
    ctx.set_rule("all nestings of {bare block, if, else, else-if, while, for over list / string / object, call of a named / anonymous / method function} to depth 3 (quick: depth 4 sampled 1:24; thorough: depth 4 complete) with one of break / continue / return v / nothing at the innermost position, unguarded and guarded (taken from the second iteration on), traces before / inside / after every construct and after the jump; every truth assignment of 1..3-branch if chains with tracing conditions; loop bodies that overwrite, rebind, grow or range-assign the iterated container, while conditions with side effects, continue on the last iteration, jumps outside any target and inside a function called from a loop; oracle: reference interpreter (exact trace, return value, error iff reference error); `while` and `if`-inside-a-loop with 34 condition shapes (interpolations, calls, container literals, closures, type functions), each true exactly while n < 3; loops of 30+ turns; nestings of depth 6 and 8; the snapshot for 13 ways of writing the iterable x 8 ways of changing it from the body (lists), 6 x 5 (objects). Non-trivial = the jump crosses at least one construct before its target; distinct = distinct source texts");
    ctx.replay_corpus(None);
    let mut cases = vec![];
    cases.extend(nestings(ctx, 1, 1));
    cases.extend(nestings(ctx, 2, 1));
    ctx.mark_exhaustive("all nestings to depth 2 x 4 jumps x guarded/unguarded");
    cases.extend(nestings(ctx, 3, 1));
    if ctx.tier == Tier::Quick {
        ctx.mark_exhaustive("all nestings of depth 3");
        cases.extend(nestings(ctx, 4, 24));
    } else {
        cases.extend(nestings(ctx, 4, 1));
        ctx.mark_exhaustive("all nestings of depth 3 and 4");
        // Depth 5, one in six, through the in-process back-end.
        let deep = nestings(ctx, 5, 6);
        ctx.judge_all(deep, Via::Fast, None);
    }
    // A few nestings of depth 6 and 8 (every construct kind once).
    for (j, guarded) in [(Jump::Break, true), (Jump::Continue, false), (Jump::Return, true), (Jump::None, false)] {
        for rot in 0..CONSTRUCTS.len() {
            for depth in [6usize, 8] {
                let chain: Vec<&str> = (0..depth).map(|k| CONSTRUCTS[(rot + k * 3) % CONSTRUCTS.len()]).collect();
                let prog = build(&chain, j, guarded);
                let (label, nt) = classify(&chain, j);
                ctx.label(&format!("deep: {label}"));
                if let Some(c) = case_for(ctx, &prog, "deep_nesting", format!("{} / {:?}", chain.join(" > "), j), nt) {
                    cases.push(c);
                }
            }
        }
    }
    cases.extend(chains(ctx));
    cases.extend(snapshot_cases(ctx));
    cases.extend(condition_cases(ctx));
    cases.extend(iterable_form_cases(ctx));
    ctx.judge_all(cases, Via::Cli, None);
}
