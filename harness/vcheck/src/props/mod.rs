pub mod common;
pub mod conformance;
pub mod c01;
pub mod c02;
pub mod c03;
pub mod c04;
pub mod c05;
pub mod c06;
pub mod c07;
pub mod c08;
pub mod c09;
pub mod c10;
pub mod c11;
pub mod c12;
pub mod c13;
pub mod c14;
pub mod c15;
pub mod c16;
pub mod c17;
pub mod c18;
pub mod c19;
pub mod c20;
pub mod faults;

use std::fs;

use serde_json::Value;

use crate::engine::*;
use crate::pred::*;

pub fn dispatch(ctx: &Ctx) -> bool {
    match ctx.property.as_str() {
        "C01" => c01::run(ctx),
        "C02" => c02::run(ctx),
        "C03" => c03::run(ctx),
        "C04" => c04::run(ctx),
        "C05" => c05::run(ctx),
        "C06" => c06::run(ctx),
        "C07" => c07::run(ctx),
        "C08" => c08::run(ctx),
        "C09" => c09::run(ctx),
        "C10" => c10::run(ctx),
        "C11" => c11::run(ctx),
        "C12" => c12::run(ctx),
        "C13" => c13::run(ctx),
        "C14" => c14::run(ctx),
        "C15" => c15::run(ctx),
        "C16" => c16::run(ctx),
        "C17" => c17::run(ctx),
        "C18" => c18::run(ctx),
        "C19" => c19::run(ctx),
        "C20" => c20::run(ctx),
        _ => return false,
    }
    true
}

pub fn custom_for(property: &str) -> Option<CustomFn<'static>> {
    match property {
        "C03" => Some(&c03::custom),
        "C10" => Some(&c10::custom),
        "C18" => Some(&c18::custom),
        "C19" => Some(&c19::custom),
        _ => None,
    }
}

// Re-runs one saved case through the binary (no generator library involved).
pub fn replay(property: &str, path: &str) -> i32 {
    let text = match fs::read_to_string(path) {
        Ok(t) => t,
        Err(e) => {
            eprintln!("cannot read {path}: {e}");
            return 2;
        },
    };
    let v: Value = match serde_json::from_str(&text) {
        Ok(v) => v,
        Err(e) => {
            eprintln!("cannot parse {path}: {e}");
            return 2;
        },
    };
    let case = match Case::from_json(&v) {
        Some(c) => c,
        None => {
            eprintln!("{path} is not a replay file");
            return 2;
        },
    };
    match eval_case(&case, Via::Cli, custom_for(property)) {
        Verdict::Pass => {
            println!("replay: the case passes on this tree");
            0
        },
        Verdict::Skip(why) => {
            eprintln!("replay could not be decided: {why}");
            2
        },
        Verdict::Fail(reason) => {
            eprintln!("replay: {reason}");
            println!("VIOLATION property={property} replay={path}");
            1
        },
    }
}
