pub mod conformance;

use crate::engine::*;

pub fn dispatch(ctx: &Ctx) -> bool {
    match ctx.property.as_str() {
        _ => false,
    }
}

pub fn replay(_property: &str, _path: &str) -> i32 {
    2
}
