// C11 — list/string indexing, slicing and concatenation obey the sequence
// laws. Oracle: the specification written directly here (defined exactly for
// 0 <= i < len, 0 <= a <= b <= len, ...), not the reference interpreter.

use crate::engine::*;
use crate::pred::*;
use crate::props::common::*;

fn fmt_list(items: &[String]) -> String {
    let mut s = String::from("[\n");
    for i in items {
        s.push_str(&format!("    {},\n", i.replace('\n', "\n    ")));
    }
    s.push_str("]\n");
    s
}

fn bound_src(b: Option<i64>) -> String {
    match b { Some(v) => v.to_string(), None => String::new() }
}

fn err_case(kind: &str, src: String, note: String, nt: bool) -> (Case, bool) {
    let lines = src.matches('\n').count() as u32 + 1;
    let mut e = Expect::err(vec![]);
    e.diag = vec![DiagPred::WellFormed{max_line: lines}];
    (Case{property: "C11".into(), kind: kind.into(), srcs: vec![src.into_bytes()], pred: Pred::Expect(e), note}, nt)
}

fn edge(i: i64, len: i64) -> bool { i == 0 || i == len - 1 || i == len || i == -1 || i == len + 1 }

struct Seq {
    // Source of the literal and, for lists, the printed form of each element.
    lit: String,
    elems: Vec<String>,
    is_str: bool,
    ascii: bool,
    bytes: Vec<u8>,
}

fn list_seq(n: usize, containers: bool) -> Seq {
    let mut elems = vec![];
    let mut lits = vec![];
    for i in 0..n {
        if containers && i % 2 == 1 {
            lits.push(format!("[{}]", 20 + i));
            elems.push(format!("[\n    {},\n]", 20 + i));
        } else {
            lits.push(format!("{}", 10 + i));
            elems.push(format!("{}", 10 + i));
        }
    }
    Seq{lit: format!("[{}]", lits.join(", ")), elems, is_str: false, ascii: true, bytes: vec![]}
}

fn str_seq(s: &str) -> Seq {
    Seq{lit: format!("\"{s}\""), elems: vec![], is_str: true, ascii: s.is_ascii(), bytes: s.as_bytes().to_vec()}
}

impl Seq {
    fn len(&self) -> i64 { if self.is_str { self.bytes.len() as i64 } else { self.elems.len() as i64 } }
}

fn reads(ctx: &Ctx, s: &Seq, ok: &mut Vec<Snippet>, bad: &mut Vec<(Case, bool)>) {
    let len = s.len();
    // Index reads.
    for i in -2..=len + 2 {
        let defined = 0 <= i && i < len;
        let nt = edge(i, len) || !s.ascii;
        ctx.label(if defined { "index read: defined" } else { "index read: error" });
        if defined {
            if s.is_str {
                if s.ascii {
                    ok.push(Snippet{body: format!("s := {}\nprint(s[{i}])", s.lit), expect: format!("{}\n", s.bytes[i as usize] as char), nontrivial: nt, note: "string index".into()});
                } else {
                    // A single byte of a multi-byte string: observed by
                    // length and by comparison with the one-byte slice.
                    ok.push(Snippet{body: format!("s := {}\nprint(s[{i}] == s[{i}:{}])", s.lit, i + 1), expect: "true\n".into(), nontrivial: true, note: "byte index of a multi-byte string".into()});
                }
            } else {
                ok.push(Snippet{body: format!("xs := {}\nprint(xs[{i}])", s.lit), expect: format!("{}\n", s.elems[i as usize]), nontrivial: nt, note: "list index".into()});
            }
        } else {
            bad.push(err_case("index_read", format!("s := {}\nprint(s[{i}])\n", s.lit), format!("index {i} of length {len}"), nt));
        }
    }
    // Range reads.
    let mut bounds: Vec<Option<i64>> = vec![None];
    for v in -2..=len + 2 {
        bounds.push(Some(v));
    }
    for a in &bounds {
        for b in &bounds {
            let av = a.unwrap_or(0);
            let bv = b.unwrap_or(len);
            let defined = 0 <= av && av <= bv && bv <= len;
            let nt = a.is_none() || b.is_none() || av == bv || edge(av, len) || edge(bv, len) || !s.ascii;
            let expr = format!("[{}:{}]", bound_src(*a), bound_src(*b));
            ctx.label(if defined { "range read: defined" } else { "range read: error" });
            if defined {
                if s.is_str {
                    if s.ascii {
                        let sub = String::from_utf8_lossy(&s.bytes[av as usize..bv as usize]).to_string();
                        ok.push(Snippet{body: format!("s := {}\nprint(s{expr})\nprint(s{expr}->len())", s.lit), expect: format!("{sub}\n{}\n", bv - av), nontrivial: nt, note: "string range".into()});
                    } else {
                        // Length b-a, and k-th byte equals s[a+k].
                        let mut body = format!("s := {}\nt := s{expr}\nprint(t->type())", s.lit);
                        let mut expect = String::from("string\n");
                        for k in 0..(bv - av) {
                            body.push_str(&format!("\nprint(t[{k}] == s[{}])", av + k));
                            expect.push_str("true\n");
                        }
                        body.push_str(&format!("\nprint((s[:{av}] + t + s[{bv}:]) == s)"));
                        expect.push_str("true\n");
                        ok.push(Snippet{body, expect, nontrivial: true, note: "byte range of a multi-byte string".into()});
                    }
                } else {
                    ok.push(Snippet{body: format!("xs := {}\nprint(xs{expr})", s.lit), expect: fmt_list(&s.elems[av as usize..bv as usize]), nontrivial: nt, note: "list range".into()});
                }
            } else {
                bad.push(err_case("range_read", format!("s := {}\nprint(s{expr})\n", s.lit), format!("range {expr} of length {len}"), nt));
            }
        }
    }
    // Split / re-join law for every k, evaluated by the interpreter.
    for k in 0..=len {
        ok.push(Snippet{body: format!("s := {}\nprint((s[:{k}] + s[{k}:]) == s)\nprint((s[:{k}] + s[{k}:]) === s)", s.lit), expect: if s.is_str { "true\n".to_string() } else { "true\nfalse\n".to_string() }, nontrivial: true, note: "s[:k] + s[k:] == s".into()});
    }
    if s.is_str {
        // `===` is not defined on strings: drop that line.
        for sn in ok.iter_mut() {
            if sn.note == "s[:k] + s[k:] == s" && sn.body.contains(&s.lit) && sn.expect == "true\n" {
                let first: Vec<&str> = sn.body.lines().take(2).collect();
                sn.body = first.join("\n");
            }
        }
    }
}

fn index_assign(ctx: &Ctx, s: &Seq, ok: &mut Vec<Snippet>, bad: &mut Vec<(Case, bool)>) {
    let len = s.len();
    for i in -2..=len + 2 {
        let nt = edge(i, len);
        if 0 <= i && i < len {
            let mut e = s.elems.clone();
            e[i as usize] = "99".into();
            ctx.label("index assign: defined");
            ok.push(Snippet{body: format!("xs := {}\nxs[{i}] = 99\nprint(xs)", s.lit), expect: fmt_list(&e), nontrivial: nt, note: "xs[i] = v changes only i".into()});
        } else {
            ctx.label("index assign: error");
            bad.push(err_case("index_assign", format!("xs := {}\nxs[{i}] = 99\n", s.lit), format!("assign index {i} of length {len}"), nt));
        }
    }
}

fn range_assign(ctx: &Ctx, s: &Seq, ok: &mut Vec<Snippet>, bad: &mut Vec<(Case, bool)>, stride: usize) {
    let len = s.len();
    let mut bounds: Vec<Option<i64>> = vec![None];
    for v in -1..=len + 1 {
        bounds.push(Some(v));
    }
    let mut n = 0usize;
    for a in &bounds {
        for b in &bounds {
            let av = a.unwrap_or(0);
            let bv = b.unwrap_or(len);
            let valid_range = 0 <= av && av < bv && bv <= len;
            let width = (bv - av).max(0);
            for dl in [-1i64, 0, 1] {
                for rhs_str in [false, true] {
                    n += 1;
                    if n % stride != 0 {
                        continue;
                    }
                    let m = width + dl;
                    if m < 0 {
                        continue;
                    }
                    let (rhs, rhs_elems): (String, Vec<String>) =
                        if rhs_str {
                            let t: String = (0..m).map(|k| (b'p' + (k as u8 % 10)) as char).collect();
                            (format!("\"{t}\""), t.chars().map(|c| c.to_string()).collect())
                        } else {
                            let items: Vec<String> = (0..m).map(|k| format!("{}", 70 + k)).collect();
                            (format!("[{}]", items.join(", ")), items)
                        };
                    let target = format!("xs[{}:{}]", bound_src(*a), bound_src(*b));
                    let nt = a.is_none() || b.is_none() || edge(av, len) || edge(bv, len) || dl != 0;
                    if valid_range && dl == 0 {
                        let mut e = s.elems.clone();
                        for k in 0..m as usize {
                            e[av as usize + k] = rhs_elems[k].clone();
                        }
                        ctx.label("range assign: defined");
                        ok.push(Snippet{
                            body: format!("xs := {}\nys := {rhs}\n{target} = ys\nprint(xs)", s.lit),
                            expect: fmt_list(&e), nontrivial: nt, note: format!("{target} = ys, |ys| = {m}"),
                        });
                    } else {
                        ctx.label("range assign: error");
                        bad.push(err_case("range_assign", format!("xs := {}\nys := {rhs}\n{target} = ys\nprint(xs)\n", s.lit), format!("{target} = ys with |ys| = {m} on length {len}"), nt));
                    }
                }
            }
        }
    }
}

// The list itself (or an alias) on the right-hand side: valid only when the
// range is the whole list; every other bound pair is still an error.
fn self_range_assign(ctx: &Ctx, s: &Seq, ok: &mut Vec<Snippet>, bad: &mut Vec<(Case, bool)>) {
    let len = s.len();
    let mut bounds: Vec<Option<i64>> = vec![None];
    for v in -1..=len + 2 {
        bounds.push(Some(v));
    }
    for a in &bounds {
        for b in &bounds {
            let av = a.unwrap_or(0);
            let bv = b.unwrap_or(len);
            let valid = 0 <= av && av < bv && bv <= len && (bv - av) == len;
            for alias in [false, true] {
                let rhs = if alias { "ys" } else { "xs" };
                let src = format!("xs := {}\nys := xs\nxs[{}:{}] = {rhs}\nprint(xs)", s.lit, bound_src(*a), bound_src(*b));
                if valid {
                    ctx.label("range assign of the list to itself: defined");
                    ok.push(Snippet{body: src, expect: fmt_list(&s.elems), nontrivial: true, note: "xs[0:len] = xs is a no-op".into()});
                } else {
                    ctx.label("range assign of the list to itself: error");
                    bad.push(err_case("range_assign_self", format!("{src}\n"), format!("xs[{}:{}] = {rhs} on length {len}", bound_src(*a), bound_src(*b)), true));
                }
            }
        }
    }
    for k in ["\"a\"", "null", "[0]"] {
        bad.push(err_case("range_assign_self", format!("xs := {}\nxs[{k}:] = xs\nprint(xs)\n", s.lit), "non-integer bound with the list itself on the right".into(), true));
    }
}

// A string on the right-hand side is taken byte-wise, also when it contains
// multi-byte characters: the slots are compared with the bytes of `ys`.
fn range_assign_multibyte(ctx: &Ctx, ok: &mut Vec<Snippet>, bad: &mut Vec<(Case, bool)>) {
    for t in ["é", "né", "én", "日", "a🙂", "ñandú", "x日y"] {
        let m = t.len() as i64;
        for len in [m, m + 1, m + 2] {
            let items: Vec<String> = (0..len).map(|k| format!("{}", 10 + k)).collect();
            let lit = format!("[{}]", items.join(", "));
            for a in 0..=(len - 1) {
                for w in [m - 1, m, m + 1] {
                    let b = a + w;
                    if w <= 0 || b > len {
                        continue;
                    }
                    if w == m {
                        let mut body = format!("xs := {lit}\nys := \"{t}\"\nxs[{a}:{b}] = ys");
                        let mut expect = String::new();
                        for k in 0..m {
                            body.push_str(&format!("\nprint(xs[{}] == ys[{k}])", a + k));
                            expect.push_str("true\n");
                        }
                        for k in 0..len {
                            if k < a || k >= b {
                                body.push_str(&format!("\nprint(xs[{k}])"));
                                expect.push_str(&format!("{}\n", 10 + k));
                            }
                        }
                        ctx.label("range assign: multi-byte string, defined");
                        ok.push(Snippet{body, expect, nontrivial: true, note: "xs[a:b] = multi-byte string, byte-wise".into()});
                    } else {
                        ctx.label("range assign: multi-byte string, error");
                        bad.push(err_case("range_assign", format!("xs := {lit}\nys := \"{t}\"\nxs[{a}:{b}] = ys\nprint(0)\n"), format!("{m}-byte string into {w} slots"), true));
                    }
                }
            }
        }
    }
}

fn concat_laws(ok: &mut Vec<Snippet>, seqs: &[Seq]) {
    for s in seqs {
        for t in seqs {
            if s.is_str != t.is_str {
                continue;
            }
            let (ls, lt) = (s.len(), t.len());
            let mut body = format!("s := {}\nt := {}\nu := s + t", s.lit, t.lit);
            let mut expect = String::new();
            for i in 0..ls {
                body.push_str(&format!("\nprint(u[{i}] == s[{i}])"));
                expect.push_str("true\n");
            }
            for i in 0..lt {
                body.push_str(&format!("\nprint(u[{}] == t[{i}])", ls + i));
                expect.push_str("true\n");
            }
            body.push_str(&format!("\nprint(u[:{ls}] == s)\nprint(u[{ls}:] == t)"));
            expect.push_str("true\ntrue\n");
            if s.is_str {
                body.push_str("\nprint(u->len())");
                expect.push_str(&format!("{}\n", ls + lt));
            }
            ok.push(Snippet{body, expect, nontrivial: true, note: "(s+t)[len(s)+i] == t[i]".into()});
        }
    }
}

fn wrong_kinds(bad: &mut Vec<(Case, bool)>) {
    let kinds = ["null", "true", "\"1\"", "[1]", "{}", "print", "fn () { return 0; }"];
    for k in kinds {
        for tmpl in [
            "xs := [10, 11, 12]\nprint(xs[@])\n", "s := \"abc\"\nprint(s[@])\n",
            "xs := [10, 11, 12]\nprint(xs[@:2])\n", "xs := [10, 11, 12]\nprint(xs[0:@])\n",
            "s := \"abc\"\nprint(s[@:])\n", "s := \"abc\"\nprint(s[:@])\n",
            "xs := [10, 11, 12]\nxs[@] = 1\nprint(xs)\n", "xs := [10, 11, 12]\nxs[@:2] = [1]\nprint(xs)\n", "xs := [10, 11, 12]\nxs[1:@] = [1]\nprint(xs)\n",
        ] {
            bad.push(err_case("wrong_kind", tmpl.replace('@', k), format!("non-integer index / bound {k}"), true));
        }
    }
}

// A random history of reads and writes on one list of 0..300 elements,
// followed step by step on a Vec; the run ends at the first operation outside
// the domains (which must be a reported error after the output so far).
#[derive(Clone, PartialEq)]
enum El { I(i64), S(u8) }

fn el_print(e: &El, in_list: bool) -> String {
    match e {
        El::I(v) => v.to_string(),
        El::S(b) => { let _ = in_list; (*b as char).to_string() },
    }
}

fn els_print(v: &[El]) -> String {
    fmt_list(&v.iter().map(|e| el_print(e, true)).collect::<Vec<_>>())
}

fn history_case(t: &mut sdmodel::tape::Tape, ctx: &Ctx) -> Option<(Case, bool)> {
    let lens = [0i64, 1, 2, 3, 5, 8, 17, 33, 63, 64, 65, 66, 100, 127, 128, 129, 130, 200, 257, 300];
    let n0 = lens[t.pick(lens.len())];
    let mut model: Vec<El> = (0..n0).map(|k| El::I(k * 3 + 1)).collect();
    let mut src = match t.pick(3) {
        0 => format!("xs := {}\n", if n0 == 0 { "[]".to_string() } else { format!("[{}]", model.iter().map(|e| el_print(e, true)).collect::<Vec<_>>().join(", ")) }),
        1 => format!("xs := []\nfor [_, k] in 0 .. {n0} {{\n    xs += [k * 3 + 1]\n}}\n"),
        _ => format!("xs := 0 .. {n0}\nfor [i, k] in xs {{\n    xs[i] = k * 3 + 1\n}}\n"),
    };
    let mut out = String::new();
    let mut failed = false;
    let mut long_range = false;
    let steps = 2 + t.pick(10);
    let mut fresh = 1000i64;
    for _ in 0..steps {
        let len = model.len() as i64;
        // Mostly valid positions, sometimes one off either end.
        let pos = |t: &mut sdmodel::tape::Tape, hi: i64| -> i64 { if t.chance(1, 12) { [-1, hi + 1][t.pick(2)] } else { t.range(0, hi.max(0)) } };
        match t.pick(9) {
            0 => {
                let i = pos(t, len - 1);
                src.push_str(&format!("print(xs[{i}])\n"));
                if i < 0 || i >= len { failed = true; } else { out.push_str(&format!("{}\n", el_print(&model[i as usize], false))); }
            },
            1 => {
                let a = pos(t, len);
                let b = if t.chance(1, 8) { pos(t, len) } else { (a + t.range(0, 70)).min(len) };
                let (sa, sb) = (if a == 0 && t.chance(1, 2) { String::new() } else { a.to_string() }, if b == len && t.chance(1, 2) { String::new() } else { b.to_string() });
                src.push_str(&format!("print(xs[{sa}:{sb}])\n"));
                if a < 0 || b > len || a > b { failed = true; } else { out.push_str(&els_print(&model[a as usize..b as usize])); }
            },
            2 => {
                let i = pos(t, len - 1);
                fresh += 1;
                src.push_str(&format!("xs[{i}] = {fresh}\n"));
                if i < 0 || i >= len { failed = true; } else { model[i as usize] = El::I(fresh); }
            },
            3 | 4 | 5 => {
                // Range assignment from a list literal, a range expression, a
                // string, or a slice of xs itself.
                let a = pos(t, (len - 1).max(0));
                let w = [1i64, 2, 3, 7, 31, 63, 64, 65, 70, 100, 128, 129, 150][t.pick(13)];
                let b = if t.chance(1, 10) { pos(t, len) } else { (a + w).min(len) };
                let want = (b - a).max(0);
                let given = if t.chance(1, 10) { (want + [-1, 1][t.pick(2)]).max(0) } else { want };
                let (sa, sb) = (if a == 0 && t.chance(1, 2) { String::new() } else { a.to_string() }, if b == len && t.chance(1, 2) { String::new() } else { b.to_string() });
                let kind = t.pick(4);
                let (rhs, vals): (String, Vec<El>) = match kind {
                    0 => {
                        let vals: Vec<El> = (0..given).map(|k| El::I(fresh + 1 + k)).collect();
                        (format!("[{}]", vals.iter().map(|e| el_print(e, true)).collect::<Vec<_>>().join(", ")), vals)
                    },
                    1 => ((format!("{} .. {}", fresh + 1, fresh + 1 + given)), (0..given).map(|k| El::I(fresh + 1 + k)).collect()),
                    2 => {
                        let bytes: Vec<u8> = (0..given).map(|k| b'a' + ((k + fresh) % 26) as u8).collect();
                        (format!("\"{}\"", String::from_utf8_lossy(&bytes)), bytes.into_iter().map(El::S).collect())
                    },
                    _ => {
                        let c = if len - given >= 0 { t.range(0, len - given) } else { 0 };
                        if c + given > len {
                            ((format!("{} .. {}", fresh + 1, fresh + 1 + given)), (0..given).map(|k| El::I(fresh + 1 + k)).collect())
                        } else {
                            (format!("xs[{c}:{}]", c + given), model[c as usize..(c + given) as usize].to_vec())
                        }
                    },
                };
                fresh += given + 1;
                src.push_str(&format!("xs[{sa}:{sb}] = {rhs}\n"));
                // a < b is required by the statement of the property; a == b
                // with an empty right-hand side is left to the catalogue.
                if a < 0 || b > len || a >= b || given != want {
                    if a == b && a >= 0 && b <= len && given == 0 {
                        return None;
                    }
                    failed = true;
                } else {
                    if want > 64 { long_range = true; }
                    for (k, v) in vals.into_iter().enumerate() {
                        model[a as usize + k] = v;
                    }
                }
            },
            6 => {
                let k = t.range(0, 3);
                let vals: Vec<El> = (0..k).map(|j| El::I(fresh + 1 + j)).collect();
                fresh += k + 1;
                let lit = format!("[{}]", vals.iter().map(|e| el_print(e, true)).collect::<Vec<_>>().join(", "));
                if t.chance(1, 2) { src.push_str(&format!("xs += {lit}\n")); } else { src.push_str(&format!("xs = xs + {lit}\n")); }
                model.extend(vals);
            },
            7 => {
                let k = t.range(0, len);
                src.push_str(&format!("print((xs[:{k}] + xs[{k}:]) == xs)\n"));
                out.push_str("true\n");
            },
            _ => {
                let a = t.range(0, len);
                let b = t.range(a, len);
                let i = if b > a { t.range(0, b - a - 1) } else { 0 };
                if b > a {
                    src.push_str(&format!("print(xs[{a}:{b}][{i}] == xs[{}])\n", a + i));
                    out.push_str("true\n");
                }
            },
        }
        if failed {
            break;
        }
    }
    if !failed {
        src.push_str("print(xs)\n");
        out.push_str(&els_print(&model));
    }
    ctx.label(if failed { "history ending in a reported error" } else { "history ending normally" });
    if long_range { ctx.label("history with a range assignment wider than 64"); }
    let mut e = if failed { Expect::err(out.into_bytes()) } else { Expect::ok(out.into_bytes()) };
    if failed {
        e.diag = vec![DiagPred::WellFormed{max_line: src.matches('\n').count() as u32 + 1}];
    }
    Some((Case{property: "C11".into(), kind: "history".into(), srcs: vec![src.into_bytes()], pred: Pred::Expect(e), note: format!("random history on a list of {n0}")}, n0 > 8 || failed))
}

// Elements that are functions read off objects keep behaving as the element
// they came from after concatenation, slicing, indexing and range assignment.
fn method_elements(ok: &mut Vec<Snippet>) {
    let setup = "o1 := {\"tag\": \"a\", \"who\": fn () {\n    return this.tag\n}}\no2 := {\"tag\": \"b\", \"who\": o1.who}\ns := [o1.who, o2.who]\nt := [o2.who, o1.who, o2.who]\n";
    for (body, expect) in [
        ("u := s + t\nprint(u[0]())\nprint(u[1]())\nprint(u[2]())\nprint(u[3]())\nprint(u[4]())", "a\nb\nb\na\nb\n"),
        ("u := s + t\nprint(u[2 + 1]() == t[1]())\nprint(u[1]() == s[1]())", "true\ntrue\n"),
        ("u := s[:1] + s[1:]\nprint(u[0]())\nprint(u[1]())", "a\nb\n"),
        ("u := t[1:3]\nprint(u[0]())\nprint(u[1]())", "a\nb\n"),
        ("u := [] + t\nprint(u[0]())\nu += s\nprint(u[3]())\nprint(u[4]())", "b\na\nb\n"),
        ("s[0:1] = t[0:1]\nprint(s[0]())\nprint(s[1]())", "b\nb\n"),
        ("t[1:3] = s\nprint(t[0]())\nprint(t[1]())\nprint(t[2]())", "b\na\nb\n"),
        ("s[1] = t[1]\nprint(s[1]())\nprint((s + s)[3]())", "a\na\n"),
        ("u := [s.., t..]\nprint(u[4]())\nprint(u[0]())", "b\na\n"),
        ("u := s\nu += t\nprint(u[2]())\nprint(u[3]())\nprint(s[1]())", "b\na\nb\n"),
    ] {
        ok.push(Snippet{body: format!("{setup}{body}"), expect: expect.to_string(), nontrivial: true, note: "lists of methods read off objects".into()});
    }
}

// `xs[e]` reads the element that is at position e when the read happens, also
// when evaluating e itself writes to xs (the list is a reference, not a copy
// taken before the index is computed). Oracle: the reference interpreter.
fn effectful_index_cases(ctx: &Ctx) -> Vec<(Case, bool)> {
    let mut out = vec![];
    if !crate::backend::worker_available() {
        return out;
    }
    let pre = "slots := [0, 0, 0, 0]\nnext := 0\nfn push(v) {\n    slots[next] = v\n    next += 1\n    return next - 1\n}\nfn bump(i) {\n    slots[i] += 100\n    return i\n}\nfn swap01() {\n    [slots[0], slots[1]] = [slots[1], slots[0]]\n    return 0\n}\ns := \"abcd\"\nfn cut() {\n    s = \"wxyz\"\n    return 1\n}\n";
    let bodies = [
        "print(slots[push(11)])\nprint(slots[push(22)])\nprint(slots)", "print(slots[bump(2)])\nprint(slots[bump(2) + 0])\nprint(slots)", "slots[0] = 5\nprint(slots[swap01()])\nprint(slots)",
        "print(slots[push(7)] + slots[push(8)])\nprint(slots)", "print(slots[push(1):])\nprint(slots[:push(2) + 1])", "print([slots[push(3)], slots[push(4)]])",
        "print(s[cut()])\nprint(s)", "slots[push(9)] += 1\nprint(slots)", "slots[push(5)] = slots[push(6)]\nprint(slots)", "x := slots[push(40) + push(41) - 1]\nprint(x)\nprint(slots)",
        "xs := [[1, 2], [3, 4]]\nfn flip() {\n    xs[0][0] = 9\n    return 0\n}\nprint(xs[flip()][0])\nprint(xs[0][flip()])",
    ];
    for b in bodies {
        let src = format!("{pre}{b}\n");
        let prog = match crate::util::model_from_source(&src) { Ok(p) => p, Err(_) => { ctx.exclude("effectful-index program not readable"); continue; } };
        let rr = sdmodel::interp::run(&prog);
        let e = match &rr.outcome {
            sdmodel::interp::Outcome::Ok => Expect::ok(rr.out.clone()),
            sdmodel::interp::Outcome::Err(_) => Expect::err(rr.out.clone()),
            sdmodel::interp::Outcome::Discard(w) => { ctx.exclude(w); continue; },
        };
        ctx.label("index expression that writes to the indexed list");
        out.push((Case{property: "C11".into(), kind: "effectful_index".into(), srcs: vec![src.into_bytes()], pred: Pred::Expect(e), note: b.lines().next().unwrap_or("").to_string()}, true));
    }
    out
}

// "After `xs[i] = v` only position i changed" also when xs came out of a
// concatenation or a range read: every way of producing r from s and t
// (including empty operands) x every write into r, s or t afterwards; all
// three sequences are printed before and after. Oracle: the reference run.
fn written_results_cases(ctx: &Ctx) -> Vec<(Case, bool)> {
    let seqs = ["[]", "[1]", "[1, 2, 3]"];
    let seqt = ["[]", "[4]", "[4, 5]"];
    let makes = [
        ("r := s + t", 0), ("r := s\nr += t", 0), ("r := (s + t) + []", 0), ("r := [] + (s + t)", 0), ("r := s[:] + t[:]", 0), ("fn cat(a, b) {\n    out := []\n    for [_, c] in [a, b] {\n        out += c\n    }\n    return out\n}\nr := cat(s, t)", 0),
        ("r := s[:]", 1), ("r := s[0:]", 1), ("r := s[:1] + s[1:]", 2), ("r := s + []", 1), ("r := [] + s", 1), ("r := t + s[0:0]", 3),
    ];
    let mut srcs = vec![];
    for sl in seqs {
        for tl in seqt {
            for (mk, which) in makes {
                if which == 2 && sl == "[]" { continue; }
                let show = "print([r, s, t])\n";
                let n_s = sl.matches(|c: char| c.is_ascii_digit()).count();
                let n_t = tl.matches(|c: char| c.is_ascii_digit()).count();
                let n_r = match which { 0 => n_s + n_t, 1 | 2 => n_s, _ => n_t };
                let mut writes: Vec<String> = (0..n_r).map(|i| format!("r[{i}] = 99\n")).collect();
                if n_r >= 2 { writes.push("r[0:2] = \"xy\"\n".to_string()); }
                if n_r >= 1 { writes.push(format!("r[{}:] = [[7]]\n", n_r - 1)); }
                if n_s >= 1 { writes.push("s[0] = 77\n".to_string()); writes.push("s[:1] = [55]\n".to_string()); }
                if n_t >= 1 { writes.push(format!("t[{}] = 66\n", n_t - 1)); }
                for w in writes {
                    srcs.push((format!("s := {sl}\nt := {tl}\n{mk}\n{show}{w}{show}print([r === s, r === t])\n"), format!("`{}` from s = {sl}, t = {tl}; then `{}`", mk.lines().last().unwrap_or(mk), w.trim_end())));
                }
            }
        }
    }
    source_cases(ctx, "C11", "written_result", "write into a concatenation / range-read result or into its operands: nothing else changes", srcs)
}

pub fn run(ctx: &Ctx) {
    ctx.set_rule("every list of length 0..N (distinct ints; one family with container elements) and every string from a pool incl. 2/3/4-byte characters x every index in [-2, len+2] x every bound pair in ([-2, len+2] + omitted)^2, reads, xs[i] = v, xs[a:b] = ys with |ys| in {b-a-1, b-a, b-a+1} as list and string, concatenation of all pairs, all 7 non-integer kinds as index / bound, lists of bound methods through every building operation, random histories (2..11 reads, element and range writes from literals / range expressions / strings / own slices, appends) on lists of 0..300 elements followed on a Vec; 12 ways of producing r from s and t by concatenation / range read (incl. empty operands, an accumulator loop) x 3 x 3 operand lengths x every element / range write into r, s or t afterwards, all three printed before and after (reference run); oracle: the sequence laws written out in the harness. Non-trivial = an index or bound on an edge (0, len-1, len, a = b, omitted, -1, len+1) or a multi-byte string; distinct = distinct source texts");
    ctx.replay_corpus(None);
    let maxlen = if ctx.tier == Tier::Quick { 5 } else { 8 };
    let mut lists = vec![];
    for n in 0..=maxlen {
        lists.push(list_seq(n, false));
    }
    lists.push(list_seq(4, true));
    let mut strs: Vec<Seq> = ["", "a", "ab", "abc", "abcd", "abcde", "é", "aé", "éa", "日本", "a🙂b", "ñandú"].iter().map(|s| str_seq(s)).collect();
    if ctx.tier == Tier::Thorough {
        strs.push(str_seq("abcdefgh"));
        strs.push(str_seq("🙂🙂"));
    }
    let mut ok = vec![];
    let mut bad = vec![];
    for s in lists.iter().chain(strs.iter()) {
        reads(ctx, s, &mut ok, &mut bad);
    }
    for s in &lists {
        index_assign(ctx, s, &mut ok, &mut bad);
        range_assign(ctx, s, &mut ok, &mut bad, 1);
        self_range_assign(ctx, s, &mut ok, &mut bad);
    }
    // Long sequences: sizes beyond any small-collection fast path.
    for n in [17usize, 21, 33, 64] {
        let long = list_seq(n, false);
        let n = n as i64;
        for (a, b) in [(0, n), (1, n - 1), (n - 1, n), (n / 2, n / 2), (0, 0), (n, n), (20.min(n), n), (0, 21.min(n))] {
            ok.push(Snippet{body: format!("xs := {}\nprint(xs[{a}:{b}])\nprint((xs[:{a}] + xs[{a}:]) == xs)", long.lit), expect: format!("{}true\n", fmt_list(&long.elems[a as usize..b as usize])), nontrivial: true, note: format!("long list of {n}")});
        }
        ok.push(Snippet{body: format!("xs := {}\nxs[{}:{}] = {}\nprint(xs[{}])\nprint(xs[{}])", long.lit, n - 3, n, "\"abc\"", n - 1, n - 4), expect: format!("c\n{}\n", long.elems[(n - 4) as usize]), nontrivial: true, note: format!("long list of {n}: range assign at the end")});
        bad.push(err_case("index_read", format!("xs := {}\nprint(xs[{n}])\n", long.lit), format!("index {n} of length {n}"), true));
        let word: String = (0..n).map(|i| (b'a' + (i % 26) as u8) as char).collect();
        ok.push(Snippet{body: format!("s := \"{word}\"\nprint(s[{}:])\nprint(s->len())\nprint((s[:{}] + s[{}:]) == s)", n - 2, n / 2, n / 2), expect: format!("{}\n{n}\ntrue\n", &word[(n - 2) as usize..]), nontrivial: true, note: format!("long string of {n}")});
    }
    range_assign_multibyte(ctx, &mut ok, &mut bad);
    concat_laws(&mut ok, &lists);
    concat_laws(&mut ok, &strs);
    wrong_kinds(&mut bad);
    method_elements(&mut ok);
    ctx.mark_exhaustive(&format!("lists of length 0..={maxlen} and {} strings x all indices / bound pairs / range assignments", strs.len()));
    judge_snippets(ctx, "sequence", &ok, 60);
    ctx.judge_all(bad, Via::Cli, None);
    ctx.judge_all(effectful_index_cases(ctx), Via::Cli, None);
    ctx.judge_all(written_results_cases(ctx), Via::Cli, None);
    let n = ctx.n(20_000, 4_000_000);
    let via = if ctx.tier == Tier::Quick { Via::Cli } else { Via::Fast };
    ctx.proptest_tapes("histories", n, 200, via, None, |t| history_case(t, ctx));
}
