// Parsing of the diagnostic the interpreter writes to stderr.

#[derive(Clone, Debug, PartialEq, Eq)]
pub struct TraceLine {
    pub line: u32,
    pub col: u32,
    pub func: String,
}

#[derive(Clone, Debug)]
pub struct Diag {
    pub line: u32,
    pub col: u32,
    pub in_func: Option<String>,
    pub msg: String,
    pub trace: Option<Vec<TraceLine>>,
    // Everything after the first line that is not a well-formed trace.
    pub extra: Vec<String>,
}

fn take_uint(s: &str) -> Option<(u32, &str)> {
    let n = s.bytes().take_while(|b| b.is_ascii_digit()).count();
    if n == 0 || n > 9 {
        return None;
    }
    Some((s[..n].parse().ok()?, &s[n..]))
}

// `<path>:<line>:<col>: ` prefix.
pub fn take_loc<'a>(s: &'a str, path: &str) -> Option<(u32, u32, &'a str)> {
    let rest = s.strip_prefix(path)?.strip_prefix(':')?;
    let (line, rest) = take_uint(rest)?;
    let rest = rest.strip_prefix(':')?;
    let (col, rest) = take_uint(rest)?;
    let rest = rest.strip_prefix(": ")?;
    Some((line, col, rest))
}

pub fn parse_stderr(stderr: &str, path: &str) -> Result<Diag, String> {
    if !stderr.ends_with('\n') {
        return Err("stderr does not end with a newline".to_string());
    }
    let mut lines = stderr[..stderr.len() - 1].split('\n');
    let first = lines.next().unwrap_or("");
    let (line, col, rest) = take_loc(first, path)
        .ok_or_else(|| format!("first stderr line is not `{path}:<line>:<col>: <message>`: {first:?}"))?;
    let (in_func, msg) =
        if let Some(r) = rest.strip_prefix("in '") {
            match r.find("': ") {
                Some(i) => (Some(r[..i].to_string()), r[i + 3..].to_string()),
                None => (None, rest.to_string()),
            }
        } else {
            (None, rest.to_string())
        };
    if msg.trim().is_empty() {
        return Err("empty message".to_string());
    }
    let rest_lines: Vec<&str> = lines.collect();
    let mut trace = None;
    let mut extra = vec![];
    if let Some(pos) = rest_lines.iter().position(|l| *l == "Stacktrace:") {
        // Lines before `Stacktrace:` belong to a multi-line message.
        for l in &rest_lines[..pos] {
            extra.push(l.to_string());
        }
        let mut t = vec![];
        for l in &rest_lines[pos + 1..] {
            let parsed = l.strip_prefix("  ").and_then(|l| take_loc(l, path)).and_then(|(ln, c, r)| {
                let r = r.strip_prefix("in '")?;
                let r = r.strip_suffix('\'')?;
                Some(TraceLine{line: ln, col: c, func: r.to_string()})
            });
            match parsed {
                Some(tl) => t.push(tl),
                None => extra.push(format!("bad trace line: {l}")),
            }
        }
        trace = Some(t);
    } else {
        for l in rest_lines {
            extra.push(l.to_string());
        }
    }
    Ok(Diag{line, col, in_func, msg, trace, extra})
}

// Words that give away an internal identifier in a message produced for a
// program that itself only contains lower-case identifiers.
pub fn internal_identifier(msg: &str) -> Option<String> {
    if msg.contains("dev error") || msg.contains("dev err") {
        return Some("dev error".to_string());
    }
    // `Name { field: ..` / `Name(..` Debug syntax or a CamelCase word with at
    // least two humps, e.g. EvalReturnExprFailed, UnrecognizedToken.
    let mut word = String::new();
    let mut out = None;
    let check = |w: &str| -> bool {
        let b = w.as_bytes();
        if b.len() < 4 || !b[0].is_ascii_uppercase() {
            return false;
        }
        let humps = w.chars().filter(|c| c.is_ascii_uppercase()).count();
        let lowers = w.chars().filter(|c| c.is_ascii_lowercase()).count();
        humps >= 2 && lowers >= 2 && w.chars().all(|c| c.is_ascii_alphanumeric())
    };
    for c in msg.chars().chain(std::iter::once(' ')) {
        if c.is_ascii_alphanumeric() || c == '_' {
            word.push(c);
        } else {
            if out.is_none() && check(&word) {
                out = Some(word.clone());
            }
            word.clear();
        }
    }
    out
}
