// Observation back-ends: the real `seed` binary (authoritative) and the
// in-process worker (the repository's sources compiled into `seedworker`).

use std::cell::RefCell;
use std::collections::HashMap;
use std::fs;
use std::io::Read;
use std::io::Write;
use std::os::unix::process::ExitStatusExt;
use std::path::Path;
use std::path::PathBuf;
use std::process::Child;
use std::process::ChildStdin;
use std::process::ChildStdout;
use std::process::Command;
use std::process::Stdio;
use std::sync::atomic::AtomicU64;
use std::sync::atomic::AtomicUsize;
use std::sync::atomic::Ordering;
use std::sync::Mutex;
use std::sync::OnceLock;
use std::time::Duration;
use std::time::Instant;

pub const VERIF: &str = "/verif";

pub fn repo_dir() -> String {
    std::env::var("SEED_REPO").unwrap_or_else(|_| "/repo".to_string())
}

fn cache_tag() -> String {
    let r = repo_dir();
    if r == "/repo" {
        String::new()
    } else {
        let mut h: u64 = 1469598103934665603;
        for b in r.bytes() {
            h = (h ^ b as u64).wrapping_mul(1099511628211);
        }
        format!("-{h:016x}")
    }
}

pub fn cli_target_dir() -> String { format!("{VERIF}/.cache/cli-target{}", cache_tag()) }
pub fn harness_target_dir() -> String { format!("{VERIF}/.cache/harness-target{}", cache_tag()) }
pub fn cli_bin() -> String { format!("{}/debug/seed", cli_target_dir()) }
pub fn worker_bin() -> String { format!("{}/debug/seedworker", harness_target_dir()) }

#[derive(Clone, Debug, PartialEq, Eq)]
pub enum Status {
    Exit(i32),
    Signal(i32),
    Timeout,
}

#[derive(Clone, Debug)]
pub struct Obs {
    pub out: Vec<u8>,
    pub err: Vec<u8>,
    pub status: Status,
}

impl Obs {
    pub fn ok(&self) -> bool { self.status == Status::Exit(0) }
    pub fn reported(&self) -> bool { self.status == Status::Exit(103) }
    pub fn crashed(&self) -> bool {
        !(self.ok() || self.reported())
            || contains(&self.err, b"panicked at")
            || contains(&self.err, b"overflowed its stack")
    }
    pub fn out_s(&self) -> String { String::from_utf8_lossy(&self.out).to_string() }
    pub fn err_s(&self) -> String { String::from_utf8_lossy(&self.err).to_string() }
    pub fn brief(&self) -> String {
        format!("status={:?} stdout={:?} stderr={:?}", self.status, clip(&self.out_s(), 400), clip(&self.err_s(), 600))
    }
}

pub fn clip(s: &str, n: usize) -> String {
    if s.chars().count() <= n {
        s.to_string()
    } else {
        let t: String = s.chars().take(n).collect();
        format!("{t}…")
    }
}

pub fn contains(h: &[u8], n: &[u8]) -> bool {
    if n.is_empty() || h.len() < n.len() {
        return n.is_empty();
    }
    h.windows(n.len()).any(|w| w == n)
}

// ------------------------------------------------------------------ builds

fn run_build(mut cmd: Command, what: &str) -> Result<(), String> {
    cmd.env("CARGO_NET_OFFLINE", "true").env("RUST_BACKTRACE", "0");
    cmd.stdin(Stdio::null());
    let out = cmd.output().map_err(|e| format!("{what}: cannot start cargo: {e}"))?;
    if out.status.success() {
        Ok(())
    } else {
        let e = String::from_utf8_lossy(&out.stderr);
        let tail: Vec<&str> = e.lines().rev().take(40).collect();
        let tail: Vec<&str> = tail.into_iter().rev().collect();
        Err(format!("{what} failed:\n{}", tail.join("\n")))
    }
}

// Builds the `seed` binary from the repository's current working tree (dev
// profile, the one the repository's own tests exercise) into a private target
// directory.
pub fn build_cli() -> Result<(), String> {
    let mut c = Command::new("cargo");
    c.arg("build").arg("--offline").arg("--quiet")
        .arg("--manifest-path").arg(format!("{}/Cargo.toml", repo_dir()))
        .arg("--target-dir").arg(cli_target_dir())
        .arg("--bin").arg("seed");
    run_build(c, "build of the seed binary")
}

// Builds the in-process worker from the same sources. If the copy of
// `main()`'s diagnostic formatting no longer compiles against the repository
// (a refactor of main.rs), progressively smaller builds are tried: without
// the in-process `run`, then without the repository's parse-error renderer.
// Returns the capability string of the build that worked.
pub fn build_worker() -> Result<String, String> {
    let mut last = String::new();
    for (flags, caps) in [(vec![], "run,perr"), (vec!["--no-default-features", "--features", "perr"], "perr"), (vec!["--no-default-features"], "")] {
        let mut c = Command::new("cargo");
        c.arg("build").arg("--quiet").arg("-p").arg("seedlink")
            .arg("--manifest-path").arg(format!("{VERIF}/harness/Cargo.toml"))
            .arg("--target-dir").arg(harness_target_dir())
            .env("SEED_REPO", repo_dir());
        for f in &flags {
            c.arg(f);
        }
        match run_build(c, "build of the in-process worker") {
            Ok(()) => return Ok(caps.to_string()),
            Err(e) => last = e,
        }
    }
    Err(last)
}

static WORKER_RUN: OnceLock<bool> = OnceLock::new();
pub fn set_worker_can_run(ok: bool) { let _ = WORKER_RUN.set(ok); }
pub fn worker_can_run() -> bool { *WORKER_RUN.get().unwrap_or(&false) }

// ----------------------------------------------------------------- scratch

static SCRATCH_ROOT: OnceLock<PathBuf> = OnceLock::new();
static THREAD_SEQ: AtomicUsize = AtomicUsize::new(0);

pub fn scratch_root() -> &'static PathBuf {
    SCRATCH_ROOT.get_or_init(|| {
        let pid = std::process::id();
        let mut p = PathBuf::from(format!("/dev/shm/seed-verif.{pid}"));
        if fs::create_dir_all(&p).is_err() {
            p = PathBuf::from(format!("{VERIF}/.cache/scratch/{pid}"));
            fs::create_dir_all(&p).expect("scratch dir");
        }
        p
    })
}

pub fn cleanup_scratch() {
    if let Some(p) = SCRATCH_ROOT.get() {
        let _ = fs::remove_dir_all(p);
    }
}

thread_local! {
    static THREAD_DIR: RefCell<Option<PathBuf>> = const { RefCell::new(None) };
    static WORKER: RefCell<Option<Worker>> = const { RefCell::new(None) };
}

pub fn thread_dir() -> PathBuf {
    THREAD_DIR.with(|d| {
        let mut d = d.borrow_mut();
        if d.is_none() {
            let k = THREAD_SEQ.fetch_add(1, Ordering::SeqCst);
            let p = scratch_root().join(format!("t{k}"));
            fs::create_dir_all(&p).expect("thread scratch");
            *d = Some(p);
        }
        d.clone().unwrap()
    })
}

// ---------------------------------------------------------------- watchdog

struct Watch {
    deadline: Instant,
    killed: bool,
}

static WATCHED: OnceLock<Mutex<HashMap<u32, Watch>>> = OnceLock::new();

fn watched() -> &'static Mutex<HashMap<u32, Watch>> {
    WATCHED.get_or_init(|| {
        std::thread::spawn(|| loop {
            std::thread::sleep(Duration::from_millis(100));
            let now = Instant::now();
            let mut w = watched().lock().unwrap();
            for (pid, e) in w.iter_mut() {
                if !e.killed && now > e.deadline {
                    unsafe { libc::kill(*pid as i32, libc::SIGKILL); }
                    e.killed = true;
                }
            }
        });
        Mutex::new(HashMap::new())
    })
}

pub static CLI_RUNS: AtomicU64 = AtomicU64::new(0);
pub static INPROC_RUNS: AtomicU64 = AtomicU64::new(0);

#[derive(Clone, Debug)]
pub struct CliOpts {
    pub timeout: Duration,
    // Path argument given to the binary and the directory to run in; default
    // is `case.sd` in the thread's scratch directory.
    pub arg: Option<String>,
    pub cwd: Option<PathBuf>,
    pub env: Vec<(String, String)>,
    pub stdin_closed: bool,
    // stdin is an open pipe nobody writes to (closed when the child ends).
    pub stdin_pipe: bool,
    // stdout goes to a pipe instead of a file.
    pub stdout_pipe: bool,
    // Repeat a run that hit the time limit once with six times the limit.
    pub patient: bool,
    // Run under `prlimit --as=4GiB` (programs not vetted by the reference).
    pub mem_limit: bool,
}

impl Default for CliOpts {
    fn default() -> CliOpts {
        CliOpts{timeout: Duration::from_secs(5), arg: None, cwd: None, env: vec![], stdin_closed: false, stdin_pipe: false, stdout_pipe: false, patient: true, mem_limit: false}
    }
}

pub fn run_cli(src: &[u8]) -> Obs { run_cli_opts(src, &CliOpts::default()) }

pub fn run_cli_opts(src: &[u8], opts: &CliOpts) -> Obs {
    let dir = thread_dir();
    fs::write(dir.join("case.sd"), src).expect("write case");
    run_cli_at(&dir, opts)
}

// Runs the binary on an already written script. A run that exceeds the time
// limit is repeated once with six times the limit before it is called a hang
// (the machine may simply be busy).
pub fn run_cli_at(dir: &Path, opts: &CliOpts) -> Obs {
    let o = run_cli_once(dir, opts);
    if o.status != Status::Timeout || !opts.patient {
        return o;
    }
    let mut patient = opts.clone();
    patient.timeout = opts.timeout * 6;
    run_cli_once(dir, &patient)
}

fn run_cli_once(dir: &Path, opts: &CliOpts) -> Obs {
    CLI_RUNS.fetch_add(1, Ordering::Relaxed);
    let out_path = dir.join("stdout.bin");
    let err_path = dir.join("stderr.bin");
    let out_f = fs::File::create(&out_path).expect("stdout file");
    let err_f = fs::File::create(&err_path).expect("stderr file");
    let mut c = if opts.mem_limit && Path::new("/usr/bin/prlimit").exists() {
        let mut c = Command::new("/usr/bin/prlimit");
        c.arg("--as=4294967296").arg(cli_bin());
        c
    } else {
        Command::new(cli_bin())
    };
    c.arg(opts.arg.clone().unwrap_or_else(|| "case.sd".to_string()));
    c.current_dir(opts.cwd.clone().unwrap_or_else(|| dir.to_path_buf()));
    c.env_clear();
    c.env("RUST_BACKTRACE", "0");
    for (k, v) in &opts.env {
        c.env(k, v);
    }
    c.stdin(if opts.stdin_pipe { Stdio::piped() } else { Stdio::null() });
    if opts.stdout_pipe {
        c.stdout(Stdio::piped()).stderr(err_f);
    } else {
        c.stdout(out_f).stderr(err_f);
    }
    // (No pre_exec in the common case: it would force fork+exec of this
    // large multi-threaded process instead of posix_spawn, ten times slower.)
    if opts.stdin_closed {
        unsafe {
            use std::os::unix::process::CommandExt;
            c.pre_exec(|| {
                libc::close(0);
                Ok(())
            });
        }
    }
    let mut child: Child = match c.spawn() {
        Ok(c) => c,
        Err(e) => {
            return Obs{out: vec![], err: format!("spawn failed: {e}").into_bytes(), status: Status::Exit(-1)};
        },
    };
    let pid = child.id();
    watched().lock().unwrap().insert(pid, Watch{deadline: Instant::now() + opts.timeout, killed: false});
    let mut piped_out: Vec<u8> = vec![];
    if opts.stdout_pipe {
        if let Some(mut so) = child.stdout.take() {
            let _ = so.read_to_end(&mut piped_out);
        }
    }
    let st = child.wait().expect("wait");
    let killed = watched().lock().unwrap().remove(&pid).map(|w| w.killed).unwrap_or(false);
    let status =
        if killed {
            Status::Timeout
        } else if let Some(c) = st.code() {
            Status::Exit(c)
        } else {
            Status::Signal(st.signal().unwrap_or(0))
        };
    let out = if opts.stdout_pipe { piped_out } else { fs::read(&out_path).unwrap_or_default() };
    let err = fs::read(&err_path).unwrap_or_default();
    Obs{out, err, status}
}

// ------------------------------------------------------------------ worker

pub struct Worker {
    child: Child,
    stdin: ChildStdin,
    stdout: ChildStdout,
    // Run requests served. The interpreter under test never frees a closure
    // stored in the scope it captures (an Arc cycle), so a worker is replaced
    // after a fixed number of runs to keep its memory bounded.
    runs: u32,
}

const WORKER_MAX_RUNS: u32 = 20_000;

static WORKER_OK: OnceLock<bool> = OnceLock::new();

pub fn set_worker_available(ok: bool) { let _ = WORKER_OK.set(ok); }
pub fn worker_available() -> bool { *WORKER_OK.get().unwrap_or(&false) }

#[derive(Debug)]
pub enum WorkerErr {
    // The worker died (stack overflow, abort) or stalled on this request.
    Died,
    Stalled,
    Unavailable,
}

impl Worker {
    fn spawn() -> Option<Worker> {
        let dir = thread_dir().join("w");
        let mut child = Command::new(worker_bin())
            .arg(&dir)
            .env_clear()
            .env("RUST_BACKTRACE", "0")
            .stdin(Stdio::piped())
            .stdout(Stdio::piped())
            .stderr(Stdio::null())
            .spawn()
            .ok()?;
        let stdin = child.stdin.take()?;
        let stdout = child.stdout.take()?;
        Some(Worker{child, stdin, stdout, runs: 0})
    }

    fn request(&mut self, op: u8, payload: &[u8], timeout: Duration) -> Result<Vec<u8>, WorkerErr> {
        let mut hdr = vec![op];
        hdr.extend_from_slice(&(payload.len() as u32).to_le_bytes());
        if self.stdin.write_all(&hdr).is_err() || self.stdin.write_all(payload).is_err() || self.stdin.flush().is_err() {
            return Err(WorkerErr::Died);
        }
        let pid = self.child.id();
        watched().lock().unwrap().insert(pid, Watch{deadline: Instant::now() + timeout, killed: false});
        let mut len = [0u8; 4];
        let r = self.stdout.read_exact(&mut len);
        let mut resp = vec![];
        let r = r.and_then(|_| {
            resp = vec![0u8; u32::from_le_bytes(len) as usize];
            self.stdout.read_exact(&mut resp)
        });
        let killed = watched().lock().unwrap().remove(&pid).map(|w| w.killed).unwrap_or(false);
        match r {
            Ok(()) => Ok(resp),
            Err(_) => if killed { Err(WorkerErr::Stalled) } else { Err(WorkerErr::Died) },
        }
    }
}

impl Drop for Worker {
    fn drop(&mut self) {
        let _ = self.child.kill();
        let _ = self.child.wait();
    }
}

pub fn worker_request(op: u8, payload: &[u8], timeout: Duration) -> Result<Vec<u8>, WorkerErr> {
    if !worker_available() {
        return Err(WorkerErr::Unavailable);
    }
    WORKER.with(|w| {
        let mut w = w.borrow_mut();
        if w.is_none() {
            *w = Worker::spawn();
        }
        let wk = match w.as_mut() {
            Some(wk) => wk,
            None => return Err(WorkerErr::Unavailable),
        };
        let r = wk.request(op, payload, timeout);
        if op == 3 {
            wk.runs += 1;
        }
        if r.is_err() || wk.runs >= WORKER_MAX_RUNS {
            *w = None;
        }
        r
    })
}

#[derive(Clone, Debug)]
pub struct TokRec {
    pub sl: u32, pub sc: u32, pub el: u32, pub ec: u32,
    pub dbg: String,
}

pub fn inproc_lex(src: &str) -> Result<(Vec<TokRec>, Option<String>), WorkerErr> {
    let r = worker_request(1, src.as_bytes(), Duration::from_secs(10))?;
    let text = String::from_utf8_lossy(&r).to_string();
    let mut toks = vec![];
    let mut err = None;
    for line in text.lines() {
        if let Some(rest) = line.strip_prefix("T ") {
            let mut it = rest.splitn(5, ' ');
            let sl = it.next().and_then(|x| x.parse().ok()).unwrap_or(0);
            let sc = it.next().and_then(|x| x.parse().ok()).unwrap_or(0);
            let el = it.next().and_then(|x| x.parse().ok()).unwrap_or(0);
            let ec = it.next().and_then(|x| x.parse().ok()).unwrap_or(0);
            let dbg = it.next().unwrap_or("").to_string();
            toks.push(TokRec{sl, sc, el, ec, dbg});
        } else if let Some(rest) = line.strip_prefix("E ") {
            err = Some(rest.to_string());
        }
    }
    Ok((toks, err))
}

pub enum ParseRes {
    Tree(String),
    Rejected{line: u32, col: u32, msg: String},
}

fn parse_res(r: Vec<u8>) -> ParseRes {
    let text = String::from_utf8_lossy(&r).to_string();
    if let Some(t) = text.strip_prefix('T') {
        ParseRes::Tree(t.to_string())
    } else {
        let rest = text.strip_prefix('R').unwrap_or(&text);
        let mut it = rest.splitn(3, ' ');
        let line = it.next().and_then(|x| x.parse().ok()).unwrap_or(0);
        let col = it.next().and_then(|x| x.parse().ok()).unwrap_or(0);
        ParseRes::Rejected{line, col, msg: it.next().unwrap_or("").to_string()}
    }
}

pub fn inproc_parse(src: &str) -> Result<ParseRes, WorkerErr> {
    Ok(parse_res(worker_request(2, src.as_bytes(), Duration::from_secs(10))?))
}

pub fn inproc_parse_expr(src: &str) -> Result<ParseRes, WorkerErr> {
    Ok(parse_res(worker_request(4, src.as_bytes(), Duration::from_secs(10))?))
}

pub enum FrontRes { Accepted, Rejected, Panicked(String), NotUtf8 }

pub fn inproc_front(src: &[u8]) -> Result<FrontRes, WorkerErr> {
    let r = worker_request(5, src, Duration::from_secs(10))?;
    Ok(match r.first() {
        Some(b'A') => FrontRes::Accepted,
        Some(b'J') => FrontRes::Rejected,
        Some(b'X') => FrontRes::NotUtf8,
        _ => FrontRes::Panicked(String::from_utf8_lossy(&r[1.min(r.len())..]).to_string()),
    })
}

// Runs a script in-process. The exit status is what the binary would end
// with; a dead or stalled worker is reported as such and has to be classified
// through the CLI by the caller.
pub fn inproc_run(src: &[u8]) -> Result<Obs, WorkerErr> {
    if !worker_can_run() {
        return Err(WorkerErr::Unavailable);
    }
    INPROC_RUNS.fetch_add(1, Ordering::Relaxed);
    let r = worker_request(3, src, Duration::from_secs(10))?;
    let nl1 = r.iter().position(|b| *b == b'\n').unwrap_or(0);
    let code: i32 = String::from_utf8_lossy(&r[..nl1]).parse().unwrap_or(-1);
    let rest = &r[(nl1 + 1).min(r.len())..];
    let nl2 = rest.iter().position(|b| *b == b'\n').unwrap_or(0);
    let n: usize = String::from_utf8_lossy(&rest[..nl2]).parse().unwrap_or(0);
    let body = &rest[(nl2 + 1).min(rest.len())..];
    let n = n.min(body.len());
    Ok(Obs{out: body[..n].to_vec(), err: body[n..].to_vec(), status: Status::Exit(code)})
}

// Runs through the fastest available back-end; falls back to the CLI when the
// worker is unavailable or died on this case.
pub fn run_fast(src: &[u8]) -> Obs {
    match inproc_run(src) {
        Ok(o) => o,
        Err(_) => run_cli(src),
    }
}
