// Run context shared by all checks: counting, sampling, violation handling,
// known findings, evidence.

use std::collections::BTreeMap;
use std::collections::HashSet;
use std::fs;
use std::hash::Hash;
use std::hash::Hasher;
use std::sync::atomic::AtomicBool;
use std::sync::atomic::AtomicU64;
use std::sync::atomic::Ordering;
use std::sync::Mutex;
use std::time::Instant;

use proptest::strategy::Strategy;
use proptest::test_runner::Config;
use proptest::test_runner::RngAlgorithm;
use proptest::test_runner::TestCaseError;
use proptest::test_runner::TestError;
use proptest::test_runner::TestRng;
use proptest::test_runner::TestRunner;
use rayon::prelude::*;
use serde_json::json;
use serde_json::Value;

use sdmodel::tape::Tape;

use crate::backend::*;
use crate::pred::*;

#[derive(Clone, Copy, Debug, PartialEq, Eq)]
pub enum Tier { Quick, Thorough }

pub fn fnv(s: &[u8]) -> u64 {
    let mut h = std::collections::hash_map::DefaultHasher::new();
    s.hash(&mut h);
    h.finish()
}

pub struct Violation {
    pub case: Case,
    pub reason: String,
    pub sig: String,
}

pub struct Ctx {
    pub property: String,
    pub tier: Tier,
    pub seed: u64,
    pub scale: f64,
    pub start: Instant,
    pub evaluations: AtomicU64,
    pub skipped: AtomicU64,
    distinct: Mutex<HashSet<u64>>,
    labels: Mutex<BTreeMap<String, u64>>,
    excluded: Mutex<BTreeMap<String, u64>>,
    samples: Mutex<Vec<Value>>,
    sample_seen: AtomicU64,
    violations: Mutex<Vec<Violation>>,
    pub stop: AtomicBool,
    pub exhaustive: Mutex<Vec<String>>,
    pub notes: Mutex<Vec<String>>,
    pub rule: Mutex<String>,
    pub extra: Mutex<BTreeMap<String, Value>>,
    pub regressions_replayed: AtomicU64,
    pub harness_faults: Mutex<Vec<String>>,
    pub timeouts: AtomicU64,
}

pub const MAX_VIOLATIONS: usize = 8;

impl Ctx {
    pub fn new(property: &str, tier: Tier, seed: u64) -> Ctx {
        let scale = std::env::var("VERIF_SCALE").ok().and_then(|s| s.parse().ok()).unwrap_or(1.0);
        Ctx{
            property: property.to_string(), tier, seed, scale, start: Instant::now(),
            evaluations: AtomicU64::new(0), skipped: AtomicU64::new(0),
            distinct: Mutex::new(HashSet::new()), labels: Mutex::new(BTreeMap::new()),
            excluded: Mutex::new(BTreeMap::new()), samples: Mutex::new(vec![]),
            sample_seen: AtomicU64::new(0), violations: Mutex::new(vec![]),
            stop: AtomicBool::new(false), exhaustive: Mutex::new(vec![]),
            notes: Mutex::new(vec![]), rule: Mutex::new(String::new()),
            extra: Mutex::new(BTreeMap::new()), regressions_replayed: AtomicU64::new(0),
            harness_faults: Mutex::new(vec![]),
            timeouts: AtomicU64::new(0),
        }
    }

    // Work size for the tier, scaled by VERIF_SCALE.
    pub fn n(&self, quick: u64, thorough: u64) -> u64 {
        let base = if self.tier == Tier::Quick { quick } else { thorough };
        ((base as f64) * self.scale).max(1.0) as u64
    }

    pub fn sub_seed(&self, name: &str, shard: u64) -> u64 {
        fnv(format!("{}:{}:{}:{}", self.property, name, self.seed, shard).as_bytes())
    }

    pub fn label(&self, l: &str) { self.label_n(l, 1); }

    pub fn label_n(&self, l: &str, n: u64) {
        *self.labels.lock().unwrap().entry(l.to_string()).or_insert(0) += n;
    }

    pub fn exclude(&self, why: &str) {
        *self.excluded.lock().unwrap().entry(why.to_string()).or_insert(0) += 1;
    }

    pub fn label_count(&self, l: &str) -> u64 {
        self.labels.lock().unwrap().get(l).copied().unwrap_or(0)
    }

    pub fn set_rule(&self, r: &str) { *self.rule.lock().unwrap() = r.to_string(); }
    pub fn note(&self, n: &str) { self.notes.lock().unwrap().push(n.to_string()); }
    pub fn set_extra(&self, k: &str, v: Value) { self.extra.lock().unwrap().insert(k.to_string(), v); }
    pub fn mark_exhaustive(&self, what: &str) { self.exhaustive.lock().unwrap().push(what.to_string()); }

    pub fn stopped(&self) -> bool { self.stop.load(Ordering::Relaxed) }

    // Counts one executed case; `nontrivial` cases are de-duplicated by text.
    pub fn count(&self, case: &Case, nontrivial: bool) {
        self.evaluations.fetch_add(1, Ordering::Relaxed);
        if nontrivial {
            let mut h = 0u64;
            for s in &case.srcs {
                h = h.wrapping_mul(31).wrapping_add(fnv(s));
            }
            self.distinct.lock().unwrap().insert(h ^ fnv(case.kind.as_bytes()));
        }
        // Reservoir-free sampling: keep the first few of every kind plus a
        // thin deterministic sample of the rest.
        let k = self.sample_seen.fetch_add(1, Ordering::Relaxed);
        if k < 3 || (k % 997 == 0 && k < 20_000) || (nontrivial && k % 211 == 0 && k < 5_000) {
            let mut s = self.samples.lock().unwrap();
            if s.len() < 12 {
                s.push(json!({
                    "kind": case.kind,
                    "nontrivial": nontrivial,
                    "sources": case.srcs.iter().map(|b| clip(&String::from_utf8_lossy(b), 1500)).collect::<Vec<_>>(),
                    "note": clip(&case.note, 300),
                }));
            }
        }
    }

    pub fn count_distinct_key(&self, key: &str) {
        self.distinct.lock().unwrap().insert(fnv(key.as_bytes()));
    }

    // Evaluates a case, counts it, and records a violation if it fails.
    // Returns true when the case passed.
    pub fn judge(&self, case: &Case, nontrivial: bool, via: Via, custom: Option<CustomFn>) -> bool {
        let trace = std::env::var("VERIF_TRACE").is_ok();
        let t0 = Instant::now();
        if trace {
            eprintln!("TRACE start {} {}", case.kind, clip(&case.note, 120));
        }
        let r = self.judge_inner(case, nontrivial, via, custom);
        if trace && t0.elapsed().as_millis() > 500 {
            eprintln!("TRACE slow {} ms {} {}\n{}", t0.elapsed().as_millis(), case.kind, clip(&case.note, 120), clip(&String::from_utf8_lossy(&case.srcs[0]), 3000));
        }
        r
    }

    fn judge_inner(&self, case: &Case, nontrivial: bool, via: Via, custom: Option<CustomFn>) -> bool {
        self.count(case, nontrivial);
        match eval_case(case, via, custom) {
            Verdict::Pass => true,
            Verdict::Skip(why) => {
                self.skipped.fetch_add(1, Ordering::Relaxed);
                self.exclude(&format!("skipped: {}", clip(&why, 80)));
                true
            },
            Verdict::Fail(reason) => {
                self.record(case.clone(), reason);
                false
            },
        }
    }

    // Evaluates without counting (used while shrinking).
    pub fn fails(&self, case: &Case, via: Via, custom: Option<CustomFn>) -> Option<String> {
        match eval_case(case, via, custom) {
            Verdict::Fail(r) => Some(r),
            _ => None,
        }
    }

    pub fn record(&self, case: Case, reason: String) {
        if reason.starts_with("no termination") || reason.contains("Timeout") {
            // Every further non-terminating case costs a full time limit:
            // two of them are enough.
            if self.timeouts.fetch_add(1, Ordering::Relaxed) >= 1 {
                self.stop.store(true, Ordering::Relaxed);
            }
        }
        let sig = format!("{}|{}|{}", case.kind, normalise_reason(&reason), String::from_utf8_lossy(&case.srcs[0]));
        let mut v = self.violations.lock().unwrap();
        // De-duplicate by kind + normalised reason: one root cause, one line.
        let key = format!("{}|{}", case.kind, normalise_reason(&reason));
        if v.iter().any(|x| format!("{}|{}", x.case.kind, normalise_reason(&x.reason)) == key) {
            return;
        }
        v.push(Violation{case, reason, sig});
        if v.len() >= MAX_VIOLATIONS {
            self.stop.store(true, Ordering::Relaxed);
        }
    }

    pub fn n_violations(&self) -> usize { self.violations.lock().unwrap().len() }

    // Runs `total` proptest cases over tapes of up to `tape_len` cells, split
    // over all cores. `f` decodes a tape into a case (or None = discarded,
    // which it should count via `exclude`) and says whether it is
    // non-trivial; a failing case is shrunk on the tape by proptest.
    pub fn proptest_tapes<F>(&self, name: &str, total: u64, tape_len: usize, via: Via, custom: Option<CustomFn>, f: F)
    where
        F: Fn(&mut Tape) -> Option<(Case, bool)> + Sync,
    {
        let shards = rayon::current_num_threads().max(1) as u64;
        let per = total.div_ceil(shards);
        (0..shards).into_par_iter().for_each(|shard| {
            if self.stopped() {
                return;
            }
            let seed = self.sub_seed(name, shard);
            let mut seed_bytes = [0u8; 32];
            for (i, b) in seed_bytes.iter_mut().enumerate() {
                *b = (seed.rotate_left((i as u32 * 7) % 64) as u8) ^ (i as u8).wrapping_mul(31);
            }
            let rng = TestRng::from_seed(RngAlgorithm::ChaCha, &seed_bytes);
            let config = Config{
                cases: per as u32,
                failure_persistence: None,
                max_shrink_iters: 300,
                max_shrink_time: 30_000,
                max_global_rejects: u32::MAX,
                max_local_rejects: u32::MAX,
                ..Config::default()
            };
            let mut runner = TestRunner::new_with_rng(config, rng);
            let strategy = proptest::collection::vec(proptest::num::u16::ANY, 0..=tape_len);
            let failed = AtomicBool::new(false);
            let result = runner.run(&strategy, |cells| {
                if self.stopped() && !failed.load(Ordering::Relaxed) {
                    return Ok(());
                }
                let mut tape = Tape::new(cells);
                let (case, nontrivial) = match f(&mut tape) {
                    Some(x) => x,
                    None => return Ok(()),
                };
                if failed.load(Ordering::Relaxed) {
                    // Shrinking: do not count, just re-judge.
                    return match self.fails(&case, via, custom) {
                        Some(r) => Err(TestCaseError::fail(r)),
                        None => Ok(()),
                    };
                }
                self.count(&case, nontrivial);
                match eval_case(&case, via, custom) {
                    Verdict::Pass => Ok(()),
                    Verdict::Skip(why) => {
                        self.skipped.fetch_add(1, Ordering::Relaxed);
                        self.exclude(&format!("skipped: {}", clip(&why, 80)));
                        Ok(())
                    },
                    Verdict::Fail(r) => {
                        if r.starts_with("no termination") || r.contains("Timeout") {
                            // Shrinking a hang costs the time limit per
                            // attempt: report it as found.
                            self.record(case, r);
                            return Ok(());
                        }
                        failed.store(true, Ordering::Relaxed);
                        Err(TestCaseError::fail(r))
                    },
                }
            });
            if let Err(TestError::Fail(_, cells)) = result {
                let mut tape = Tape::new(cells);
                if let Some((case, _)) = f(&mut tape) {
                    // Re-confirm through the CLI; record the shrunk case.
                    match eval_case(&case, Via::Cli, custom) {
                        Verdict::Fail(r) => self.record(case, r),
                        _ => {
                            // The shrunk case passes through the CLI: either
                            // the in-process copy disagrees with the binary
                            // (a harness fault) or the failure is flaky.
                            match eval_case(&case, via, custom) {
                                Verdict::Fail(r) => self.harness_faults.lock().unwrap().push(format!("in-process only: {r}")),
                                _ => self.harness_faults.lock().unwrap().push("failure did not reproduce after shrinking".to_string()),
                            }
                        },
                    }
                }
            }
        });
    }

    // Judges an explicit list of cases in parallel.
    pub fn judge_all(&self, cases: Vec<(Case, bool)>, via: Via, custom: Option<CustomFn>) {
        cases.par_iter().for_each(|(c, nt)| {
            if self.stopped() {
                return;
            }
            self.judge(c, *nt, via, custom);
        });
    }

    // Replays the committed regression corpus of this property first.
    pub fn replay_corpus(&self, custom: Option<CustomFn>) {
        let dir = format!("{VERIF}/corpus/{}", self.property);
        let mut paths: Vec<_> = match fs::read_dir(&dir) {
            Ok(rd) => rd.filter_map(|e| e.ok()).map(|e| e.path()).filter(|p| p.extension().map(|x| x == "json").unwrap_or(false)).collect(),
            Err(_) => return,
        };
        paths.sort();
        for p in paths {
            let text = match fs::read_to_string(&p) { Ok(t) => t, Err(_) => continue };
            let v: Value = match serde_json::from_str(&text) { Ok(v) => v, Err(_) => continue };
            if let Some(case) = Case::from_json(&v) {
                self.regressions_replayed.fetch_add(1, Ordering::Relaxed);
                self.judge(&case, true, Via::Cli, custom);
            }
        }
    }

    // Writes evidence, prints the verdict lines, returns the exit code.
    pub fn finish(&self) -> i32 {
        let wall = self.start.elapsed().as_secs_f64();
        let known = load_known_findings();
        let vs = self.violations.lock().unwrap();
        let mut new_violations = 0;
        let mut lines = vec![];
        let _ = fs::create_dir_all(format!("{VERIF}/out/replay"));
        for v in vs.iter() {
            let open = known.iter().find(|k| k.status == "open" && k.property == self.property && k.matches.iter().all(|m| v.sig.contains(m.as_str())));
            if let Some(k) = open {
                lines.push(format!("KNOWN-FINDING: property={} {}", self.property, k.what));
                continue;
            }
            new_violations += 1;
            let mut j = v.case.to_json();
            j["reason"] = json!(v.reason);
            j["seed"] = json!(self.seed);
            let text = serde_json::to_string_pretty(&j).unwrap();
            let path = format!("{VERIF}/out/replay/{}-{:016x}.json", self.property, fnv(text.as_bytes()));
            let _ = fs::write(&path, text);
            eprintln!("--- violation of {} ({}): {}", self.property, v.case.kind, clip(&v.reason, 1500));
            for (i, s) in v.case.srcs.iter().enumerate() {
                eprintln!("--- source {i}:\n{}", clip(&String::from_utf8_lossy(s), 2000));
            }
            lines.push(format!("VIOLATION property={} replay={}", self.property, path));
        }
        // Known findings that are listed but were not hit are still announced
        // (they describe the unchanged tree).
        for k in known.iter().filter(|k| k.status == "open" && k.property == self.property) {
            let l = format!("KNOWN-FINDING: property={} {}", self.property, k.what);
            if !lines.contains(&l) {
                lines.push(l);
            }
        }
        let faults = self.harness_faults.lock().unwrap();
        let distinct = self.distinct.lock().unwrap().len();
        let mut coverage = json!({
            "evaluations": self.evaluations.load(Ordering::Relaxed),
            "distinct_nontrivial": distinct,
            "rule": self.rule.lock().unwrap().clone(),
            "samples": self.samples.lock().unwrap().clone(),
            "exhaustive": !self.exhaustive.lock().unwrap().is_empty(),
            "exhaustive_parts": self.exhaustive.lock().unwrap().clone(),
            "labels": self.labels.lock().unwrap().clone(),
            "excluded": self.excluded.lock().unwrap().clone(),
            "skipped": self.skipped.load(Ordering::Relaxed),
            "backends": {"cli_runs": CLI_RUNS.load(Ordering::Relaxed), "inproc_runs": INPROC_RUNS.load(Ordering::Relaxed), "inproc_available": worker_available()},
            "regressions_replayed": self.regressions_replayed.load(Ordering::Relaxed),
            "notes": self.notes.lock().unwrap().clone(),
            "harness_faults": faults.clone(),
        });
        for (k, v) in self.extra.lock().unwrap().iter() {
            coverage[k] = v.clone();
        }
        let ev = json!({
            "property_id": self.property,
            "tier": if self.tier == Tier::Quick { "quick" } else { "thorough" },
            "seed": self.seed,
            "level": "exploration",
            "coverage": coverage,
            "assumptions": assumptions(&self.property),
            "wall_s": (wall * 100.0).round() / 100.0,
            "violations": new_violations,
        });
        // Evidence describes /repo itself; runs against a scratch copy
        // (SEED_REPO, used for sensitivity runs) write elsewhere.
        let ev_dir = if repo_dir() == "/repo" { format!("{VERIF}/evidence") } else { format!("{VERIF}/out/scratch-evidence") };
        let _ = fs::create_dir_all(&ev_dir);
        let _ = fs::write(format!("{ev_dir}/{}.json", self.property), serde_json::to_string_pretty(&ev).unwrap() + "\n");
        for l in &lines {
            println!("{l}");
        }
        println!(
            "{} {}: {} cases, {} distinct non-trivial, {} violation(s), {:.1}s",
            self.property,
            if self.tier == Tier::Quick { "quick" } else { "thorough" },
            self.evaluations.load(Ordering::Relaxed), distinct, new_violations, wall,
        );
        if new_violations > 0 {
            1
        } else if !faults.is_empty() {
            eprintln!("harness faults: {:?}", *faults);
            2
        } else {
            0
        }
    }
}

fn normalise_reason(r: &str) -> String {
    // Drop digits and quoted payloads so that one root cause maps to one key.
    let mut out = String::new();
    let mut in_q = false;
    for c in r.chars() {
        if c == '"' {
            in_q = !in_q;
            continue;
        }
        if in_q || c.is_ascii_digit() {
            continue;
        }
        out.push(c);
        if out.len() > 90 {
            break;
        }
    }
    out
}

pub struct Known {
    pub status: String,
    pub property: String,
    pub matches: Vec<String>,
    pub what: String,
}

pub fn load_known_findings() -> Vec<Known> {
    let mut out = vec![];
    let text = match fs::read_to_string(format!("{VERIF}/known_findings.jsonl")) { Ok(t) => t, Err(_) => return out };
    for line in text.lines() {
        let v: Value = match serde_json::from_str(line) { Ok(v) => v, Err(_) => continue };
        out.push(Known{
            status: v.get("status").and_then(|x| x.as_str()).unwrap_or("").to_string(),
            property: v.get("property").and_then(|x| x.as_str()).unwrap_or("").to_string(),
            matches: v.get("match").and_then(|x| x.as_array()).map(|a| a.iter().filter_map(|x| x.as_str().map(|s| s.to_string())).collect()).unwrap_or_default(),
            what: v.get("what").and_then(|x| x.as_str()).unwrap_or("").to_string(),
        });
    }
    out
}

fn assumptions(property: &str) -> Vec<String> {
    let mut a = vec![
        "the seed binary built from /repo's working tree (dev profile) is the system under test".to_string(),
        "exploration never establishes absence; exhaustive parts are exhaustive to the stated bound only".to_string(),
    ];
    if ["C01", "C04", "C05", "C07", "C12", "C13", "C14", "C17", "C20", "C02", "C09", "C18", "C19"].contains(&property) {
        a.push("the reference interpreter (sdmodel::interp), confined to documented behaviour (DESIGN.md §3, appendix A), is trusted".to_string());
    }
    a.push("in-process results (repository sources compiled into the harness) are re-confirmed through the binary before being reported".to_string());
    a
}
