// Generates the parser from /repo's grammar (or $SEED_REPO's) into OUT_DIR so
// that the `lalrpop_mod!(parser)` in the included main.rs resolves.
use std::env;
use std::path::PathBuf;

fn main() {
    let repo = env::var("SEED_REPO").unwrap_or_else(|_| "/repo".to_string());
    println!("cargo:rerun-if-env-changed=SEED_REPO");
    println!("cargo:rerun-if-changed={repo}/src/parser.lalrpop");
    println!("cargo:rustc-env=SEED_REPO_DIR={repo}");
    let out = PathBuf::from(env::var("OUT_DIR").unwrap());
    lalrpop::Configuration::new()
        .set_in_dir(format!("{repo}/src"))
        .set_out_dir(&out)
        .force_build(true)
        .process()
        .unwrap();
}
