// Worker process for the in-process back-end. Requests arrive on stdin,
// responses leave on a duplicate of the original stdout; fd 1 itself is
// replaced by a memfd so that whatever the interpreter prints is captured.
//
// Request:  op:u8  len:u32le  payload
// Response: len:u32le payload
//   op 1 (lex)        -> lines "T sl sc el ec <Debug>" then optional "E <Debug>"
//   op 2 (parse prog) -> "T<Debug tree>" | "R<line> <col> <msg>"
//   op 3 (run)        -> "<exit>\n<stdout len>\n<stdout bytes><stderr bytes>"
//   op 4 (parse expr) -> as op 2
//   op 5 (front end, no-panic probe) -> "A" accepted | "J" rejected | "P<panic msg>"
use std::fs;
use std::io::Read;
use std::io::Write;
use std::os::unix::io::FromRawFd;

use seedlink::api;

fn read_exact_or_exit(r: &mut impl Read, buf: &mut [u8]) {
    if r.read_exact(buf).is_err() {
        std::process::exit(0);
    }
}

fn main() {
    let scratch = std::env::args().nth(1).expect("usage: seedworker <scratch-dir>");
    fs::create_dir_all(&scratch).expect("create scratch");
    std::env::set_current_dir(&scratch).expect("chdir scratch");

    let (resp_fd, mfd) = unsafe {
        let resp_fd = libc::dup(1);
        let name = std::ffi::CString::new("seedout").unwrap();
        let mfd = libc::memfd_create(name.as_ptr(), 0);
        assert!(resp_fd >= 0 && mfd >= 0);
        assert!(libc::dup2(mfd, 1) >= 0);
        (resp_fd, mfd)
    };
    let mut resp = unsafe { fs::File::from_raw_fd(resp_fd) };
    api::silence_panics();

    let stdin = std::io::stdin();
    let mut stdin = stdin.lock();
    loop {
        let mut hdr = [0u8; 5];
        read_exact_or_exit(&mut stdin, &mut hdr);
        let op = hdr[0];
        let len = u32::from_le_bytes([hdr[1], hdr[2], hdr[3], hdr[4]]) as usize;
        let mut payload = vec![0u8; len];
        read_exact_or_exit(&mut stdin, &mut payload);

        let mut out: Vec<u8> = vec![];
        match op {
            1 | 2 | 4 | 5 => {
                let src = match String::from_utf8(payload) {
                    Ok(s) => s,
                    Err(_) => {
                        out.extend_from_slice(b"X");
                        send(&mut resp, &out);
                        continue;
                    },
                };
                match op {
                    1 => {
                        let d = api::lex_dump(&src);
                        for (sl, sc, el, ec, t) in d.tokens {
                            out.extend_from_slice(
                                format!("T {sl} {sc} {el} {ec} {t}\n").as_bytes(),
                            );
                        }
                        if let Some(e) = d.error {
                            out.extend_from_slice(format!("E {e}\n").as_bytes());
                        }
                    },
                    2 | 4 => {
                        let d =
                            if op == 2 {
                                api::parse_dump(&src)
                            } else {
                                api::parse_expr_dump(&src)
                            };
                        match d {
                            api::ParseDump::Tree(t) => {
                                out.push(b'T');
                                out.extend_from_slice(t.as_bytes());
                            },
                            api::ParseDump::Rejected{line, col, msg} => {
                                out.extend_from_slice(
                                    format!("R{line} {col} {msg}").as_bytes(),
                                );
                            },
                        }
                    },
                    _ => {
                        match api::lex_parse_nopanic(&src) {
                            Ok(true) => out.push(b'A'),
                            Ok(false) => out.push(b'J'),
                            Err(m) => {
                                out.push(b'P');
                                out.extend_from_slice(m.as_bytes());
                            },
                        }
                    },
                }
            },
            6 => {
                // Capabilities of this build.
                out.extend_from_slice(if cfg!(feature = "run") { b"run,perr" as &[u8] } else if cfg!(feature = "perr") { b"perr" } else { b"" });
            },
            3 => {
                fs::write("case.sd", &payload).expect("write case");
                let (code, stderr) = api::run_like_main("case.sd");
                let _ = std::io::stdout().flush();
                let captured = take_memfd(mfd);
                out.extend_from_slice(format!("{code}\n{}\n", captured.len()).as_bytes());
                out.extend_from_slice(&captured);
                out.extend_from_slice(stderr.as_bytes());
            },
            _ => {
                out.extend_from_slice(b"?");
            },
        }
        send(&mut resp, &out);
    }
}

fn send(resp: &mut fs::File, out: &[u8]) {
    let len = (out.len() as u32).to_le_bytes();
    if resp.write_all(&len).is_err() || resp.write_all(out).is_err() || resp.flush().is_err() {
        std::process::exit(0);
    }
}

fn take_memfd(mfd: i32) -> Vec<u8> {
    unsafe {
        let size = libc::lseek(mfd, 0, libc::SEEK_END);
        let mut buf = vec![0u8; size.max(0) as usize];
        let mut off = 0usize;
        while off < buf.len() {
            let n = libc::pread(
                mfd,
                buf.as_mut_ptr().add(off) as *mut libc::c_void,
                buf.len() - off,
                off as i64,
            );
            if n <= 0 {
                break;
            }
            off += n as usize;
        }
        libc::ftruncate(mfd, 0);
        libc::lseek(1, 0, libc::SEEK_SET);
        buf
    }
}
