// In-process back-end: the repository's own sources compiled into this crate.
// Nothing in /repo is modified; `SEED_REPO_DIR` is baked in by build.rs.
#![allow(macro_expanded_macro_exports_accessed_by_absolute_paths)]
#![allow(dead_code, unused_imports, unused_macros, clippy::all)]

include!(concat!(env!("SEED_REPO_DIR"), "/src/main.rs"));

pub mod api;
