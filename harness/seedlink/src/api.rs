// Thin, name-light API over the included sources. Tokens and trees leave this
// crate only through their derived `Debug` rendering, so a refactor of the
// repository's enums degrades a converter at run time instead of breaking the
// build of the harness.
use std::panic;
use std::path::Path;

use super::*;

pub struct LexDump {
    // One entry per token: (start line, start col, end line, end col, Debug).
    pub tokens: Vec<(usize, usize, usize, usize, String)>,
    // Debug rendering of the LexError that ended the stream, if any.
    pub error: Option<String>,
}

pub fn lex_dump(src: &str) -> LexDump {
    let mut tokens = vec![];
    let mut error = None;
    for item in lexer::Lexer::new(src) {
        match item {
            Ok(((sl, sc), tok, (el, ec))) => {
                tokens.push((sl, sc, el, ec, format!("{tok:?}")));
            },
            Err(e) => {
                error = Some(format!("{e:?}"));
                break;
            },
        }
    }
    LexDump{tokens, error}
}

pub enum ParseDump {
    // Debug rendering of the whole `Prog`.
    Tree(String),
    // What `main` would print after `<path>:` for a front-end rejection.
    Rejected{line: usize, col: usize, msg: String},
}

#[cfg(feature = "perr")]
fn rejected<T: std::fmt::Debug>(e: ParseError<(usize, usize), Token, LexError>, _dbg: T) -> ParseDump {
    let ((line, col), msg) = render_parse_error(e);
    ParseDump::Rejected{line, col, msg}
}

// Without the repository's renderer only the fact of the rejection is known.
#[cfg(not(feature = "perr"))]
fn rejected<E: std::fmt::Debug, T>(e: E, _dbg: T) -> ParseDump {
    ParseDump::Rejected{line: 0, col: 0, msg: format!("{e:?}")}
}

pub fn parse_dump(src: &str) -> ParseDump {
    match parser::ProgParser::new().parse(lexer::Lexer::new(src)) {
        Ok(prog) => ParseDump::Tree(format!("{prog:?}")),
        Err(e) => rejected(e, ()),
    }
}

pub fn parse_expr_dump(src: &str) -> ParseDump {
    match parser::ExprParser::new().parse(lexer::Lexer::new(src)) {
        Ok(e) => ParseDump::Tree(format!("{e:?}")),
        Err(e) => rejected(e, ()),
    }
}

// `run_like_main` runs the script at `raw_path` (relative to the current
// directory, like the binary does) and returns the exit status the binary
// would end with plus the text it would write to stderr. The formatting below
// is a copy of the tail of `main()`, which cannot be called because it exits
// the process; for that reason every disagreement found through this path is
// re-confirmed through the real binary before it is reported.
#[cfg(not(feature = "run"))]
pub fn run_like_main(_raw_path: &str) -> (i32, String) {
    (-2, "in-process run not available in this build\n".to_string())
}

#[cfg(feature = "run")]
pub fn run_like_main(raw_path: &str) -> (i32, String) {
    let p = raw_path.to_string();
    let r = panic::catch_unwind(move || {
        let path = Path::new(&p);
        match run(path) {
            Ok(()) => (0, String::new()),
            Err(e) => {
                let msg =
                    match e {
                        Error::GetCurrentDirFailed{source} => {
                            format!(" couldn't get current directory: {source}")
                        },
                        Error::ReadScriptFailed{path, source} => {
                            let p = path.to_string_lossy();

                            format!(" couldn't read script at '{p}': {source}")
                        },
                        Error::ParseFailed{src} => {
                            let ((ln, ch), msg) = render_parse_error(src);

                            format!("{ln}:{ch}: {msg}")
                        },
                        Error::EvalFailed{source, path} => {
                            let st = eval_err_to_stacktrace(&path, None, source);

                            let mut rendered_stacktrace = String::new();
                            if !st.stacktrace.is_empty() {
                                rendered_stacktrace = format!(
                                    "\nStacktrace:\n  {}",
                                    st.stacktrace.join("\n  "),
                                );
                            }

                            format!("{}{}", st.msg, rendered_stacktrace)
                        },
                    };
                (103, format!("{p}:{msg}\n"))
            },
        }
    });
    match r {
        Ok(v) => v,
        Err(payload) => {
            let msg =
                if let Some(s) = payload.downcast_ref::<&str>() {
                    (*s).to_string()
                } else if let Some(s) = payload.downcast_ref::<String>() {
                    s.clone()
                } else {
                    "<non-string panic payload>".to_string()
                };
            (101, format!("thread 'main' panicked at <in-process>:\n{msg}\n"))
        },
    }
}

pub fn lex_parse_nopanic(src: &str) -> Result<bool, String> {
    let s = src.to_string();
    let r = panic::catch_unwind(move || {
        parser::ProgParser::new().parse(lexer::Lexer::new(&s)).is_ok()
    });
    r.map_err(|payload| {
        if let Some(s) = payload.downcast_ref::<&str>() {
            (*s).to_string()
        } else if let Some(s) = payload.downcast_ref::<String>() {
            s.clone()
        } else {
            "<non-string panic payload>".to_string()
        }
    })
}

pub fn silence_panics() {
    panic::set_hook(Box::new(|_| {}));
}
