#![no_main]
// C01: bytes -> choice tape -> program (the same decoder as the proptest
// driver) -> reference interpreter vs. the real interpreter, in-process.
use libfuzzer_sys::fuzz_target;

mod common;

fuzz_target!(|data: &[u8]| {
    common::init();
    if data.len() > 1400 {
        return;
    }
    let mut t = sdmodel::tape::Tape::from_bytes(data);
    let cfg = sdmodel::gen::GenCfg::balanced();
    let prog = sdmodel::gen::gen_prog(&mut t, &cfg);
    let rr = sdmodel::interp::run(&prog);
    if rr.is_discard() {
        return;
    }
    let printed = sdmodel::print::print_canonical(&prog);
    let (code, out, err) = common::run_source(printed.src.as_bytes());
    let want = if rr.is_ok() { 0 } else { 103 };
    if code != want || out != rr.out {
        eprintln!("DISAGREEMENT\n--- source\n{}\n--- reference: {:?}\n{}\n--- observed: exit {code}\n{}\n{err}", printed.src, rr.outcome, String::from_utf8_lossy(&rr.out), String::from_utf8_lossy(&out));
        panic!("reference and interpreter disagree");
    }
});
