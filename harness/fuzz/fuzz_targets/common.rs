// Shared by the fuzz targets: stdout capture and the case decoders (the same
// decoders vcheck uses, so that an artifact can be turned into a replay file).
use std::io::Write;
use std::sync::Once;

static INIT: Once = Once::new();
static mut MFD: i32 = -1;

pub fn init() {
    INIT.call_once(|| unsafe {
        let name = std::ffi::CString::new("fuzzout").unwrap();
        let mfd = libc::memfd_create(name.as_ptr(), 0);
        assert!(mfd >= 0);
        assert!(libc::dup2(mfd, 1) >= 0);
        MFD = mfd;
        let dir = format!("/dev/shm/seed-fuzz.{}", std::process::id());
        std::fs::create_dir_all(&dir).unwrap();
        std::env::set_current_dir(&dir).unwrap();
    });
}

pub fn take_stdout() -> Vec<u8> {
    let _ = std::io::stdout().flush();
    unsafe {
        let mfd = MFD;
        let size = libc::lseek(mfd, 0, libc::SEEK_END);
        let mut buf = vec![0u8; size.max(0) as usize];
        let mut off = 0usize;
        while off < buf.len() {
            let n = libc::pread(mfd, buf.as_mut_ptr().add(off) as *mut libc::c_void, buf.len() - off, off as i64);
            if n <= 0 {
                break;
            }
            off += n as usize;
        }
        libc::ftruncate(mfd, 0);
        libc::lseek(1, 0, libc::SEEK_SET);
        buf
    }
}

pub fn run_source(src: &[u8]) -> (i32, Vec<u8>, String) {
    std::fs::write("case.sd", src).unwrap();
    let (code, err) = seedlink::api::run_like_main("case.sd");
    let out = take_stdout();
    (code, out, err)
}
