#![no_main]
// C02: hostile decoded programs and raw text never make the interpreter
// panic (run_like_main maps a caught panic to exit 101).
use libfuzzer_sys::fuzz_target;

mod common;

fuzz_target!(|data: &[u8]| {
    common::init();
    if data.is_empty() || data.len() > 1400 {
        return;
    }
    let src: Vec<u8> =
        if data[0] % 4 == 0 {
            // Raw text (mutations of the seed corpus of real scripts).
            data[1..].to_vec()
        } else {
            let mut t = sdmodel::tape::Tape::from_bytes(&data[1..]);
            let cfg = sdmodel::gen::GenCfg::hostile();
            let prog = sdmodel::gen::gen_prog(&mut t, &cfg);
            let rr = sdmodel::interp::run(&prog);
            if rr.is_discard() {
                return;
            }
            sdmodel::print::print_canonical(&prog).src.into_bytes()
        };
    if data[0] % 4 == 0 {
        // Raw text may be cyclic / unbounded: only parse it, and run it when
        // it contains no loops or calls that could recurse.
        let s = match std::str::from_utf8(&src) { Ok(s) => s, Err(_) => return };
        if s.contains("while") || s.contains("fn") || s.contains("..") {
            let _ = seedlink::api::parse_dump(s);
            return;
        }
    }
    let (code, _out, err) = common::run_source(&src);
    if code == 101 {
        eprintln!("CRASH\n--- source\n{}\n--- {err}", String::from_utf8_lossy(&src));
        panic!("interpreter panicked");
    }
});
