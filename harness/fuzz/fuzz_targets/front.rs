#![no_main]
// C03: any input is accepted or rejected cleanly by the lexer and parser.
// A panic or an out-of-range slice aborts the fuzzer; a reported line beyond
// the file is asserted in-target.
use libfuzzer_sys::fuzz_target;

fuzz_target!(|data: &[u8]| {
    if let Ok(s) = std::str::from_utf8(data) {
        if s.len() > 4096 {
            return;
        }
        match seedlink::api::parse_dump(s) {
            seedlink::api::ParseDump::Tree(_) => {},
            seedlink::api::ParseDump::Rejected{line, msg, ..} => {
                let lines = 1 + s.bytes().filter(|b| *b == b'\n').count();
                assert!(line >= 1 && line <= lines + 1, "reported line {line} of {lines}: {msg}");
                assert!(!msg.is_empty());
            },
        }
        let _ = seedlink::api::lex_dump(s);
    }
});
