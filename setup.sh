#!/bin/sh
# Offline build of everything the checks need (MANIFEST.setup_cmd).
set -e
mkdir -p /verif/.cache /verif/out/replay /verif/evidence
cd /verif/harness
export CARGO_NET_OFFLINE=true
cargo build --release --quiet -p vcheck --target-dir /verif/.cache/harness-target
cargo build --quiet -p seedlink --target-dir /verif/.cache/harness-target
cargo build --offline --quiet --manifest-path /repo/Cargo.toml --target-dir /verif/.cache/cli-target --bin seed
echo setup ok
